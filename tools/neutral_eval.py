#!/venv/bin/python
"""neutral_eval.py <dir with out/n*.diff> <tag> [--store]
   neutral_eval.py --regress

Behaviour-preserving refactorings written by independent sub-agents
(/verif/neutral/<tag>-n<k>/patch.diff): every claimed check must stay silent
(exit 0) on each of them.  Applies each diff to a scratch worktree of /repo's
current HEAD, runs all checks with --repo, prints what fires.  With --store
the diff (and its equivalence script / notes) is copied to /verif/neutral/.
--regress re-runs every stored variant.  Development helper, not a registered
command."""
import glob
import json
import os
import shutil
import subprocess
import sys
from concurrent.futures import ThreadPoolExecutor

VERIF = os.path.dirname(os.path.dirname(os.path.abspath(__file__)))
PY = '/venv/bin/python'
sys.path.insert(0, os.path.dirname(os.path.abspath(__file__)))
import _snap  # noqa: E402
SNAP = _snap.snapshot()


def sh(cmd, cwd=None):
  p = subprocess.run(cmd, cwd=cwd, stdout=subprocess.PIPE,
                     stderr=subprocess.STDOUT, text=True)
  return p.returncode, p.stdout


def claimed():
  man = json.load(open(os.path.join(VERIF, 'MANIFEST.json')))
  return [c['property_id'] for c in man['checks']]


def run_checks(wt):
  def one(p):
    rc, out = sh([PY, os.path.join(SNAP, 'tflsa', 'check.py'), p,
                  '--repo', wt, '--no-evidence'])
    lines = [l for l in out.splitlines()
             if 'rule=' in l or 'ANALYSIS-ERROR' in l]
    return p, rc, lines[:4]
  with ThreadPoolExecutor(8) as ex:
    return [r for r in ex.map(one, claimed()) if r[1] != 0]


def evaluate(diffs, wt):
  bad = 0
  for name, diff in diffs:
    sh(['git', 'reset', '--hard', '-q'], cwd=wt)
    rc, out = sh(['git', 'apply', diff], cwd=wt)
    if rc != 0:
      rc, out = sh(['git', 'apply', '-3', diff], cwd=wt)
    if rc != 0:
      print('%-10s patch does not apply' % name)
      continue
    fired = run_checks(wt)
    if not fired:
      print('%-10s silent' % name)
    else:
      bad += 1
      print('%-10s FIRES' % name)
      for p, rc, lines in fired:
        print('   %s exit %d' % (p, rc))
        for l in lines:
          print('      ' + l[:300])
  return bad


def main():
  wt = '/tmp/neutraleval_%d' % os.getpid()
  sh(['git', '-C', '/repo', 'worktree', 'add', '--detach', wt, 'HEAD'])
  try:
    if '--regress' in sys.argv:
      diffs = [(os.path.basename(d), os.path.join(d, 'patch.diff'))
               for d in sorted(glob.glob(os.path.join(VERIF, 'neutral', '*')))
               if os.path.isdir(d)]
      bad = evaluate(diffs, wt)
      print('variants that make a check fire: %d of %d' % (bad, len(diffs)))
      return 1 if bad else 0
    src, tag = sys.argv[1], sys.argv[2]
    diffs = []
    for diff in sorted(glob.glob(os.path.join(src, 'out', 'n*.diff'))):
      k = os.path.basename(diff)[:-5]
      diffs.append(('%s-%s' % (tag, k), diff))
      if '--store' in sys.argv:
        dst = os.path.join(VERIF, 'neutral', '%s-%s' % (tag, k))
        os.makedirs(dst, exist_ok=True)
        shutil.copy(diff, os.path.join(dst, 'patch.diff'))
        for ext, to in (('_equiv.py', 'equiv.py'), ('.md', 'notes.md')):
          f = os.path.join(src, 'out', k + ext)
          if os.path.exists(f):
            shutil.copy(f, os.path.join(dst, to))
    bad = evaluate(diffs, wt)
    print('variants that make a check fire: %d of %d' % (bad, len(diffs)))
    return 0
  finally:
    sh(['git', '-C', '/repo', 'worktree', 'remove', '--force', wt])


if __name__ == '__main__':
  sys.exit(main())
