#!/venv/bin/python
"""seed_regress.py : re-applies every stored seeded change (/verif/seeded/*)
to a scratch worktree of /repo's current HEAD and re-runs the checks that
detected it when it was stored (static checks only; the demonstrations are
not re-run).  Prints which seeds are still detected, which no longer apply
(the repaired tree moved on) and which were lost.  Development helper."""
import glob, json, os, subprocess, sys
VERIF = os.path.dirname(os.path.dirname(os.path.abspath(__file__)))
PY = '/venv/bin/python'
sys.path.insert(0, os.path.dirname(os.path.abspath(__file__)))
import _snap  # noqa: E402
SNAP = _snap.snapshot()

def sh(cmd, cwd=None):
  p = subprocess.run(cmd, cwd=cwd, stdout=subprocess.PIPE, stderr=subprocess.STDOUT, text=True)
  return p.returncode, p.stdout

def main():
  wt = '/tmp/seedregress_%d' % os.getpid()
  sh(['git', '-C', '/repo', 'worktree', 'add', '--detach', wt, 'HEAD'])
  lost = 0
  try:
    only = set(sys.argv[1:])
    for d in sorted(glob.glob(os.path.join(VERIF, 'seeded', '*'))):
      name = os.path.basename(d)
      if only and name not in only:
        continue
      meta = json.load(open(os.path.join(d, 'meta.json')))
      det = meta.get('detected_by') or {}
      sh(['git', 'reset', '--hard', '-q'], cwd=wt)
      rc, out = sh(['git', 'apply', os.path.join(d, 'patch.diff')], cwd=wt)
      if rc != 0:
        rc, out = sh(['git', 'apply', '-3', os.path.join(d, 'patch.diff')], cwd=wt)
      if rc != 0:
        print('%-8s patch no longer applies' % name)
        continue
      # a seed no check caught when it was stored is tried against every
      # check (a rule added since may live in another property)
      props = sorted(det) or ['C%02d' % i for i in range(1, 21)]
      hits = []
      for p in props:
        rc, out = sh([PY, os.path.join(SNAP, 'tflsa', 'check.py'), p, '--repo', wt, '--no-evidence'])
        hits.append('%s:%s' % (p, {0: 'silent', 1: 'VIOLATION', 2: 'exit2'}.get(rc, rc)))
      was_exit2 = det and all(v.get('exit') == 2 for v in det.values())
      status = 'detected' if any('VIOLATION' in h for h in hits) else (
          'never detected' if not det else (
              'fail-closed' if was_exit2 and any('exit2' in h for h in hits)
              else 'LOST'))
      if status == 'LOST':
        lost += 1
      print('%-8s %-14s %s' % (name, status, ' '.join(hits)))
  finally:
    sh(['git', '-C', '/repo', 'worktree', 'remove', '--force', wt])
  print('lost: %d' % lost)
  return 1 if lost else 0

if __name__ == '__main__':
  sys.exit(main())
