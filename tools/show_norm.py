#!/venv/bin/python
"""show_norm.py <repo> <module> [function]: the normal form the rules read"""
import ast, os, sys
sys.path.insert(0, os.path.dirname(os.path.dirname(os.path.abspath(__file__))))
from tflsa.model import Program
prog = Program(sys.argv[1])
m = prog.module(sys.argv[2])
if len(sys.argv) > 3:
  for n in ast.walk(m.tree):
    if isinstance(n, ast.FunctionDef) and n.name == sys.argv[3]:
      print(ast.unparse(n)); print()
else:
  print(ast.unparse(m.tree))
