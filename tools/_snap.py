"""snapshot of the analyser for long evaluation runs, so that editing
/verif/tflsa meanwhile does not change what is being evaluated"""
import atexit
import os
import shutil
import tempfile

VERIF = os.path.dirname(os.path.dirname(os.path.abspath(__file__)))


def snapshot():
  d = tempfile.mkdtemp(prefix='verif_snap_')
  shutil.copytree(os.path.join(VERIF, 'tflsa'), os.path.join(d, 'tflsa'),
                  ignore=shutil.ignore_patterns('__pycache__'))
  for f in ('known_findings.json', 'MANIFEST.json', 'properties.jsonl'):
    shutil.copy(os.path.join(VERIF, f), os.path.join(d, f))
  os.makedirs(os.path.join(d, 'evidence'), exist_ok=True)
  atexit.register(lambda: shutil.rmtree(d, ignore_errors=True))
  return d
