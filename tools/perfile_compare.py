#!/venv/bin/python
"""perfile_compare.py : runs every upstream test file on its own (one pytest
process per file, so that eager/graph state does not leak between files) on
the original snapshot and on /repo's working tree, and prints the tests that
pass on the snapshot but not on the working tree.  Development helper for
checking "fix:" commits against tests outside the pinned stable set."""
import glob, os, re, subprocess, sys, tempfile, shutil
from concurrent.futures import ThreadPoolExecutor

SNAP = sys.argv[1] if len(sys.argv) > 1 else 'fad4c36'
only = sys.argv[2:]  # optional file name filters

def run(tree, f):
  p = subprocess.run(['/venv/bin/python', '-m', 'pytest', '-q', '-p', 'no:cacheprovider',
                      '--timeout=1800', '-rA', '-n', '4', f], cwd=tree, capture_output=True, text=True,
                     env=dict(os.environ, TF_CPP_MIN_LOG_LEVEL='3'))
  return set(re.findall(r'^PASSED (\S+)', p.stdout, re.M)), set(re.findall(r'^(?:FAILED|ERROR) (\S+)', p.stdout, re.M))

wt = tempfile.mkdtemp(prefix='wt_orig_')
os.rmdir(wt)
subprocess.check_call(['git', '-C', '/repo', 'worktree', 'add', '-q', wt, SNAP])
try:
  files = sorted(os.path.relpath(f, '/repo') for f in glob.glob('/repo/tensorflow_lattice/python/*_test.py'))
  if only:
    files = [f for f in files if any(o in f for o in only)]
  jobs = [(t, f) for f in files for t in (wt, '/repo')]
  with ThreadPoolExecutor(4) as ex:
    outs = list(ex.map(lambda tf: run(*tf), jobs))
  res = dict(zip(jobs, outs))
  lost_total = 0
  for f in files:
    po, fo = res[(wt, f)]
    pn, fn = res[('/repo', f)]
    lost = sorted(po - pn)
    # xdist runs under load are flaky: a test only counts as lost if it also
    # fails when it is run on its own on the working tree
    confirmed = []
    for t in lost:
      p1 = subprocess.run(['/venv/bin/python', '-m', 'pytest', '-q', '-p', 'no:cacheprovider',
                           '--timeout=1800', t], cwd='/repo', capture_output=True, text=True,
                          env=dict(os.environ, TF_CPP_MIN_LOG_LEVEL='3'))
      if p1.returncode != 0:
        confirmed.append(t)
    lost = confirmed
    gained = sorted(pn - po)
    lost_total += len(lost)
    print('%-60s snapshot pass=%3d  now pass=%3d  lost=%d gained=%d' % (f, len(po), len(pn), len(lost), len(gained)))
    for t in lost:
      print('   LOST   ', t)
    for t in gained[:10]:
      print('   gained ', t)
  print('TOTAL LOST', lost_total)
finally:
  subprocess.call(['git', '-C', '/repo', 'worktree', 'remove', '--force', wt])
