#!/venv/bin/python
"""Runs the pinned suite on /repo (or argv[1]) and compares the passing set
with BASELINE.json's stable_pass (development helper for fix: commits)."""
import json, subprocess, sys, tempfile, os
import xml.etree.ElementTree as ET
repo = sys.argv[1] if len(sys.argv) > 1 else '/repo'
base = json.load(open('/root/.vp/BASELINE.json'))
out = tempfile.mktemp(suffix='.xml', dir='/tmp')
subprocess.run(['/venv/bin/python', '-m', 'pytest', '-q', '-p', 'no:cacheprovider',
                '--timeout=900', '--continue-on-collection-errors',
                '--junitxml=' + out], cwd=repo, stdout=subprocess.DEVNULL,
               stderr=subprocess.DEVNULL)
passed = set()
for tc in ET.parse(out).getroot().iter('testcase'):
  if not any(ch.tag in ('failure', 'error', 'skipped') for ch in tc):
    passed.add('%s::%s' % (tc.get('classname'), tc.get('name')))
os.remove(out)
stable = set(base['stable_pass'])
missing = sorted(stable - passed)
print('stable_pass=%d passed_now=%d missing=%d newly_passing=%d' % (
    len(stable), len(passed), len(missing), len(passed - stable)))
for m in missing: print('  MISSING', m)
sys.exit(1 if missing else 0)
