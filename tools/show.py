#!/venv/bin/python
"""show.py <module> <func|Class.method> ... : print source without docstrings/comments (dev helper)"""
import ast, sys
sys.path.insert(0, '/verif')
from tflsa import model
p = model.Program('/repo')
for q in sys.argv[2:]:
    f = p.function(sys.argv[1] + '.' + q)
    node = f.node
    body = node.body
    if body and isinstance(body[0], ast.Expr) and isinstance(body[0].value, ast.Constant):
        node = ast.FunctionDef(name=node.name, args=node.args, body=body[1:] or [ast.Pass()], decorator_list=node.decorator_list, returns=None, lineno=node.lineno, col_offset=0)
    print('# %s  (line %d)' % (f.qualname, f.node.lineno))
    print(ast.unparse(node))
    print()
