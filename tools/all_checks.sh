#!/bin/bash
# all_checks.sh [--repo PATH]: every claimed check, quick tier, in parallel; prints non-zero exits and their reports
cd "$(dirname "$0")/.." || exit 2
out=$(mktemp -d)
for i in $(seq -w 1 20); do
  ( /venv/bin/python tflsa/check.py C$i --no-evidence "$@" > $out/C$i.out 2>&1; echo $? > $out/C$i.rc ) &
done
wait
bad=0
for i in $(seq -w 1 20); do
  rc=$(cat $out/C$i.rc)
  if [ "$rc" != 0 ]; then bad=1; echo "C$i exit $rc"; grep -h "rule=\|ANALYSIS-ERROR\|Traceback" $out/C$i.out | cut -c1-280; fi
done
[ $bad = 0 ] && echo "all 20 checks exit 0"
rm -rf $out
exit $bad
