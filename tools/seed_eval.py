#!/venv/bin/python
"""seed_eval.py <worktree> <Cxx> [--store]

For every out/m<k>.diff of a seeded-mutation worktree: apply it in the
worktree, run the demonstration (must exit 1), run every claimed check of
/verif against the worktree (--repo), undo, run the demonstration again (must
exit 0).  With --store, confirmed mutations are copied to
/verif/seeded/<Cxx>-m<k>/ with a meta.json."""
import glob
import json
import os
import shutil
import subprocess
import sys

VERIF = os.path.dirname(os.path.dirname(os.path.abspath(__file__)))
PY = '/venv/bin/python'
sys.path.insert(0, os.path.dirname(os.path.abspath(__file__)))
import _snap  # noqa: E402
SNAP = _snap.snapshot()


def sh(cmd, cwd=None, env=None, timeout=900):
  p = subprocess.run(cmd, cwd=cwd, env=env, stdout=subprocess.PIPE,
                     stderr=subprocess.STDOUT, text=True, timeout=timeout)
  return p.returncode, p.stdout


def claimed():
  man = json.load(open(os.path.join(VERIF, 'MANIFEST.json')))
  return [c['property_id'] for c in man['checks']]


def main():
  src, pid = sys.argv[1], sys.argv[2]
  store = '--store' in sys.argv
  # evaluate on a fresh scratch worktree of /repo's *current* HEAD (the
  # delivering worktree may predate later fix: commits)
  wt = '/tmp/seedeval_%s_%d' % (pid, os.getpid())
  sh(['git', '-C', '/repo', 'worktree', 'add', '--detach', wt, 'HEAD'])
  try:
    run(src, wt, pid, store)
  finally:
    sh(['git', '-C', '/repo', 'worktree', 'remove', '--force', wt])


def run(src, wt, pid, store):
  env = dict(os.environ, PYTHONPATH=wt, TF_CPP_MIN_LOG_LEVEL='3')
  props = claimed()
  rows = []
  for diff in sorted(glob.glob(os.path.join(src, 'out', 'm*.diff'))):
    k = os.path.basename(diff)[:-5]
    demo = os.path.join(src, 'out', k + '_demo.py')
    sh(['git', 'checkout', '--', '.'], cwd=wt)
    rc, out = sh(['git', 'apply', diff], cwd=wt)
    if rc != 0:
      rc, out = sh(['git', 'apply', '-3', diff], cwd=wt)
    if rc != 0:
      rows.append((k, 'patch does not apply', out[-200:]))
      continue
    rc_m, out_m = sh([PY, demo], cwd=wt, env=env)
    fired = {}
    for p in props:
      rc_c, out_c = sh([PY, os.path.join(SNAP, 'tflsa', 'check.py'), p,
                        '--repo', wt, '--no-evidence'])
      if rc_c != 0:
        lines = [l for l in out_c.splitlines()
                 if 'rule=' in l or 'ANALYSIS-ERROR' in l]
        fired[p] = (rc_c, lines[:4])
    sh(['git', 'checkout', '--', '.'], cwd=wt)
    rc_b, out_b = sh([PY, demo], cwd=wt, env=env)
    confirmed = (rc_m == 1 and rc_b == 0)
    rows.append((k, 'demo mutated=%d clean=%d confirmed=%s' % (
        rc_m, rc_b, confirmed), fired))
    print('== %s %s: demo mutated rc=%d, clean rc=%d  -> %s' % (
        pid, k, rc_m, rc_b, 'CONFIRMED' if confirmed else 'NOT CONFIRMED'))
    print('   demo says: %s' % (out_m.strip().splitlines()[-1][:200]
                                if out_m.strip() else ''))
    if fired:
      for p, (rc_c, lines) in fired.items():
        print('   check %s exit %d' % (p, rc_c))
        for l in lines:
          print('      ' + l[:260])
    else:
      print('   no check fires')
    if store and confirmed:
      tag = [a.split('=', 1)[1] for a in sys.argv if a.startswith('--tag=')]
      dst = os.path.join(VERIF, 'seeded', '%s-%s%s' % (
          pid, tag[0] if tag else '', k))
      os.makedirs(dst, exist_ok=True)
      shutil.copy(diff, os.path.join(dst, 'patch.diff'))
      shutil.copy(demo, os.path.join(dst, 'demo.py'))
      md = os.path.join(src, 'out', k + '.md')
      notes = open(md).read() if os.path.exists(md) else ''
      meta = {
          'property': pid,
          'what': notes,
          'confirmed': 'demo exit %d with the patch, exit %d without '
                       '(PYTHONPATH=<scratch worktree> %s demo.py)' % (
                           rc_m, rc_b, PY),
          'checks_run': props,
          'detected_by': {p: {'exit': v[0], 'reports': v[1]}
                          for p, v in fired.items()},
          'detected': any(v[0] == 1 for v in fired.values()),
      }
      json.dump(meta, open(os.path.join(dst, 'meta.json'), 'w'), indent=1)


if __name__ == '__main__':
  main()
