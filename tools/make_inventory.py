#!/venv/bin/python
"""make_inventory.py [repo]: writes tflsa/inventory.json - every function of
every non-test module of the reference tree with its local names (the shape
the rules were confirmed on; see tflsa/inline.py).  Run only when the
reference itself moves (a `fix:` commit), never from a check."""
import ast
import json
import os
import subprocess
import sys

VERIF = os.path.dirname(os.path.dirname(os.path.abspath(__file__)))
sys.path.insert(0, VERIF)
from tflsa import inline  # noqa: E402


def main():
  repo = sys.argv[1] if len(sys.argv) > 1 else '/repo'
  pkg = os.path.join(repo, 'tensorflow_lattice', 'python')
  trees = {}
  for fn in sorted(os.listdir(pkg)):
    if fn.endswith('.py') and not fn.endswith('_test.py'):
      trees[fn[:-3]] = ast.parse(open(os.path.join(pkg, fn)).read())
  inv = inline.make_inventory(trees)
  head = subprocess.run(['git', '-C', repo, 'rev-parse', 'HEAD'],
                        stdout=subprocess.PIPE, text=True).stdout.strip()
  inv = {'__reference__': {'commit': head}, **inv}
  json.dump(inv, open(os.path.join(VERIF, 'tflsa', 'inventory.json'), 'w'),
            indent=0, sort_keys=True)
  print('functions: %d' % sum(len(v) for k, v in inv.items()
                              if not k.startswith('__')))


if __name__ == '__main__':
  main()
