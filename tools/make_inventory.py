#!/venv/bin/python
"""make_inventory.py [repo]: writes tflsa/inventory.json - every function of
every non-test module of the reference tree with its local names (the shape
the rules were confirmed on; see tflsa/inline.py).  Run only when the
reference itself moves (a `fix:` commit), never from a check."""
import ast
import json
import os
import subprocess
import sys

VERIF = os.path.dirname(os.path.dirname(os.path.abspath(__file__)))
sys.path.insert(0, VERIF)
from tflsa import inline  # noqa: E402


def main():
  repo = sys.argv[1] if len(sys.argv) > 1 else '/repo'
  pkg = os.path.join(repo, 'tensorflow_lattice', 'python')
  trees = {}
  for fn in sorted(os.listdir(pkg)):
    if fn.endswith('.py') and not fn.endswith('_test.py'):
      trees[fn[:-3]] = ast.parse(open(os.path.join(pkg, fn)).read())
  inv = inline.make_inventory(trees)
  # the loops of the reference are part of its shape: they must be known
  # before the second phase normalises the reference itself (otherwise its
  # own loops over literal displays would be unrolled)
  from tflsa.model import canonicalise
  import copy
  for mname, tree in trees.items():
    ctree = canonicalise(copy.deepcopy(tree))
    for q, (f, _, _) in inline.function_table(ctree).items():
      if q in inv.get(mname, {}):
        inv[mname][q]['loops'] = inline.loop_targets(f)
  head = subprocess.run(['git', '-C', repo, 'rev-parse', 'HEAD'],
                        stdout=subprocess.PIPE, text=True).stdout.strip()
  inv = {'__reference__': {'commit': head}, **inv}
  out = os.path.join(VERIF, 'tflsa', 'inventory.json')
  json.dump(inv, open(out, 'w'), indent=0, sort_keys=True)
  # second phase: the normal form of every reference function (needs the
  # locals / returns written above)
  inline._INV = None
  from tflsa.model import Program
  prog = Program(repo)
  for mname, mod in prog.modules.items():
    for q, (f, _, _) in inline.function_table(mod.tree).items():
      if q in inv.get(mname, {}):
        inv[mname][q]['flat'] = inline.flat_form(f)
        inv[mname][q]['loops'] = inline.loop_targets(f)
        inv[mname][q]['defs'] = inline.def_shapes(f)
        inv[mname][q]['comps'] = inline.comp_targets(f)
        from tflsa.rules import accum
        inv[mname][q]['init_depth'] = accum.init_depths(f)
  json.dump(inv, open(out, 'w'), indent=0, sort_keys=True)
  inline._INV = None
  print('functions: %d' % sum(len([q for q in v if not q.startswith('__')])
                              for k, v in inv.items()
                              if not k.startswith('__')))


if __name__ == '__main__':
  main()
