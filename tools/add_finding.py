#!/venv/bin/python
"""add_finding.py <status> <property> <key> <commit|-> <what...>  (dev helper)"""
import json, sys
st, pid, key, commit = sys.argv[1:5]; what = ' '.join(sys.argv[5:])
p = '/verif/known_findings.json'
d = json.load(open(p))
e = {'status': st, 'property': pid, 'key': key, 'what': ('fixed: property=%s %s %s' % (pid, commit, what)) if st == 'fixed' else what}
if commit != '-': e['commit'] = commit
d['findings'].append(e)
json.dump(d, open(p, 'w'), indent=1)
