"""F15 (C01): with an Edgeworth trust configured, one trapezoid trust whose
conditional feature is monotonic breaks that feature's monotonicity in
lattice_lib.finalize_constraints (strict mode / Lattice.finalize_constraints).
Not part of any check; run with PYTHONPATH=/repo /venv/bin/python demo.py"""
import os
os.environ['TF_CPP_MIN_LOG_LEVEL'] = '3'
import numpy as np
import tensorflow as tf
from tensorflow_lattice.python import lattice_lib as ll

sizes, mono = [2, 2, 2], [1, 1, 0]
rng = np.random.RandomState(0)


def count(edge, trap, n=100):
  bad = 0
  for _ in range(n):
    w = tf.constant(rng.normal(size=(8, 1)).astype('float32'))
    out = ll.finalize_constraints(w, sizes, mono, edgeworth_trusts=edge,
                                  trapezoid_trusts=trap)
    try:
      ll.assert_constraints(out, sizes, mono, edge, trap, None, None, None,
                            None, eps=1e-5)
    except Exception:
      bad += 1
  return bad


for d in (1, -1):
  print('direction %+d  with Edgeworth (0,2,1): %d/100 kernels infeasible; '
        'without: %d/100' % (d, count([(0, 2, 1)], [(0, 1, d)]),
                             count(None, [(0, 1, d)])))
