import tensorflow_lattice as tfl
from tensorflow_lattice.python import premade_lib
print(tfl.__file__)
bad = 0
for u in ('none', 'None', 'NONE', 0):
  fcs = [tfl.configs.FeatureConfig(name='a', unimodality=u, lattice_size=2, pwl_calibration_input_keypoints=[0., 1.]),
         tfl.configs.FeatureConfig(name='b', lattice_size=2, pwl_calibration_input_keypoints=[0., 1.])]
  for mc in (tfl.configs.CalibratedLatticeEnsembleConfig(feature_configs=fcs, lattices='rtl_layer', num_lattices=2, lattice_rank=2, output_initialization=[0., 1.]),
             tfl.configs.CalibratedLatticeConfig(feature_configs=fcs, parameterization='kronecker_factored', output_initialization=[0., 1.])):
    try:
      premade_lib.verify_config(mc)
      print(type(mc).__name__, repr(u), 'accepted')
    except ValueError as e:
      print(type(mc).__name__, repr(u), 'ValueError', str(e)[:70])
      if 'unimodality' in str(e): bad += 1
raise SystemExit(1 if bad else 0)
