"""F17 (C01, C07): finalize_constraints() stores kernel + (P(kernel) - kernel)
instead of P(kernel); the float32 difference is rounded at the magnitude of the
OLD kernel, so plateau values of the projection come back unequal and the
stored kernel violates the constraint the projection satisfies.
PYTHONPATH=/repo /venv/bin/python demo.py"""
import os
os.environ['TF_CPP_MIN_LOG_LEVEL'] = '3'
import numpy as np
import tensorflow as tf
import tensorflow_lattice as tfl

bad = 0
layer = tfl.layers.Lattice(lattice_sizes=[3, 2], monotonicities=[1, 1],
                           output_min=0.0, output_max=1.0,
                           monotonic_at_every_step=False)
layer.build((None, 2))
layer.kernel.assign(np.array([0.11776843667030334, 174.23828125, 2644.203125,
                              2787.1025390625, 31607424.0, 1.8929603099822998],
                             np.float32).reshape(6, 1))
proj = layer._final_constraints(layer.kernel).numpy().ravel()
layer.finalize_constraints()
got = layer.kernel.numpy().ravel()
print('Lattice   projection', proj, ' stored', got)
if np.any(np.diff(got.reshape(3, 2), axis=0) < -1e-3):
  bad += 1
kfl = tfl.layers.KroneckerFactoredLattice(lattice_sizes=3, monotonicities=[1])
kfl(tf.zeros((1, 1)))
k = np.zeros(kfl.kernel.shape, np.float32)
k[0, :, 0, 0] = [7.0, -1e8, 100.0]
kfl.kernel.assign(k)
kfl.scale.assign(np.ones(kfl.scale.shape, np.float32))
proj = kfl._final_kernel_constraints(kfl.kernel).numpy()[0, :, 0, 0]
kfl.finalize_constraints()
got = kfl.kernel.numpy()[0, :, 0, 0]
print('KFL       projection', proj, ' stored', got)
if np.any(np.diff(got) < -1e-3):
  bad += 1
print('violations:', bad)
raise SystemExit(1 if bad else 0)
