"""F16 (C04): with monotonicity, convexity and bounds together the strict
finalisation (_squeeze_by_scaling) never moves the bias, so a kernel whose
first keypoint output is outside [output_min, output_max] is returned outside
the bounds.  Not part of any check; PYTHONPATH=/repo /venv/bin/python demo.py"""
import os
os.environ['TF_CPP_MIN_LOG_LEVEL'] = '3'
import numpy as np
import tensorflow as tf
from tensorflow_lattice.python import pwl_calibration_lib as pl

bad = 0
lengths = tf.constant([1.0, 1.0, 1.0])
for bias0, mono, conv in ((-5.0, 1, 1), (7.0, 1, 1), (0.9995, 1, -1),
                          (5.0, -1, 1), (-7.0, -1, -1)):
  w = tf.constant([[bias0], [0.5 * mono], [1.0 * mono], [1.5 * mono]])
  for iters in (0, 8, 100):
    out = pl.project_all_constraints(
        w, monotonicity=mono, output_min=0.0, output_max=1.0,
        output_min_constraints=pl.BoundConstraintsType.BOUND,
        output_max_constraints=pl.BoundConstraintsType.BOUND,
        convexity=conv, lengths=lengths, num_projection_iterations=iters)
    kp = np.cumsum(out.numpy()[:, 0])
    v = max(0.0 - kp.min(), kp.max() - 1.0)
    if v > 1e-4:
      bad += 1
    print('bias %+.4f mono %+d convexity %+d iterations %3d -> keypoint '
          'outputs %s  bound violation %.4g' % (bias0, mono, conv, iters,
                                                np.round(kp, 4), max(v, 0)))
print('violating cases: %d' % bad)
raise SystemExit(1 if bad else 0)
