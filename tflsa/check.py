#!/venv/bin/python
"""Entry point:  check.py <Cxx> [--tier quick|thorough] [--repo PATH]
                 check.py --replay <file>
                 check.py --selftest [Cxx ...]

exit 0  all obligations of the property discharged (KNOWN-FINDING lines for
        listed findings that still reproduce)
exit 1  VIOLATION property=<id> replay=<path>  for every unlisted violation
exit 2  ANALYSIS-ERROR: the analysis cannot give a verdict (fail closed)
"""
import argparse
import importlib
import json
import os
import sys
import traceback

sys.path.insert(0, os.path.dirname(os.path.dirname(os.path.abspath(__file__))))

from tflsa import model  # noqa: E402
from tflsa import report  # noqa: E402


def _run_isolated(mod, prog, res):
  """Runs the statements of the property's run() one by one.  A rule group
  that cannot recognise its anchors (AnalysisError) or trips over an
  unexpected construct no longer hides what the other groups find: the error
  is recorded, the remaining groups still run, and the verdict is
  VIOLATION (exit 1) if any group found one, analysis-broken (exit 2)
  otherwise."""
  import ast
  import inspect
  import textwrap
  try:
    src = textwrap.dedent(inspect.getsource(mod.run))
    fdef = ast.parse(src).body[0]
    if any(isinstance(n, ast.Return) for n in fdef.body):
      raise ValueError('run() returns at top level')
  except (OSError, TypeError, ValueError, SyntaxError, IndexError):
    mod.run(prog, res)
    return
  ns = dict(mod.__dict__)
  ns.update(prog=prog, res=res)
  fname = getattr(mod, '__file__', '<run>')
  for st in fdef.body:
    code = compile(ast.Module(body=[st], type_ignores=[]), fname, 'exec')
    try:
      exec(code, ns)
    except model.AnalysisError as e:
      res.errors.append(str(e))
    except Exception:  # an evaluator met a construct it does not model
      res.errors.append('internal error in `%s`: %s' % (
          ast.unparse(st)[:60], traceback.format_exc().strip().splitlines()[
              -1]))
      if os.environ.get('TFLSA_DEBUG'):
        traceback.print_exc()


RESTRUCTURED = 16
# Rules whose verdict is read off ONE expression and the declared kind of the
# names in it (a numeric option tested for truthiness, a tuple looked up in a
# container of lists, a reduction of a per-unit tensor without an axis, an
# iteration whose element is never read): the
# statement shape of the surrounding function plays no part, so they are not
# subject to the restructure gate.  On the stored refactoring corpus the gate
# never had to suppress one of them.
EXPRESSION_LOCAL_RULES = frozenset(['N0', 'T4', 'X1', 'X9'])


def _restructure_gate(prog, res):
  """The matchers of the rules were confirmed on the reference shape of each
  function (tflsa/inventory.json).  A report located in a function whose
  normal form differs from that shape by more than RESTRUCTURED statements
  (after helper inlining and substitution of new locals), or in a function
  the reference does not know, says more about the matcher than about the
  code: it is turned into an analysis error (exit 2, 'restructured') instead
  of a VIOLATION.  Realistic one-site regressions change a handful of
  statements (at most 16 over the stored seeded changes, 3 or fewer for most); whole-function
  rewrites are where every false report of the refactoring corpus came
  from."""
  import ast
  import re
  from tflsa import inline
  line_maps = {}

  def functions_at(relpath, line):
    mod = None
    for m in prog.modules.values():
      if m.relpath == relpath:
        mod = m
    if mod is None:
      return None, []
    if relpath not in line_maps:
      spans = []
      tree = ast.parse(mod.src)
      for st in tree.body:
        if isinstance(st, ast.FunctionDef):
          spans.append((st.lineno, st.end_lineno, st.name, None))
        elif isinstance(st, ast.ClassDef):
          spans.append((st.lineno, st.end_lineno, None, st.name))
          for m_ in st.body:
            if isinstance(m_, ast.FunctionDef):
              spans.append((m_.lineno, m_.end_lineno,
                            '%s.%s' % (st.name, m_.name), st.name))
      line_maps[relpath] = spans
    hits = [sp for sp in line_maps[relpath] if sp[0] <= line <= sp[1]]
    names = [sp[2] for sp in hits if sp[2]]
    if not names and hits:
      # a class-level location: every method of the class
      cls = hits[0][3]
      names = [sp[2] for sp in line_maps[relpath]
               if sp[2] and sp[3] == cls]
    return mod, names

  for o in res.obligations:
    if o.status != 'violation':
      continue
    if getattr(o, 'rule', None) in EXPRESSION_LOCAL_RULES:
      continue
    m = re.match(r'(.*\.py):(\d+)$', str(o.loc))
    if not m:
      continue
    mod, names = functions_at(m.group(1), int(m.group(2)))
    if mod is None or not names:
      continue
    table = inline.function_table(mod.tree)
    worst = 0
    unknown = None
    for q in names:
      if q not in table:
        # a transparent helper that was inlined: judged with its callers,
        # i.e. with the functions of this module that changed at all
        for q2, (f2, _, _) in table.items():
          d2 = inline.edit_size(mod.name, q2, f2)
          if d2:
            worst = max(worst, d2)
        continue
      d = inline.edit_size(mod.name, q, table[q][0])
      if d is None:
        unknown = q
      else:
        worst = max(worst, d)
    if unknown is not None or worst > RESTRUCTURED:
      o.status = 'restructured'
      res.errors.append(
          '%s rule=%s instance=%s: %s was restructured (%s) - the rule was '
          'confirmed on another shape of this function and is not applied '
          '(what it would have said: %s)' % (
              o.loc, o.rule, o.key, unknown or names[0],
              'not a reference function' if unknown else
              '%d normal-form statements differ from the reference' % worst,
              o.detail[:160]))


def run_property(pid, tier, repo, replay_key=None, write_evidence=True,
                 quiet=False):
  try:
    mod = importlib.import_module('tflsa.props.%s' % pid)
  except ImportError as e:
    if 'tflsa.props' in str(e):
      raise model.AnalysisError('no check is built for property %s' % pid)
    raise
  prog = model.Program(repo)
  res = report.Result(pid, tier, repo)
  res.explanation = mod.EXPLANATION
  res.assumptions = list(getattr(mod, 'ASSUMPTIONS', []))
  _run_isolated(mod, prog, res)
  _restructure_gate(prog, res)
  if tier == 'thorough' and replay_key is None:
    # sensitivity audit: informational, never changes the verdict
    try:
      from tflsa import selftest
      misses = selftest.audit(pid, repo)
      st = dict(getattr(selftest.audit, 'last_stats', {}))
      res.extra['audit'] = {
          'mutants_applied': st.get('applied', 0),
          'mutants_detected': st.get('detected', 0),
          'neutral_variants': st.get('neutral', 0),
          'neutral_variants_silent': st.get('neutral_silent', 0),
          'audit_misses': misses,
          'note': 'scratch copies under $TMPDIR, one textual edit each, '
                  'removed immediately; informational only'}
    except model.AnalysisError as e:
      print('AUDIT-SKIPPED %s' % e)
  return res.finish(replay_key=replay_key, write_evidence=write_evidence,
                    quiet=quiet)


def main(argv=None):
  ap = argparse.ArgumentParser()
  ap.add_argument('property', nargs='*')
  ap.add_argument('--tier', default=os.environ.get('VERIF_TIER') or 'quick',
                  choices=['quick', 'thorough'])
  ap.add_argument('--repo', default='/repo')
  ap.add_argument('--replay')
  ap.add_argument('--selftest', action='store_true')
  ap.add_argument('--no-evidence', action='store_true')
  args = ap.parse_args(argv)
  try:
    if args.selftest:
      from tflsa import selftest
      return selftest.main(args.property, args.repo)
    if args.replay:
      with open(args.replay) as f:
        rp = json.load(f)
      return run_property(rp['property'], 'quick', args.repo,
                          replay_key=rp['key'], write_evidence=False)
    if len(args.property) != 1:
      ap.error('exactly one property id expected')
    pid = args.property[0]
    rc = run_property(pid, args.tier, args.repo,
                      write_evidence=not args.no_evidence)
    return rc
  except model.AnalysisError as e:
    print('ANALYSIS-ERROR %s' % e)
    return 2
  except Exception:  # traceback must never look like a violation
    print('ANALYSIS-ERROR internal error')
    traceback.print_exc()
    return 2


if __name__ == '__main__':
  sys.exit(main())
