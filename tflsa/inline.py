"""Program-level normal form relative to the reference inventory.

The rules name the functions and the role-bearing locals of the tree they were
confirmed on (`inventory.json`: every function of every module with its local
names).  Two behaviour-preserving refactorings change exactly that shape and
nothing else: a block moved into a NEW private helper, and a sub-expression
given a NEW local name.  Both are undone when a module is loaded:

  * a function that is not in the inventory ("transparent helper") is inlined
    at its call sites inside the same module (statement level; bounded depth),
    the way Min et al. inline callees up to a bound.  Parameters are replaced
    by the argument expressions (or bound by an assignment), `return e`
    becomes an assignment to the call's target (guard returns become if /
    else), and the definition is dropped once no reference is left;
  * a local that is not in the inventory of its (known) function, is assigned
    once and whose right-hand side cannot change before its uses is
    substituted into its uses.

Nothing here decides a property: the verdicts are computed on the normal form,
and a mutation inside a new helper is seen by the rules of its caller."""
import ast
import copy
import json
import os

_HERE = os.path.dirname(os.path.abspath(__file__))
_INV = None
MAX_PASSES = 4
MAX_HELPER_STMTS = 60


def inventory():
  global _INV
  if _INV is None:
    p = os.path.join(_HERE, 'inventory.json')
    _INV = json.load(open(p)) if os.path.exists(p) else {}
  return _INV


# ---------------------------------------------------------------------------
def function_table(tree):
  """{qualname: (FunctionDef, owner list, class name or None)} for module
  level functions and methods (one class level)."""
  out = {}
  for st in tree.body:
    if isinstance(st, ast.FunctionDef):
      out[st.name] = (st, tree.body, None)
    elif isinstance(st, ast.ClassDef):
      for m in st.body:
        if isinstance(m, ast.FunctionDef):
          out['%s.%s' % (st.name, m.name)] = (m, st.body, st.name)
  return out


def local_names(fn):
  names = set()
  for n in ast.walk(fn):
    if isinstance(n, ast.Name) and isinstance(n.ctx, ast.Store):
      names.add(n.id)
    elif isinstance(n, ast.arg):
      names.add(n.arg)
  return names


def returned_names(fn):
  """['weights'] / ['bias', 'heights'] when every return of fn returns the
  same name (tuple of names), else None"""
  shapes = set()
  for n in ast.walk(fn):
    if isinstance(n, ast.Return):
      v = n.value
      if isinstance(v, ast.Name):
        shapes.add((v.id,))
      elif isinstance(v, ast.Tuple) and v.elts and all(
          isinstance(e, ast.Name) for e in v.elts):
        shapes.add(tuple(e.id for e in v.elts))
      else:
        return None
  if len(shapes) != 1:
    return None
  names = list(shapes.pop())
  return names if len(set(names)) == len(names) else None


def module_constants(tree):
  return sorted({t.id for st in tree.body if isinstance(st, ast.Assign)
                 for t in st.targets if isinstance(t, ast.Name)})


def inline_new_constants(tree, known):
  """a module-level NAME = <literal> that the reference module does not have
  (a magic number or an id list that was moved to module level) is put back
  where it is used"""
  new = {}
  for st in list(tree.body):
    if isinstance(st, ast.Assign) and len(st.targets) == 1 and isinstance(
        st.targets[0], ast.Name) and st.targets[0].id not in known:
      try:
        ast.literal_eval(st.value)
      except (ValueError, SyntaxError, TypeError):
        continue
      new[st.targets[0].id] = st
  if not new:
    return tree
  stores = {}
  for n in ast.walk(tree):
    if isinstance(n, ast.Name) and isinstance(n.ctx, (ast.Store, ast.Del)):
      stores[n.id] = stores.get(n.id, 0) + 1
  new = {k: v for k, v in new.items() if stores.get(k) == 1}
  sub = _Subst({k: v.value for k, v in new.items()}, {})
  for st in tree.body:
    if isinstance(st, (ast.FunctionDef, ast.ClassDef)):
      sub.visit(st)
  for v in new.values():
    tree.body.remove(v)
  return tree


def make_inventory(trees):
  """{module: {qualname: {'locals': sorted local names, 'returns': names
  returned by every return statement or None}}}"""
  inv = {}
  for mod, tree in sorted(trees.items()):
    inv[mod] = {q: {'locals': sorted(local_names(f)),
                    'returns': returned_names(f)}
                for q, (f, _, _) in function_table(tree).items()}
    inv[mod]['__constants__'] = module_constants(tree)
  return inv


def name_returns(fn, names):
  """the reference returns `names`; `return E` becomes `name = E; return
  name` (element-wise for tuples when no element reads a name assigned by an
  earlier one)"""
  for owner in ast.walk(fn):
    for f in ('body', 'orelse', 'finalbody'):
      block = getattr(owner, f, None)
      if not (isinstance(block, list) and block and isinstance(
          block[0], ast.stmt)):
        continue
      out = []
      for s in block:
        if isinstance(s, ast.Return) and s.value is not None:
          vals = [s.value] if len(names) == 1 else (
              list(s.value.elts) if isinstance(s.value, ast.Tuple) and len(
                  s.value.elts) == len(names) else None)
          if vals is not None and not all(
              isinstance(v, ast.Name) and v.id == n
              for v, n in zip(vals, names)):
            ok = True
            done = []
            for v, n in zip(vals, names):
              reads = {x.id for x in ast.walk(v) if isinstance(x, ast.Name)}
              if reads & set(done):
                ok = False
              if not (isinstance(v, ast.Name) and v.id == n):
                done.append(n)
            if ok:
              for v, n in zip(vals, names):
                if isinstance(v, ast.Name) and v.id == n:
                  continue
                out.append(ast.copy_location(ast.Assign(
                    targets=[ast.Name(id=n, ctx=ast.Store())], value=v), s))
              rv = ast.Name(id=names[0], ctx=ast.Load()) if len(
                  names) == 1 else ast.Tuple(
                      elts=[ast.Name(id=n, ctx=ast.Load()) for n in names],
                      ctx=ast.Load())
              out.append(ast.copy_location(ast.Return(value=rv), s))
              continue
        out.append(s)
      setattr(owner, f, out)
  return fn


# ---------------------------------------------------------------------------
def _strip_doc(body):
  if body and isinstance(body[0], ast.Expr) and isinstance(
      body[0].value, ast.Constant) and isinstance(body[0].value.value, str):
    return body[1:]
  return body


def _has_return(node_or_list):
  nodes = node_or_list if isinstance(node_or_list, list) else [node_or_list]
  for n in nodes:
    for x in ast.walk(n):
      if isinstance(x, ast.Return):
        return True
  return False


def _inlinable(fn):
  if fn.decorator_list and not all(
      isinstance(d, ast.Name) and d.id == 'staticmethod'
      for d in fn.decorator_list):
    return False
  a = fn.args
  if a.vararg or a.posonlyargs:
    return False
  if a.kwarg:
    # **kwargs that is only forwarded (`g(x, **kwargs)`) is bound to the
    # extra keywords of each call
    kw = a.kwarg.arg
    for n in ast.walk(fn):
      if isinstance(n, ast.Name) and n.id == kw:
        fwd = any(isinstance(c, ast.Call) and any(
            k.arg is None and k.value is n for k in c.keywords)
                  for c in ast.walk(fn))
        if not fwd:
          return False
  body = _strip_doc(fn.body)
  if not body or sum(1 for _ in ast.walk(fn)) > 1500 or len(body) > \
      MAX_HELPER_STMTS:
    return False
  for n in ast.walk(fn):
    if isinstance(n, (ast.Yield, ast.YieldFrom, ast.Await, ast.Global,
                      ast.Nonlocal)):
      return False
    if n is not fn and isinstance(n, (ast.FunctionDef, ast.ClassDef)):
      return False
    if isinstance(n, ast.Call) and isinstance(n.func, ast.Name) and \
        n.func.id in (fn.name, 'locals', 'vars'):
      return False
  # returns only at block level of ifs (no return inside loops / with / try)
  def ok(stmts):
    for s in stmts:
      if isinstance(s, ast.If):
        if not ok(s.body) or not ok(s.orelse):
          return False
      elif isinstance(s, ast.Return):
        pass
      elif _has_return(s):
        return False
    return True
  return ok(body)


def _bind_args(fn, call, is_method):
  """{param: arg expr} or None"""
  params = [a.arg for a in fn.args.args]
  defaults = fn.args.defaults
  dmap = dict(zip(params[len(params) - len(defaults):], defaults))
  for a, d in zip(fn.args.kwonlyargs, fn.args.kw_defaults):
    params.append(a.arg)
    if d is not None:
      dmap[a.arg] = d
  bound = {}
  pos = list(params[:len(fn.args.args)])
  if is_method:
    if not pos:
      return None
    bound[pos[0]] = ast.Name(id='self', ctx=ast.Load())
    pos = pos[1:]
  if any(isinstance(a, ast.Starred) for a in call.args) or any(
      k.arg is None for k in call.keywords):
    return None
  if len(call.args) > len(pos):
    return None
  for p, a in zip(pos, call.args):
    bound[p] = a
  extra = []
  for k in call.keywords:
    if k.arg in bound:
      return None
    if k.arg not in params:
      if fn.args.kwarg is None:
        return None
      extra.append(k)
      continue
    bound[k.arg] = k.value
  for p in params:
    if p not in bound:
      if p not in dmap:
        return None
      bound[p] = dmap[p]
  if fn.args.kwarg is not None:
    bound['**' + fn.args.kwarg.arg] = extra
  return bound


class _Subst(ast.NodeTransformer):

  def __init__(self, mapping, rename, forwarded=None):
    self.mapping = mapping      # name -> expression (Load uses only)
    self.rename = rename        # name -> new name
    self.forwarded = forwarded or {}   # kwargs name -> [keyword, ...]

  def visit_Call(self, c):
    if self.forwarded:
      kws = []
      for k in c.keywords:
        if k.arg is None and isinstance(k.value, ast.Name) and \
            k.value.id in self.forwarded:
          kws.extend(copy.deepcopy(x) for x in self.forwarded[k.value.id])
        else:
          kws.append(k)
      c.keywords = kws
    return self.generic_visit(c)

  def visit_Name(self, n):
    if n.id in self.mapping and isinstance(n.ctx, ast.Load):
      return ast.copy_location(copy.deepcopy(self.mapping[n.id]), n)
    if n.id in self.rename:
      return ast.copy_location(ast.Name(id=self.rename[n.id], ctx=n.ctx), n)
    return n


def _simple(e):
  if isinstance(e, (ast.Name, ast.Constant)):
    return True
  if isinstance(e, ast.Attribute):
    return _simple(e.value)
  if isinstance(e, ast.UnaryOp) and isinstance(e.operand, ast.Constant):
    return True
  return False


def _retarget(stmts, make_result):
  """return e -> make_result(e); guard returns become if / else"""
  out = []
  for i, s in enumerate(stmts):
    if isinstance(s, ast.Return):
      out.extend(make_result(s.value if s.value is not None else
                             ast.Constant(value=None), s))
      return out, True
    if isinstance(s, ast.If) and (_has_return(s.body) or _has_return(
        s.orelse)):
      rest = stmts[i + 1:]
      b, bt = _retarget(list(s.body) + copy.deepcopy(rest), make_result)
      o, ot = _retarget(list(s.orelse) + copy.deepcopy(rest), make_result)
      new = ast.copy_location(ast.If(test=s.test, body=b or [ast.Pass()],
                                     orelse=o), s)
      out.append(new)
      return out, bt and ot
    out.append(s)
  return out, False


def _drop_self_assignments(stmts):
  """x = x left behind by inlining (`return x` of a helper whose result goes
  back into x) is removed; an else arm that becomes empty disappears"""
  out = []
  for s in stmts:
    if isinstance(s, ast.Assign) and len(s.targets) == 1 and isinstance(
        s.targets[0], ast.Name) and isinstance(s.value, ast.Name) and \
        s.value.id == s.targets[0].id:
      continue
    if isinstance(s, ast.If):
      s.body = _drop_self_assignments(s.body)
      s.orelse = _drop_self_assignments(s.orelse)
      if not s.body and not s.orelse:
        continue
      if not s.body:
        from .model import _negate
        s.test = _negate(s.test)
        s.body, s.orelse = s.orelse, []
    elif isinstance(s, (ast.For, ast.While, ast.With)):
      s.body = _drop_self_assignments(s.body) or [ast.copy_location(
          ast.Pass(), s)]
    out.append(s)
  return out


class _Inliner(object):

  def __init__(self, tree, known):
    self.tree = tree
    self.known = known          # qualnames of the inventory for this module
    self.table = function_table(tree)
    self.helpers = {}           # call key -> (fn, is_method)
    for q, (fn, owner, cls) in self.table.items():
      if q in known or not fn.name.startswith('_') or fn.name.startswith(
          '__'):
        continue
      if not _inlinable(fn):
        continue
      self.helpers[(cls, fn.name)] = fn
    self.counter = 0
    self.changed = False

  def helper_of(self, call, cls):
    f = call.func
    if isinstance(f, ast.Name) and (None, f.id) in self.helpers:
      return self.helpers[(None, f.id)], False
    if isinstance(f, ast.Attribute) and isinstance(f.value, ast.Name) and \
        f.value.id in ('self', 'cls') and cls is not None and (
            cls, f.attr) in self.helpers:
      fn = self.helpers[(cls, f.attr)]
      static = any(isinstance(d, ast.Name) and d.id == 'staticmethod'
                   for d in fn.decorator_list)
      return fn, not static
    return None, False

  @staticmethod
  def _relocate(stmts, call):
    """inlined statements are positioned AT the call (same line, increasing
    columns in execution order): rules order statements by position, and a
    report on inlined code belongs to the caller's line"""
    k = [getattr(call, 'col_offset', 0) * 1000]

    def visit(n):
      if hasattr(n, 'lineno') or isinstance(n, (ast.stmt, ast.expr)):
        n.lineno = call.lineno
        n.end_lineno = call.lineno
        k[0] += 1
        n.col_offset = k[0]
        n.end_col_offset = k[0]
      for c in ast.iter_child_nodes(n):
        visit(c)
    for s in stmts:
      visit(s)
    return stmts

  # -- one call ------------------------------------------------------------
  def expand(self, call, caller, cls, target=None, as_return=False,
             keep_names=()):
    r = self._expand(call, caller, cls, target, as_return, keep_names)
    if r is not None:
      self._relocate(r[0], call)
      if r[1] is not None:
        self._relocate([r[1]], call)
    return r

  def _expand(self, call, caller, cls, target=None, as_return=False,
              keep_names=()):
    """(statements, result expression) for `call`, or None"""
    fn, is_method = self.helper_of(call, cls)
    if fn is None or fn is caller:
      return None
    bound = _bind_args(fn, call, is_method)
    if bound is None:
      return None
    body = copy.deepcopy(_strip_doc(fn.body))
    assigned = set()
    comp_vars = set()
    for s in body:
      for n in ast.walk(s):
        if isinstance(n, ast.comprehension):
          comp_vars.update(id(x) for x in ast.walk(n.target))
    for s in body:
      for n in ast.walk(s):
        if isinstance(n, ast.Name) and isinstance(n.ctx, (ast.Store,
                                                          ast.Del)) and \
            id(n) not in comp_vars:
          assigned.add(n.id)
    caller_names = {n.id for n in ast.walk(caller) if isinstance(n, ast.Name)}
    caller_names |= {a.arg for a in ast.walk(caller) if isinstance(a, ast.arg)}
    mapping, rename, pre = {}, {}, []
    self.counter += 1
    tag = '__%s%d' % (fn.name.strip('_'), self.counter)
    forwarded = {p[2:]: a for p, a in bound.items() if p.startswith('**')}
    bound = {p: a for p, a in bound.items() if not p.startswith('**')}
    for p, a in bound.items():
      same = isinstance(a, ast.Name) and a.id == p
      if p not in assigned and (_simple(a) or same):
        mapping[p] = a
      elif same:
        pass                    # reassigned in the helper, same name outside
      else:
        name = p if p not in caller_names else p + tag
        if name != p:
          rename[p] = name
        pre.append(ast.copy_location(ast.Assign(
            targets=[ast.Name(id=name, ctx=ast.Store())],
            value=copy.deepcopy(a)), call))
    tnames = {n.id for n in ast.walk(target) if isinstance(n, ast.Name)} \
        if target is not None else set()
    tnames |= set(keep_names)
    for loc in assigned - set(bound):
      if loc in caller_names and loc not in tnames:
        rename[loc] = loc + tag
    sub = _Subst(mapping, rename, forwarded)
    body = [sub.visit(s) for s in body]
    if as_return:
      stmts = pre + body
      for s in stmts:
        ast.fix_missing_locations(s)
      return stmts, None
    n_ret = sum(1 for s in body for n in ast.walk(s)
                if isinstance(n, ast.Return))
    if n_ret == 1 and isinstance(body[-1], ast.Return) and target is None:
      # single final return: the result is the returned expression
      res = body[-1].value if body[-1].value is not None else ast.Constant(
          value=None)
      stmts = pre + body[:-1]
      for s in stmts:
        ast.fix_missing_locations(s)
      return stmts, res
    if target is not None:
      def mk(e, at):
        return [ast.copy_location(ast.Assign(
            targets=[copy.deepcopy(target)], value=e), at)]
      res = None
    else:
      rn = '__ret' + tag
      def mk(e, at):
        return [ast.copy_location(ast.Assign(
            targets=[ast.Name(id=rn, ctx=ast.Store())], value=e), at)]
      res = ast.Name(id=rn, ctx=ast.Load())
    new, _ = _retarget(body, mk)
    stmts = pre + _drop_self_assignments(new)
    for s in stmts:
      ast.fix_missing_locations(s)
    return stmts, res

  # -- statements ------------------------------------------------------------
  def _calls_in(self, node, cls):
    """helper calls inside node that are evaluated unconditionally as part
    of the statement (not inside lambdas / comprehensions / conditional
    operands)"""
    out = []

    def walk(n, cond):
      if isinstance(n, (ast.Lambda, ast.ListComp, ast.SetComp, ast.DictComp,
                        ast.GeneratorExp, ast.FunctionDef)):
        return
      if isinstance(n, ast.Call):
        h, _ = self.helper_of(n, cls)
        if h is not None and not cond:
          out.append(n)
      if isinstance(n, ast.IfExp):
        walk(n.test, cond)
        walk(n.body, True)
        walk(n.orelse, True)
        return
      if isinstance(n, ast.BoolOp):
        for i, v in enumerate(n.values):
          walk(v, cond or i > 0)
        return
      for c in ast.iter_child_nodes(n):
        walk(c, cond)
    walk(node, False)
    return out

  def rewrite_block(self, block, caller, cls):
    out = []
    for s in block:
      # nested blocks first
      for f in ('body', 'orelse', 'finalbody'):
        b = getattr(s, f, None)
        if isinstance(b, list) and b and isinstance(b[0], ast.stmt) and \
            not isinstance(s, (ast.FunctionDef, ast.ClassDef)):
          setattr(s, f, self.rewrite_block(b, caller, cls))
      if isinstance(s, ast.Try):
        for h in s.handlers:
          h.body = self.rewrite_block(h.body, caller, cls)
      if isinstance(s, (ast.FunctionDef, ast.ClassDef)):
        out.append(s)
        continue
      done = False
      if isinstance(s, ast.Return) and isinstance(s.value, ast.Call):
        r = self.expand(s.value, caller, cls, as_return=True)
        if r is not None:
          out.extend(r[0])
          self.changed = True
          done = True
      elif isinstance(s, ast.Assign) and len(s.targets) == 1 and isinstance(
          s.value, ast.Call) and isinstance(
              s.targets[0], (ast.Name, ast.Tuple, ast.Attribute,
                             ast.Subscript)):
        r = self.expand(s.value, caller, cls, target=s.targets[0])
        if r is not None:
          out.extend(r[0])
          self.changed = True
          done = True
      elif isinstance(s, ast.Expr) and isinstance(s.value, ast.Call):
        r = self.expand(s.value, caller, cls)
        if r is not None:
          out.extend(r[0])
          self.changed = True
          done = True
      if done:
        continue
      # helper calls inside a larger expression of a simple statement or in
      # the header of a compound one
      hdr = None
      if isinstance(s, (ast.Assign, ast.AugAssign, ast.AnnAssign, ast.Return,
                        ast.Expr, ast.Assert, ast.Raise)):
        hdr = [s]
      elif isinstance(s, (ast.If, ast.While)):
        hdr = [s.test]
      elif isinstance(s, ast.For):
        hdr = [s.iter]
      if hdr:
        for h in hdr:
          for c in self._calls_in(h, cls):
            keep = set()
            if isinstance(s, ast.Assign) and len(s.targets) == 1 and \
                isinstance(s.targets[0], ast.Name):
              # a helper local named like the variable this statement
              # assigns may keep its name unless the statement also reads
              # the old value
              t = s.targets[0].id
              reads = sum(1 for m in ast.walk(s.value)
                          if isinstance(m, ast.Name) and m.id == t)
              if reads == 0:
                keep.add(t)
            r = self.expand(c, caller, cls, keep_names=keep)
            if r is None or r[1] is None:
              continue
            out.extend(r[0])
            _replace_node(s, c, r[1])
            self.changed = True
      out.append(s)
    return out

  def run(self):
    for _ in range(MAX_PASSES):
      self.changed = False
      for q, (fn, owner, cls) in list(self.table.items()):
        fn.body = self.rewrite_block(fn.body, fn, cls)
      if not self.changed:
        break
    # drop helper definitions nobody refers to any more
    for (cls, name), fn in self.helpers.items():
      refs = 0
      for n in ast.walk(self.tree):
        if isinstance(n, ast.Name) and n.id == name and cls is None:
          refs += 1
        if isinstance(n, ast.Attribute) and n.attr == name:
          refs += 1
      if refs == 0:
        for q, (f, owner, c) in self.table.items():
          if f is fn and fn in owner:
            owner.remove(fn)
    return self.tree


def _replace_node(root, old, new):
  for parent in ast.walk(root):
    for field, val in ast.iter_fields(parent):
      if val is old:
        setattr(parent, field, new)
        return True
      if isinstance(val, list):
        for i, x in enumerate(val):
          if x is old:
            val[i] = new
            return True
  return False


# ---------------------------------------------------------------------------
def _assigned_after(fn, lineno):
  out = set()
  for n in ast.walk(fn):
    if isinstance(n, ast.Name) and isinstance(n.ctx, (ast.Store, ast.Del)) \
        and getattr(n, 'lineno', 0) >= lineno:
      out.add(n.id)
  return out


def split_versions(fn, known_locals):
  """an unknown local that is assigned several times, each value being used
  only in the statements that follow its assignment in the same block, is
  split into one name per assignment (so that each can be substituted)"""
  params = {a.arg for a in ast.walk(fn.args) if isinstance(a, ast.arg)}
  stores, loads = {}, {}
  for n in ast.walk(fn):
    if isinstance(n, ast.Name):
      (stores if isinstance(n.ctx, (ast.Store, ast.Del)) else loads
       ).setdefault(n.id, []).append(n)
  for name, sts in sorted(stores.items()):
    if len(sts) < 2 or name in known_locals or name in params or \
        name.startswith('__'):
      continue
    defs = []       # (block, index)
    for owner in ast.walk(fn):
      for f in ('body', 'orelse', 'finalbody'):
        block = getattr(owner, f, None)
        if not (isinstance(block, list) and block and isinstance(
            block[0], ast.stmt)):
          continue
        for i, s in enumerate(block):
          if isinstance(s, ast.Assign) and len(s.targets) == 1 and \
              isinstance(s.targets[0], ast.Name) and s.targets[0].id == name:
            defs.append((block, i))
    if len(defs) != len(sts):
      continue
    claims = []
    ok = True
    for block, i in defs:
      mine = []
      for k in range(i + 1, len(block)):
        st = block[k]
        if isinstance(st, ast.Assign) and len(st.targets) == 1 and \
            isinstance(st.targets[0], ast.Name) and st.targets[0].id == name:
          mine += [n for n in ast.walk(st.value)
                   if isinstance(n, ast.Name) and n.id == name]
          break
        if any(isinstance(n, ast.Name) and n.id == name and isinstance(
            n.ctx, (ast.Store, ast.Del)) for n in ast.walk(st)):
          ok = False
          break
        mine += [n for n in ast.walk(st)
                 if isinstance(n, ast.Name) and n.id == name]
      claims.append(mine)
    all_claimed = [id(n) for c in claims for n in c]
    if not ok or len(all_claimed) != len(set(all_claimed)) or len(
        all_claimed) != len(loads.get(name, [])):
      continue
    for v, ((block, i), mine) in enumerate(zip(defs, claims)):
      new = '%s__v%d' % (name, v)
      block[i].targets[0].id = new
      for n in mine:
        n.id = new
  return fn


def coalesce_copies(fn, known_locals):
  """an unknown local P that lives only between `P = ...` and a final plain
  copy `Y = P` in one block, while Y is not touched in between, IS Y: P is
  renamed to Y (this undoes the parameter binding of an inlined helper that
  re-assigns its parameter)"""
  params = {a.arg for a in ast.walk(fn.args) if isinstance(a, ast.arg)}
  again = True
  rounds = 0
  while again and rounds < 10:
    again = False
    rounds += 1
    for owner in ast.walk(fn):
      for f in ('body', 'orelse', 'finalbody'):
        block = getattr(owner, f, None)
        if not (isinstance(block, list) and block and isinstance(
            block[0], ast.stmt)):
          continue
        for j, st in enumerate(block):
          if not (isinstance(st, ast.Assign) and len(st.targets) == 1 and
                  isinstance(st.targets[0], ast.Name) and isinstance(
                      st.value, ast.Name)):
            continue
          p_, y = st.value.id, st.targets[0].id
          if p_ == y or p_ in known_locals or p_ in params:
            continue
          total = sum(1 for n in ast.walk(fn)
                      if isinstance(n, ast.Name) and n.id == p_)
          occ = [k for k in range(j + 1) if any(
              isinstance(n, ast.Name) and n.id == p_
              for n in ast.walk(block[k]))]
          inside = sum(1 for k in range(j + 1) for n in ast.walk(block[k])
                       if isinstance(n, ast.Name) and n.id == p_)
          if inside != total or not occ:
            continue
          i0 = occ[0]
          first = block[i0]
          if not (isinstance(first, ast.Assign) and len(first.targets) == 1
                  and isinstance(first.targets[0], ast.Name) and
                  first.targets[0].id == p_):
            continue
          # Y untouched between the first definition of P and the copy
          # (reading Y in that very first definition is fine: P = f(Y))
          touched = any(isinstance(n, ast.Name) and n.id == y
                        for k in range(i0 + 1, j)
                        for n in ast.walk(block[k]))
          if touched:
            continue
          for k in range(i0, j + 1):
            for n in ast.walk(block[k]):
              if isinstance(n, ast.Name) and n.id == p_:
                n.id = y
          new_block = [b for b in block if not (
              isinstance(b, ast.Assign) and len(b.targets) == 1 and
              isinstance(b.targets[0], ast.Name) and isinstance(
                  b.value, ast.Name) and b.value.id == b.targets[0].id)]
          block[:] = new_block or [ast.copy_location(ast.Pass(), st)]
          again = True
          break
        if again:
          break
      if again:
        break
  return fn


def forward_attribute_copies(fn, known_locals):
  """P = E ; self.A = P ; ... P ...   ->   self.A = E ; ... self.A ...
  for an unknown local P that is assigned once, copied into an attribute of
  `self` that the function stores nowhere else, in the same block, with no
  statement between definition and copy that mentions P or self.A."""
  params = {a.arg for a in ast.walk(fn.args) if isinstance(a, ast.arg)}
  if not fn.args.args or fn.args.args[0].arg != 'self':
    return fn
  nested = {id(n) for d in ast.walk(fn) if d is not fn and isinstance(
      d, (ast.FunctionDef, ast.Lambda)) for n in ast.walk(d)}
  for owner in ast.walk(fn):
    for f in ('body', 'orelse', 'finalbody'):
      block = getattr(owner, f, None)
      if not (isinstance(block, list) and block and isinstance(
          block[0], ast.stmt)):
        continue
      for i, st in enumerate(list(block)):
        if not (isinstance(st, ast.Assign) and len(st.targets) == 1 and
                isinstance(st.targets[0], ast.Name)):
          continue
        p_ = st.targets[0].id
        if p_ in known_locals or p_ in params:
          continue
        stores = [n for n in ast.walk(fn) if isinstance(n, ast.Name) and
                  n.id == p_ and isinstance(n.ctx, (ast.Store, ast.Del))]
        if len(stores) != 1 or any(
            isinstance(n, ast.Name) and n.id == p_ and id(n) in nested
            for n in ast.walk(fn)):
          continue
        if st not in block:
          continue
        i = block.index(st)
        for j in range(i + 1, len(block)):
          c = block[j]
          if isinstance(c, ast.Assign) and len(c.targets) == 1 and \
              isinstance(c.targets[0], ast.Attribute) and isinstance(
                  c.targets[0].value, ast.Name) and \
              c.targets[0].value.id == 'self' and isinstance(
                  c.value, ast.Name) and c.value.id == p_:
            attr = c.targets[0].attr
            other = [n for n in ast.walk(fn) if isinstance(n, ast.Attribute)
                     and n.attr == attr and isinstance(n.value, ast.Name) and
                     n.value.id == 'self' and n is not c.targets[0] and (
                         isinstance(n.ctx, (ast.Store, ast.Del)) or
                         n.lineno < c.lineno)]
            if other:
              break
            c.value = st.value
            for owner2 in ast.walk(fn):
              for f2, v2 in ast.iter_fields(owner2):
                if isinstance(v2, ast.Name) and v2.id == p_ and isinstance(
                    v2.ctx, ast.Load):
                  setattr(owner2, f2, ast.copy_location(ast.Attribute(
                      value=ast.Name(id='self', ctx=ast.Load()), attr=attr,
                      ctx=ast.Load()), v2))
                elif isinstance(v2, list):
                  for k, x in enumerate(v2):
                    if isinstance(x, ast.Name) and x.id == p_ and isinstance(
                        x.ctx, ast.Load):
                      v2[k] = ast.copy_location(ast.Attribute(
                          value=ast.Name(id='self', ctx=ast.Load()),
                          attr=attr, ctx=ast.Load()), x)
            block.remove(st)
            ast.fix_missing_locations(fn)
            break
          if any(isinstance(n, ast.Name) and n.id == p_
                 for n in ast.walk(c)):
            break
  return fn


def expand_setattr_loops(fn, known_locals):
  """d = {'a': x, 'b': y}
     for k, v in d.items(): setattr(self, k, v)     ->   self.a = x; self.b = y
  for a dict display with constant identifier keys bound once to an unknown
  local that is not changed in between.  (The values are evaluated when the
  display is built; the normal form re-reads the expressions, which is the
  same for the names / attributes / constants accepted here.)"""
  for owner in ast.walk(fn):
    for f in ('body', 'orelse', 'finalbody'):
      block = getattr(owner, f, None)
      if not (isinstance(block, list) and block and isinstance(
          block[0], ast.stmt)):
        continue
      for j, loop in enumerate(block):
        if not (isinstance(loop, ast.For) and not loop.orelse and len(
            loop.body) == 1 and isinstance(loop.iter, ast.Call) and
                isinstance(loop.iter.func, ast.Attribute) and
                loop.iter.func.attr == 'items' and not loop.iter.args and
                isinstance(loop.iter.func.value, ast.Name) and isinstance(
                    loop.target, ast.Tuple) and len(loop.target.elts) == 2
                and all(isinstance(e, ast.Name) for e in loop.target.elts)):
          continue
        dname = loop.iter.func.value.id
        if dname in known_locals:
          continue
        kv, vv = [e.id for e in loop.target.elts]
        st = loop.body[0]
        if not (isinstance(st, ast.Expr) and isinstance(st.value, ast.Call)
                and isinstance(st.value.func, ast.Name) and
                st.value.func.id == 'setattr' and len(st.value.args) == 3 and
                not st.value.keywords and isinstance(
                    st.value.args[0], ast.Name) and isinstance(
                        st.value.args[1], ast.Name) and
                st.value.args[1].id == kv and isinstance(
                    st.value.args[2], ast.Name) and
                st.value.args[2].id == vv):
          continue
        obj = st.value.args[0].id
        defs = [b for b in block[:j] if isinstance(b, ast.Assign) and len(
            b.targets) == 1 and isinstance(b.targets[0], ast.Name) and
                b.targets[0].id == dname]
        stores = [n for n in ast.walk(fn) if isinstance(n, ast.Name) and
                  n.id == dname and isinstance(n.ctx, (ast.Store, ast.Del))]
        if len(defs) != 1 or len(stores) != 1 or not isinstance(
            defs[0].value, ast.Dict):
          continue
        d = defs[0].value
        if not all(isinstance(k, ast.Constant) and isinstance(k.value, str)
                   and k.value.isidentifier() for k in d.keys):
          continue
        if not all(_simple(v) for v in d.values):
          continue
        new = []
        for k, v in zip(d.keys, d.values):
          a = ast.Assign(targets=[ast.Attribute(
              value=ast.Name(id=obj, ctx=ast.Load()), attr=k.value,
              ctx=ast.Store())], value=copy.deepcopy(v), lineno=loop.lineno)
          ast.copy_location(a, loop)
          new.append(a)
        for k_, a in enumerate(new):
          a.col_offset = getattr(loop, 'col_offset', 0) + k_
        block[j:j + 1] = new
        ast.fix_missing_locations(fn)
        return expand_setattr_loops(fn, known_locals)
  return fn


def expand_kwargs_dicts(fn, known_locals):
  """shared = dict(a=x, b=y) / {'a': x, 'b': y};  f(**shared, c=z)  ->
  f(a=x, b=y, c=z)   for an unknown local that is assigned once, never
  mutated and only used as **shared"""
  params = {a.arg for a in ast.walk(fn.args) if isinstance(a, ast.arg)}
  for owner in ast.walk(fn):
    for f in ('body', 'orelse', 'finalbody'):
      block = getattr(owner, f, None)
      if not (isinstance(block, list) and block and isinstance(
          block[0], ast.stmt)):
        continue
      for i, s in enumerate(list(block)):
        if not (isinstance(s, ast.Assign) and len(s.targets) == 1 and
                isinstance(s.targets[0], ast.Name)):
          continue
        name = s.targets[0].id
        if name in known_locals or name in params:
          continue
        v = s.value
        items = None
        if isinstance(v, ast.Dict) and all(
            isinstance(k, ast.Constant) and isinstance(k.value, str)
            for k in v.keys):
          items = [(k.value, val) for k, val in zip(v.keys, v.values)]
        elif isinstance(v, ast.Call) and isinstance(
            v.func, ast.Name) and v.func.id == 'dict' and not v.args and \
            all(k.arg for k in v.keywords):
          items = [(k.arg, k.value) for k in v.keywords]
        if items is None:
          continue
        occ = [n for n in ast.walk(fn)
               if isinstance(n, ast.Name) and n.id == name]
        stars = [(c, k) for c in ast.walk(fn) if isinstance(c, ast.Call)
                 for k in c.keywords if k.arg is None and isinstance(
                     k.value, ast.Name) and k.value.id == name]
        if len(occ) != len(stars) + 1 or not stars:
          continue
        for c, k in stars:
          idx = c.keywords.index(k)
          c.keywords[idx:idx + 1] = [
              ast.keyword(arg=a, value=copy.deepcopy(val))
              for a, val in items]
          c.keywords.sort(key=lambda kw: kw.arg or '')
        block.remove(s)
  return fn


def sink_callee_choice(fn, known_locals):
  """if c: f = X  elif d: f = Y  else: raise ...          if c: r = X(a)
  r = f(a)                                          ->    elif d: r = Y(a)
                                                          else: raise ...
  The statement that follows an if-chain is moved into every arm that does
  not leave, when it calls an unknown local that the arms bind to plain
  function references and that is used nowhere else.  (Executing the next
  statement at the end of each arm instead of after the chain is the same
  program; the pass only decides when to do it.)"""
  import copy as _copy
  params = {a.arg for a in ast.walk(fn.args) if isinstance(a, ast.arg)}

  def leaves(arm):
    return bool(arm) and isinstance(arm[-1], (ast.Return, ast.Raise,
                                              ast.Continue, ast.Break))

  def arms_of(st):
    out = [st.body]
    while len(st.orelse) == 1 and isinstance(st.orelse[0], ast.If):
      st = st.orelse[0]
      out.append(st.body)
    out.append(st.orelse)      # may be empty: the implicit else
    return out, st

  again = True
  rounds = 0
  while again and rounds < 6:
    again = False
    rounds += 1
    for owner in ast.walk(fn):
      for f in ('body', 'orelse', 'finalbody'):
        block = getattr(owner, f, None)
        if not (isinstance(block, list) and len(block) > 1 and isinstance(
            block[0], ast.stmt)):
          continue
        for i in range(len(block) - 1):
          st, nxt = block[i], block[i + 1]
          if not isinstance(st, ast.If) or not isinstance(
              nxt, (ast.Assign, ast.Return, ast.Expr)):
            continue
          callees = [c.func.id for c in ast.walk(nxt) if isinstance(
              c, ast.Call) and isinstance(c.func, ast.Name)]
          arms, last_if = arms_of(st)
          for name in callees:
            if name in known_locals or name in params:
              continue
            loads = [n for n in ast.walk(fn) if isinstance(n, ast.Name) and
                     n.id == name and isinstance(n.ctx, ast.Load)]
            if len(loads) != 1:
              continue
            stores = [n for n in ast.walk(fn) if isinstance(n, ast.Name) and
                      n.id == name and isinstance(n.ctx, (ast.Store,
                                                          ast.Del))]
            binding = []
            ok = True
            for arm in arms:
              if leaves(arm):
                continue
              bs = [b for b in arm if isinstance(b, ast.Assign) and len(
                  b.targets) == 1 and isinstance(b.targets[0], ast.Name) and
                    b.targets[0].id == name and isinstance(
                        b.value, (ast.Name, ast.Attribute))]
              if len(bs) == 1:
                binding.append(bs[0])
              else:
                ok = False
            if not ok or not binding or len(binding) != len(stores):
              continue
            for arm in arms:
              if not leaves(arm) and arm:
                arm.append(_copy.deepcopy(nxt))
            del block[i + 1]
            ast.fix_missing_locations(fn)
            again = True
            break
          if again:
            break
        if again:
          break
      if again:
        break
  return fn


def substitute_aliases(fn, known_locals):
  """P = X[c]  ... P[j] = v ... P[k] ...   ->   X[c][j] = v ... X[c][k]
  for an unknown single-assignment local P that only names an element of a
  container: X is a name that is neither re-bound after the definition nor
  changed at its own level anywhere in the function (no `X[i] = ...`,
  `del X[i]`, X.append / pop / ...), c is a constant or a name that is not
  re-assigned afterwards, and every use of P comes after the definition in its
  block.  X[c] is then the same object at every use: the alias is only a
  name for it."""
  import copy as _copy
  params = {a.arg for a in ast.walk(fn.args) if isinstance(a, ast.arg)}
  again = True
  rounds = 0
  while again and rounds < 8:
    again = False
    rounds += 1
    stores = {}
    for n in ast.walk(fn):
      if isinstance(n, ast.Name) and isinstance(n.ctx, (ast.Store, ast.Del)):
        stores[n.id] = stores.get(n.id, 0) + 1
    for owner in ast.walk(fn):
      for f in ('body', 'orelse', 'finalbody'):
        block = getattr(owner, f, None)
        if not (isinstance(block, list) and block and isinstance(
            block[0], ast.stmt)):
          continue
        for i, s in enumerate(block):
          if not (isinstance(s, ast.Assign) and len(s.targets) == 1 and
                  isinstance(s.targets[0], ast.Name) and isinstance(
                      s.value, ast.Subscript) and isinstance(
                          s.value.value, ast.Name)):
            continue
          name, x = s.targets[0].id, s.value.value.id
          idx = s.value.slice
          if name in known_locals or name in params or stores.get(
              name, 0) != 1 or x == name:
            continue
          if not (isinstance(idx, ast.Constant) or isinstance(idx, ast.Name)
                  or (isinstance(idx, ast.UnaryOp) and isinstance(
                      idx.operand, ast.Constant))):
            continue
          # only an alias when it is updated through: otherwise it is an
          # ordinary local and substitute_new_locals decides
          through = any(isinstance(n, ast.Subscript) and isinstance(
              n.ctx, (ast.Store, ast.Del)) and isinstance(
                  n.value, ast.Name) and n.value.id == name
                        for n in ast.walk(fn))
          if not through:
            continue
          own_level = False
          for n in ast.walk(fn):
            if isinstance(n, ast.Subscript) and isinstance(
                n.ctx, (ast.Store, ast.Del)) and isinstance(
                    n.value, ast.Name) and n.value.id == x:
              own_level = True
            if isinstance(n, ast.Call) and isinstance(
                n.func, ast.Attribute) and isinstance(
                    n.func.value, ast.Name) and n.func.value.id == x and \
                n.func.attr in ('append', 'extend', 'pop', 'insert', 'remove',
                                'clear', 'sort', 'reverse'):
              own_level = True
          if own_level:
            continue
          # re-bound between the definition and the end of the last
          # statement of this block that uses the alias
          last = s.lineno
          for st in block[i + 1:]:
            if any(isinstance(n, ast.Name) and n.id == name
                   for n in ast.walk(st)):
              last = max(last, getattr(st, 'end_lineno', st.lineno))
          rebound = {n.id for n in ast.walk(fn) if isinstance(n, ast.Name) and
                     isinstance(n.ctx, (ast.Store, ast.Del)) and
                     s.lineno < getattr(n, 'lineno', 0) <= last}
          # (inside a loop the definition is executed again before every use
          # of the next iteration: all uses follow it in this block)
          if x in rebound or (isinstance(idx, ast.Name) and idx.id in rebound):
            continue
          uses_in = [n for st in block[i + 1:] for n in ast.walk(st)
                     if isinstance(n, ast.Name) and n.id == name]
          uses_all = [n for n in ast.walk(fn) if isinstance(n, ast.Name) and
                      n.id == name and isinstance(n.ctx, ast.Load)]
          if not uses_all or len(uses_in) != len(uses_all):
            continue
          if any(isinstance(d, (ast.Lambda, ast.FunctionDef)) and d is not fn
                 and any(isinstance(n, ast.Name) and n.id == name
                         for n in ast.walk(d)) for d in ast.walk(fn)):
            continue
          value = s.value

          class _S(ast.NodeTransformer):
            def visit_Name(self_, n):
              if n.id == name and isinstance(n.ctx, ast.Load):
                v = _copy.deepcopy(value)
                return ast.copy_location(v, n)
              return n
          for k in range(i + 1, len(block)):
            block[k] = _S().visit(block[k])
          del block[i]
          if not block:
            block.append(ast.copy_location(ast.Pass(), s))
          ast.fix_missing_locations(fn)
          again = True
          break
        if again:
          break
      if again:
        break
  return fn


def substitute_new_locals(fn, known_locals):
  """single-assignment locals that the inventory does not know are replaced
  by their defining expression"""
  changed = True
  rounds = 0
  while changed and rounds < 8:
    changed = False
    rounds += 1
    stores = {}
    for n in ast.walk(fn):
      if isinstance(n, ast.Name) and isinstance(n.ctx, (ast.Store, ast.Del)):
        stores[n.id] = stores.get(n.id, 0) + 1
    params = {a.arg for a in ast.walk(fn.args) if isinstance(a, ast.arg)}
    for block_owner in ast.walk(fn):
      for f in ('body', 'orelse', 'finalbody'):
        block = getattr(block_owner, f, None)
        if not (isinstance(block, list) and block and isinstance(
            block[0], ast.stmt)):
          continue
        for i, s in enumerate(block):
          n_stores = 1
          if isinstance(s, ast.If):
            # `if c: x = A  else: x = B` defines x = A if c else B
            from .model import fold_ifexp
            f2 = fold_ifexp(s)
            if isinstance(f2, ast.Assign) and isinstance(
                f2.targets[0], ast.Name):
              n_stores = sum(1 for x in ast.walk(s) if isinstance(
                  x, ast.Name) and isinstance(x.ctx, ast.Store) and
                             x.id == f2.targets[0].id)
              s = f2
          if not (isinstance(s, ast.Assign) and len(s.targets) == 1 and
                  isinstance(s.targets[0], ast.Name)):
            continue
          name = s.targets[0].id
          if name in known_locals or name in params or stores.get(
              name, 0) != n_stores:
            continue
          if any(isinstance(x, (ast.Yield, ast.Await, ast.NamedExpr,
                                ast.Lambda)) for x in ast.walk(s.value)):
            continue
          # a container that is updated in place (x[i] = ..., x[i] *= ...,
          # x.append(...)) is state, not a name for an expression
          mutated = False
          for x in ast.walk(fn):
            if isinstance(x, (ast.Subscript, ast.Attribute)) and isinstance(
                x.ctx, (ast.Store, ast.Del)) and isinstance(
                    x.value, ast.Name) and x.value.id == name:
              mutated = True
            if isinstance(x, ast.AugAssign) and any(
                isinstance(y, ast.Name) and y.id == name
                for y in ast.walk(x.target)):
              mutated = True
            if isinstance(x, ast.Call) and isinstance(
                x.func, ast.Attribute) and isinstance(
                    x.func.value, ast.Name) and x.func.value.id == name and \
                x.func.attr in ('append', 'extend', 'add', 'update', 'pop',
                                'insert', 'remove', 'sort', 'setdefault'):
              mutated = True
          if mutated:
            continue
          # every use must come later in this block (or below it)
          uses_in = [n for st in block[i + 1:] for n in ast.walk(st)
                     if isinstance(n, ast.Name) and n.id == name]
          uses_all = [n for n in ast.walk(fn)
                      if isinstance(n, ast.Name) and n.id == name and
                      isinstance(n.ctx, ast.Load)]
          if not uses_all or len(uses_in) != len(uses_all):
            continue
          # closures see the name late: leave a name alone that is defined
          # in one function and read in a lambda / def nested below it
          scope = fn
          for d in ast.walk(fn):
            if d is not fn and isinstance(d, ast.FunctionDef) and any(
                x is s or x is block[i] for x in ast.walk(d)):
              scope = d      # innermost def that contains the definition
          if any(isinstance(d, (ast.Lambda, ast.FunctionDef)) and any(
              isinstance(n, ast.Name) and n.id == name for n in ast.walk(d))
                 for d in ast.walk(scope) if d is not scope):
            continue
          free = {n.id for n in ast.walk(s.value) if isinstance(n, ast.Name)}
          # a container read by the expression that is changed in place
          # later (stack.pop(), d[k] = v, x.append(...)) makes the
          # expression time-dependent: `top = stack[-1]` is a snapshot
          changed_in_place = set()
          for x in ast.walk(fn):
            if isinstance(x, ast.Call) and isinstance(
                x.func, ast.Attribute) and isinstance(
                    x.func.value, ast.Name) and x.func.attr in (
                        'append', 'extend', 'pop', 'insert', 'remove',
                        'clear', 'sort', 'reverse', 'update', 'add',
                        'discard', 'setdefault', 'popitem'):
              changed_in_place.add(x.func.value.id)
            if isinstance(x, ast.Subscript) and isinstance(
                x.ctx, (ast.Store, ast.Del)) and isinstance(
                    x.value, ast.Name):
              changed_in_place.add(x.value.id)
            if isinstance(x, ast.Attribute) and isinstance(
                x.ctx, (ast.Store, ast.Del)):
              # self.kernel = ... changes `self.kernel`, not all of `self`
              try:
                changed_in_place.add(ast.unparse(x))
              except Exception:  # pylint: disable=broad-except
                pass
          reads = set(free)
          for x in ast.walk(s.value):
            if isinstance(x, ast.Attribute):
              try:
                reads.add(ast.unparse(x))
              except Exception:  # pylint: disable=broad-except
                pass
          if any(r == c or r.startswith(c + '.') or r.startswith(c + '[')
                 for r in reads for c in changed_in_place):
            continue
          later = set()
          for st in block[i + 1:]:
            for n in ast.walk(st):
              if isinstance(n, ast.Name) and isinstance(
                  n.ctx, (ast.Store, ast.Del)):
                later.add(n.id)
          # loops around the block may re-run it: anything assigned in the
          # function after the definition counts
          later |= _assigned_after(fn, s.lineno + 1) & free
          if free & later:
            # still safe: every use sits in a simple statement (or the
            # header of a compound one) of this block, and nothing before the
            # last of them assigns a name the expression reads
            use_idx = []
            ok_pos = True
            for u in uses_all:
              jj = None
              for k in range(i + 1, len(block)):
                if any(n is u for n in ast.walk(block[k])):
                  jj = k
                  break
              if jj is None:
                ok_pos = False
                break
              st = block[jj]
              if isinstance(st, (ast.Assign, ast.AugAssign, ast.Return,
                                 ast.Expr)):
                hdr = [st.value] if st.value is not None else []
              elif isinstance(st, ast.Assert):
                hdr = [st.test]
              elif isinstance(st, (ast.If, ast.While)):
                hdr = [st.test]
              elif isinstance(st, ast.For):
                hdr = [st.iter]
              else:
                hdr = []
              if not any(n is u for h in hdr for n in ast.walk(h)):
                ok_pos = False
                break
              use_idx.append(jj)
            if not ok_pos or not use_idx:
              continue
            between = set()
            for st in block[i + 1:max(use_idx)]:
              for n in ast.walk(st):
                if isinstance(n, ast.Name) and isinstance(
                    n.ctx, (ast.Store, ast.Del)):
                  between.add(n.id)
            if free & between:
              continue
          if len(uses_all) > 1 and isinstance(s.value, ast.Call) and not \
              _pure_call(s.value):
            continue
          sub = _Subst({name: s.value}, {})
          for j in range(i + 1, len(block)):
            block[j] = sub.visit(block[j])
          del block[i]
          changed = True
          break
        if changed:
          break
      if changed:
        break
  return fn


_PURE_PREFIX = ('len', 'isinstance', 'list', 'tuple', 'set', 'sorted', 'min',
                'max', 'sum', 'any', 'all', 'range', 'zip', 'enumerate',
                'int', 'float', 'str', 'bool', 'abs', 'dict')


def _pure_call(c):
  """calls whose repeated evaluation changes nothing: builtins on values,
  methods of strings (.lower()), numpy / tf functions that build values"""
  f = c.func
  if isinstance(f, ast.Name):
    return f.id in _PURE_PREFIX
  if isinstance(f, ast.Attribute):
    if f.attr in ('lower', 'upper', 'strip', 'get', 'count', 'index', 'keys',
                  'values', 'items', 'as_list', 'get_shape'):
      return True
    root = f
    while isinstance(root, ast.Attribute):
      root = root.value
    if isinstance(root, ast.Name) and root.id in ('tf', 'np', 'math',
                                                  'itertools'):
      return f.attr not in ('add_weight', 'Variable', 'assign')
  return False


def split_tuple_assignments(fn):
  """a, b = (x, y)  ->  a = x; b = y  when no right-hand side reads a target
  assigned before it; `x = x` is dropped"""
  for owner in ast.walk(fn):
    for f in ('body', 'orelse', 'finalbody'):
      block = getattr(owner, f, None)
      if not (isinstance(block, list) and block and isinstance(
          block[0], ast.stmt)):
        continue
      out = []
      for s in block:
        if isinstance(s, ast.Assign) and len(s.targets) == 1 and isinstance(
            s.targets[0], ast.Tuple) and isinstance(s.value, ast.Tuple) and \
            len(s.targets[0].elts) == len(s.value.elts) and not any(
                isinstance(e, ast.Starred)
                for e in s.targets[0].elts + s.value.elts) and all(
                    isinstance(t, ast.Name) for t in s.targets[0].elts):
          ts = [t.id for t in s.targets[0].elts]
          ok = True
          for j, v in enumerate(s.value.elts):
            reads = {n.id for n in ast.walk(v) if isinstance(n, ast.Name)}
            if reads & set(ts[:j]):
              ok = False
          if ok:
            for t, v in zip(s.targets[0].elts, s.value.elts):
              if isinstance(v, ast.Name) and v.id == t.id:
                continue
              out.append(ast.copy_location(ast.Assign(targets=[t], value=v),
                                           s))
            continue
        out.append(s)
      if not out:
        out = [ast.copy_location(ast.Pass(), block[0])]
      setattr(owner, f, out)
  return fn


def loop_targets(fn):
  """[[iterable text, target text], ...] of the for loops of fn"""
  return [[ast.unparse(n.iter), ast.unparse(n.target)]
          for n in ast.walk(fn) if isinstance(n, ast.For)]


def restore_loop_targets(fn, ref_loops, known_locals):
  """a for loop over the same iterable as a reference loop whose target
  names were renamed gets the reference names back (the new names must be
  unknown to the reference, the old ones unused in the function)"""
  by_iter = {}
  for it, tg in ref_loops or []:
    by_iter.setdefault(it, []).append(tg)
  used = _names_outside_comprehensions(fn)
  for loop in [n for n in ast.walk(fn) if isinstance(n, ast.For)]:
    it = ast.unparse(loop.iter)
    cands = by_iter.get(it)
    if not cands or len(set(cands)) != 1:
      continue
    cur = ast.unparse(loop.target)
    if cur == cands[0]:
      continue
    try:
      ref_t = ast.parse(cands[0], mode='eval').body
    except SyntaxError:
      continue
    pairs = []

    def match(a, b):
      if isinstance(a, ast.Name) and isinstance(b, ast.Name):
        pairs.append((a.id, b.id))
        return True
      if isinstance(a, ast.Tuple) and isinstance(b, ast.Tuple) and len(
          a.elts) == len(b.elts):
        return all(match(x, y) for x, y in zip(a.elts, b.elts))
      return False
    if not match(loop.target, ref_t):
      continue
    ren = {a: b for a, b in pairs if a != b}
    if not ren or any(a in known_locals for a in ren):
      continue

    def reusable(b):
      # the reference uses one index name for several loops: fine when the
      # name is only ever a loop variable here as well and no loop that
      # binds it contains, or is contained in, this loop
      if b not in used:
        return True
      n_ref = sum(1 for _, tg in ref_loops or [] if b in tg.replace(
          '(', ' ').replace(')', ' ').replace(',', ' ').split())
      if n_ref < 2:
        return False
      for other in ast.walk(fn):
        if isinstance(other, ast.For) and other is not loop and any(
            isinstance(x, ast.Name) and x.id == b
            for x in ast.walk(other.target)):
          if any(x is loop for x in ast.walk(other)) or any(
              x is other for x in ast.walk(loop)):
            return False
      stores = [x for x in ast.walk(fn) if isinstance(x, ast.Name) and
                x.id == b and isinstance(x.ctx, (ast.Store, ast.Del))]
      targets = [x for l2 in ast.walk(fn) if isinstance(l2, ast.For)
                 for x in ast.walk(l2.target) if isinstance(x, ast.Name) and
                 x.id == b]
      if len(stores) != len(targets):
        return False
      # every read of b sits inside a loop that binds it
      for x in ast.walk(fn):
        if isinstance(x, ast.Name) and x.id == b and isinstance(
            x.ctx, ast.Load) and not any(
                isinstance(l2, ast.For) and any(
                    isinstance(y, ast.Name) and y.id == b
                    for y in ast.walk(l2.target)) and any(
                        y is x for y in ast.walk(l2))
                for l2 in ast.walk(fn)):
          return False
      return True
    if not all(reusable(b) for b in ren.values()):
      continue
    # the new names must not be used outside this loop
    if any(isinstance(x, ast.Name) and x.id in ren and not any(
        y is x for y in ast.walk(loop)) for x in ast.walk(fn)):
      continue
    for n in ast.walk(loop):
      if isinstance(n, ast.Name) and n.id in ren:
        n.id = ren[n.id]
    used = _names_outside_comprehensions(fn)
  return fn


def _names_outside_comprehensions(fn):
  """names used in the function, not counting the variables of comprehensions
  (they live in the comprehension's own scope)"""
  own = set()
  for c in ast.walk(fn):
    if isinstance(c, (ast.ListComp, ast.SetComp, ast.DictComp,
                      ast.GeneratorExp)):
      bound = {n.id for g in c.generators for n in ast.walk(g.target)
               if isinstance(n, ast.Name)}
      for n in ast.walk(c):
        if isinstance(n, ast.Name) and n.id in bound:
          own.add(id(n))
  return {n.id for n in ast.walk(fn) if isinstance(n, ast.Name) and
          id(n) not in own}


class _Blank(ast.NodeTransformer):
  def visit_Name(self, n):
    # module / builtin roots keep their names (tf, np, len ...): only what
    # can be a local is blanked
    if n.id in ('tf', 'np', 'math', 'keras', 'six', 'utils', 'len', 'range',
                'list', 'tuple', 'int', 'float', 'isinstance', 'zip',
                'enumerate', 'sorted', 'set', 'dict', 'str', 'bool', 'any',
                'all', 'max', 'min', 'sum', 'abs', 'self'):
      return n
    return ast.copy_location(ast.Name(id='_', ctx=n.ctx), n)


def def_shapes(fn):
  """{local: [shape of each simple definition, in document order]} where a
  shape is the statement with every local name blanked"""
  out = {}

  def walk(n):
    for f in ('body', 'orelse', 'handlers', 'finalbody'):
      for st in getattr(n, f, []) or []:
        if isinstance(st, (ast.Assign, ast.AugAssign)):
          t = st.targets[0] if isinstance(st, ast.Assign) else st.target
          if isinstance(t, ast.Name) and (isinstance(st, ast.AugAssign) or
                                          len(st.targets) == 1):
            sh = ast.unparse(_Blank().visit(copy.deepcopy(st)))
            out.setdefault(t.id, []).append(sh)
          elif isinstance(st, ast.Assign) and len(st.targets) == 1 and \
              isinstance(t, ast.Tuple) and isinstance(
                  st.value, ast.Tuple) and len(t.elts) == len(
                      st.value.elts) and all(isinstance(e, ast.Name)
                                             for e in t.elts):
            # a, b = x, y  defines a = x and b = y
            for e, v in zip(t.elts, st.value.elts):
              one = ast.Assign(targets=[ast.Name(id=e.id, ctx=ast.Store())],
                               value=copy.deepcopy(v), lineno=st.lineno)
              sh = ast.unparse(_Blank().visit(ast.fix_missing_locations(one)))
              out.setdefault(e.id, []).append(sh)
        if not isinstance(st, ast.ClassDef):
          walk(st)        # nested closures included: their locals are
                          # locals of the reference function as well
  walk(fn)
  return out


def restore_renamed_locals(fn, ref_shapes, known_locals, ref_flat=None):
  """a reference local that is no longer assigned and a new local whose
  definitions have exactly the same shapes (and no other candidate on either
  side) are the same variable under a new name: the reference name is put
  back"""
  if not ref_shapes:
    return fn
  for _ in range(6):
    cur = def_shapes(fn)
    params = {a.arg for a in ast.walk(fn.args) if isinstance(a, ast.arg)}
    used = _names_outside_comprehensions(fn)
    vanished = {l: tuple(sh) for l, sh in ref_shapes.items()
                if l not in used and l not in params}
    fresh = {u: tuple(sh) for u, sh in cur.items()
             if u not in known_locals and u not in params}
    done = False
    # a parameter that the reference re-binds (`x = tf.constant(x, ...)`) and
    # the function no longer does: the new local with the same definition
    # shapes is the re-bound parameter, when the parameter itself is not read
    # after that local is defined
    for l, sh in sorted(ref_shapes.items()):
      if l not in params or l in cur:
        continue
      sh = tuple(sh)
      cands = [u for u, s2 in fresh.items() if s2 == sh]
      rivals = [l2 for l2, s2 in ref_shapes.items()
                if tuple(s2) == sh and l2 in params and l2 not in cur]
      if len(cands) != 1 or len(rivals) != 1:
        continue
      u = cands[0]
      stores = [n for n in ast.walk(fn) if isinstance(n, ast.Name) and
                n.id == u and isinstance(n.ctx, (ast.Store, ast.Del))]
      if len(stores) != len(sh):
        continue
      first = min((n.lineno, n.col_offset) for n in stores)
      # the defining statement may read the parameter; nothing after it may
      def_stmt_end = None
      for st in ast.walk(fn):
        if isinstance(st, ast.Assign) and any(t is stores[0] or any(
            y is stores[0] for y in ast.walk(t)) for t in st.targets):
          def_stmt_end = (getattr(st, 'end_lineno', st.lineno),
                          getattr(st, 'end_col_offset', 10**6))
      if def_stmt_end is None:
        continue
      late = [n for n in ast.walk(fn) if isinstance(n, ast.Name) and
              n.id == l and (n.lineno, n.col_offset) > def_stmt_end]
      if late:
        continue
      for n in ast.walk(fn):
        if isinstance(n, ast.Name) and n.id == u:
          n.id = l
      done = True
      break
    if done:
      continue
    for l, sh in sorted(vanished.items()):
      cands = [u for u, s2 in fresh.items() if s2 == sh]
      rivals = [l2 for l2, s2 in vanished.items() if s2 == sh]
      if len(cands) == 1 and len(rivals) == 1:
        u = cands[0]
        # every store of u must be one of those simple definitions
        stores = sum(1 for n in ast.walk(fn) if isinstance(n, ast.Name) and
                     n.id == u and isinstance(n.ctx, (ast.Store, ast.Del)))
        if stores != len(sh):
          continue
        for n in ast.walk(fn):
          if isinstance(n, ast.Name) and n.id == u:
            n.id = l
        done = True
        break
      if len(sh) >= 2 and len(rivals) == 1:
        # one reference local defined k times <- k new locals defined once
        # each, with the same shapes in the same order and disjoint lives
        # (a block that re-used a name was extracted / copied with fresh
        # names)
        singles = []
        for u, s2 in fresh.items():
          if len(s2) == 1 and s2[0] in sh:
            d = [n for n in ast.walk(fn) if isinstance(n, ast.Name) and
                 n.id == u and isinstance(n.ctx, (ast.Store, ast.Del))]
            if len(d) == 1:
              singles.append(((d[0].lineno, d[0].col_offset), u, s2[0]))
        singles.sort()
        if len(singles) == len(sh) and [x[2] for x in singles] == list(sh):
          ok = True
          for k, (pos, u, _) in enumerate(singles):
            nxt = singles[k + 1][0] if k + 1 < len(singles) else (10**9, 0)
            for n in ast.walk(fn):
              if isinstance(n, ast.Name) and n.id == u and isinstance(
                  n.ctx, ast.Load) and not (
                      pos <= (n.lineno, n.col_offset) and
                      (n.lineno, n.col_offset) < nxt):
                ok = False
          if ok:
            names = {u for _, u, _ in singles}
            for n in ast.walk(fn):
              if isinstance(n, ast.Name) and n.id in names:
                n.id = l
            done = True
            break
      if ref_flat and 1 < len(cands) == len(rivals) <= 3:
        # symmetric locals (lhs_* / rhs_*): the assignment of new names to
        # reference names that brings the function closest to its reference
        # shape, when one assignment is strictly the closest
        import difflib
        import itertools
        if any(sum(1 for n in ast.walk(fn) if isinstance(n, ast.Name) and
                   n.id == u and isinstance(n.ctx, (ast.Store, ast.Del)))
               != len(sh) for u in cands):
          continue
        ref_lines = [x.strip() for x in ref_flat]
        scored = []
        for perm in itertools.permutations(sorted(cands)):
          ren = dict(zip(perm, sorted(rivals)))
          trial = copy.deepcopy(fn)
          for n in ast.walk(trial):
            if isinstance(n, ast.Name) and n.id in ren:
              n.id = ren[n.id]
          lines = [x.strip() for x in flat_form(trial)]
          scored.append((sum(1 for d in difflib.ndiff(ref_lines, lines)
                             if d[:1] in '+-'), perm))
        scored.sort(key=lambda t: t[0])
        if scored[0][0] < scored[1][0]:
          ren = dict(zip(scored[0][1], sorted(rivals)))
          for n in ast.walk(fn):
            if isinstance(n, ast.Name) and n.id in ren:
              n.id = ren[n.id]
          done = True
          break
    if not done:
      break
  return fn


def expand_fill_comprehensions(fn, ref_defs):
  """x = [E for t in it if c]   ->   x = [] ; for t in it: if c: x.append(E)
  x = {K: V for t in it}       ->   x = {} ; for t in it: x[K] = V
  for a local x that the reference function fills with a loop (its only
  reference definition is `x = []` / `x = {}`).  `return [E for ...]` is named
  after the one reference list local that the function no longer defines.
  A comprehension and the loop that appends to an empty container build the
  same container in the same order; which of the two a function uses is taken
  from its reference."""
  if not ref_defs:
    return fn
  lists = {l for l, sh in ref_defs.items() if list(sh) == ['_ = []']}
  dicts = {l for l, sh in ref_defs.items() if list(sh) == ['_ = {}']}
  if not lists and not dicts:
    return fn
  used = {n.id for n in ast.walk(fn) if isinstance(n, ast.Name)}
  for owner in ast.walk(fn):
    for f in ('body', 'orelse', 'finalbody'):
      block = getattr(owner, f, None)
      if not (isinstance(block, list) and block and isinstance(
          block[0], ast.stmt)):
        continue
      i = 0
      while i < len(block):
        st = block[i]
        i += 1
        comp = name = None
        if isinstance(st, ast.Assign) and len(st.targets) == 1 and isinstance(
            st.targets[0], ast.Name) and isinstance(
                st.value, (ast.ListComp, ast.DictComp)):
          name, comp = st.targets[0].id, st.value
        elif isinstance(st, ast.Return) and isinstance(st.value,
                                                       ast.ListComp):
          free = sorted(lists - used)
          if len(free) == 1:
            name, comp = free[0], st.value
        if comp is None or len(comp.generators) != 1 or \
            comp.generators[0].is_async:
          continue
        if isinstance(comp, ast.ListComp) and name not in lists:
          continue
        if isinstance(comp, ast.DictComp) and name not in dicts:
          continue
        # the element expression must not read the container being built
        if any(isinstance(n, ast.Name) and n.id == name
               for n in ast.walk(comp)):
          continue
        g = comp.generators[0]
        tgt = ast.Name(id=name, ctx=ast.Load())
        if isinstance(comp, ast.ListComp):
          init = ast.List(elts=[], ctx=ast.Load())
          fill = ast.Expr(value=ast.Call(func=ast.Attribute(
              value=tgt, attr='append', ctx=ast.Load()), args=[comp.elt],
                                         keywords=[]))
        else:
          init = ast.Dict(keys=[], values=[])
          fill = ast.Assign(targets=[ast.Subscript(
              value=tgt, slice=comp.key, ctx=ast.Store())], value=comp.value,
                            lineno=st.lineno)
        body = [fill]
        for c in reversed(g.ifs):
          body = [ast.If(test=c, body=body, orelse=[])]
        loop = ast.For(target=g.target, iter=g.iter, body=body, orelse=[],
                       lineno=st.lineno)
        for n in ast.walk(loop.target):
          if isinstance(n, (ast.Name, ast.Tuple, ast.List)):
            n.ctx = ast.Store()
        new = [ast.Assign(targets=[ast.Name(id=name, ctx=ast.Store())],
                          value=init, lineno=st.lineno), loop]
        if isinstance(st, ast.Return):
          new.append(ast.Return(value=ast.Name(id=name, ctx=ast.Load())))
          used.add(name)
        for k, x in enumerate(new):
          ast.copy_location(x, st)
          for sub in ast.walk(x):
            if not hasattr(sub, 'lineno') and isinstance(
                sub, (ast.expr, ast.stmt)):
              ast.copy_location(sub, st)
            if isinstance(sub, (ast.expr, ast.stmt)) and sub is not x:
              pass
          x.col_offset = getattr(st, 'col_offset', 0) + k
        block[i - 1:i] = new
        i += len(new) - 1
  ast.fix_missing_locations(fn)
  return fn


def comp_targets(fn):
  """[[iterable text, target text], ...] of the single-generator
  comprehensions of fn"""
  return [[ast.unparse(c.generators[0].iter),
           ast.unparse(c.generators[0].target)]
          for c in ast.walk(fn) if isinstance(c, (
              ast.ListComp, ast.SetComp, ast.DictComp, ast.GeneratorExp))
          and len(c.generators) == 1]


def restore_comp_targets(fn, ref_comps):
  """the variable of a comprehension is bound in the comprehension only: a
  comprehension over the same iterable as a reference comprehension gets the
  reference's variable names (when they are not otherwise read inside it)"""
  by_iter = {}
  for it, tg in ref_comps or []:
    by_iter.setdefault(it, set()).add(tg)
  for c in ast.walk(fn):
    if not (isinstance(c, (ast.ListComp, ast.SetComp, ast.DictComp,
                           ast.GeneratorExp)) and len(c.generators) == 1):
      continue
    g = c.generators[0]
    cands = by_iter.get(ast.unparse(g.iter))
    if not cands or len(cands) != 1:
      continue
    ref = next(iter(cands))
    if ref == ast.unparse(g.target):
      continue
    try:
      ref_t = ast.parse(ref, mode='eval').body
    except SyntaxError:
      continue
    pairs = []

    def match(a, b):
      if isinstance(a, ast.Name) and isinstance(b, ast.Name):
        pairs.append((a.id, b.id))
        return True
      if isinstance(a, ast.Tuple) and isinstance(b, ast.Tuple) and len(
          a.elts) == len(b.elts):
        return all(match(x, y) for x, y in zip(a.elts, b.elts))
      return False
    if not match(g.target, ref_t):
      continue
    ren = {a: b for a, b in pairs if a != b}
    inside = {n.id for n in ast.walk(c) if isinstance(n, ast.Name)}
    if not ren or any(b in inside for b in ren.values()):
      continue
    if any(isinstance(x, (ast.ListComp, ast.SetComp, ast.DictComp,
                          ast.GeneratorExp, ast.Lambda)) and x is not c
           for x in ast.walk(c)):
      continue
    for n in ast.walk(c):
      if isinstance(n, ast.Name) and n.id in ren:
        n.id = ren[n.id]
  return fn


def collapse_fill_loops(fn, known_locals, ref_defs=None):
  """x = [] ; for t in it: x.append(E)   ->   x = [E for t in it]
  x = {} ; for t in it: x[K] = V       ->   x = {K: V for t in it}
  (also with one `if c:` around the fill) for an unknown local x that is
  touched nowhere else before, and only read afterwards"""
  params = {a.arg for a in ast.walk(fn.args) if isinstance(a, ast.arg)}
  for owner in ast.walk(fn):
    for f in ('body', 'orelse', 'finalbody'):
      block = getattr(owner, f, None)
      if not (isinstance(block, list) and len(block) > 1 and isinstance(
          block[0], ast.stmt)):
        continue
      i = 0
      while i + 1 < len(block):
        st, loop = block[i], block[i + 1]
        i += 1
        if not (isinstance(st, ast.Assign) and len(st.targets) == 1 and
                isinstance(st.targets[0], ast.Name) and isinstance(
                    loop, ast.For) and not loop.orelse and len(
                        loop.body) == 1):
          continue
        x = st.targets[0].id
        # a reference local whose one reference definition is a comprehension
        # is filled by a comprehension in normal form, too
        sh = list((ref_defs or {}).get(x, ()))
        ref_comp = len(sh) == 1 and sh[0][:5] in ('_ = [', '_ = {') and \
            ' for ' in sh[0]
        if (x in known_locals and not ref_comp) or x in params:
          continue
        is_list = isinstance(st.value, ast.List) and not st.value.elts
        is_dict = isinstance(st.value, ast.Dict) and not st.value.keys
        if not (is_list or is_dict):
          continue
        inner = loop.body[0]
        ifs = []
        if isinstance(inner, ast.If) and not inner.orelse and len(
            inner.body) == 1:
          ifs = [inner.test]
          inner = inner.body[0]
        comp = None
        if is_list and isinstance(inner, ast.Expr) and isinstance(
            inner.value, ast.Call) and isinstance(
                inner.value.func, ast.Attribute) and \
            inner.value.func.attr == 'append' and isinstance(
                inner.value.func.value, ast.Name) and \
            inner.value.func.value.id == x and len(
                inner.value.args) == 1 and not inner.value.keywords:
          comp = ast.ListComp(elt=inner.value.args[0], generators=[
              ast.comprehension(target=loop.target, iter=loop.iter, ifs=ifs,
                                is_async=0)])
        if is_dict and isinstance(inner, ast.Assign) and len(
            inner.targets) == 1 and isinstance(
                inner.targets[0], ast.Subscript) and isinstance(
                    inner.targets[0].value, ast.Name) and \
            inner.targets[0].value.id == x:
          comp = ast.DictComp(key=inner.targets[0].slice, value=inner.value,
                              generators=[ast.comprehension(
                                  target=loop.target, iter=loop.iter, ifs=ifs,
                                  is_async=0)])
        if comp is None:
          continue
        # x is read in the fill only as the container; the loop variables
        # are not used after the loop; nothing else stores or mutates x
        reads_x = sum(1 for n in ast.walk(loop) if isinstance(n, ast.Name)
                      and n.id == x)
        if reads_x != 1:
          continue
        tvars = {n.id for n in ast.walk(loop.target) if isinstance(
            n, ast.Name)}
        outside = [n for n in ast.walk(fn) if isinstance(n, ast.Name) and
                   n.id in tvars and not any(n is m for m in ast.walk(loop))]
        if outside:
          continue
        other = 0
        for n in ast.walk(fn):
          if isinstance(n, ast.Name) and n.id == x and isinstance(
              n.ctx, (ast.Store, ast.Del)):
            other += 1
          if isinstance(n, ast.Subscript) and isinstance(
              n.ctx, (ast.Store, ast.Del)) and isinstance(
                  n.value, ast.Name) and n.value.id == x:
            other += 1
          if isinstance(n, ast.Call) and isinstance(
              n.func, ast.Attribute) and isinstance(
                  n.func.value, ast.Name) and n.func.value.id == x and \
              n.func.attr in ('append', 'extend', 'pop', 'insert', 'remove',
                              'clear', 'sort', 'reverse', 'update',
                              'setdefault'):
            other += 1
        if other != 2:      # the initialisation and the one fill
          continue
        for n in ast.walk(comp.generators[0].target):
          if hasattr(n, 'ctx'):
            n.ctx = ast.Store()
        st.value = ast.copy_location(comp, st.value)
        del block[i]
        ast.fix_missing_locations(fn)
  return fn


def index_loops(fn, ref_loops):
  """A loop that the reference writes with an index,
      for i in range(len(X)): ... X[i] ...
      for i in range(1, len(X)): ... X[i - 1] ... X[i] ...
  and the function writes with element variables,
      for i, v in enumerate(X):                          v     = X[i]
      for p, c in zip(X[:-1], X[1:]):                    p, c  = X[i-1], X[i]
      for i, (p, c) in enumerate(zip(X[:-1], X[1:]), start=1):
  gets the index form back (element variables replaced by the subscripts),
  when the body neither re-binds the element variables nor X.  `X or []`
  iterates X itself whenever the body runs."""
  import copy as _copy
  ref = {}
  for it, tg in ref_loops or []:
    ref.setdefault(it, set()).add(tg)
  have = {ast.unparse(n.iter) for n in ast.walk(fn) if isinstance(n, ast.For)}

  def base(x):
    # `A or []` -> A
    if isinstance(x, ast.BoolOp) and isinstance(x.op, ast.Or) and len(
        x.values) == 2 and isinstance(x.values[1], (ast.List, ast.Tuple)) \
        and not x.values[1].elts:
      return x.values[0]
    return x

  def pair_zip(call):
    """X for zip(X[:-1], X[1:])"""
    if not (isinstance(call, ast.Call) and isinstance(call.func, ast.Name)
            and call.func.id == 'zip' and len(call.args) == 2 and
            not call.keywords):
      return None
    a, b = call.args
    if not (isinstance(a, ast.Subscript) and isinstance(b, ast.Subscript) and
            isinstance(a.slice, ast.Slice) and isinstance(b.slice, ast.Slice)
            and ast.unparse(a.value) == ast.unparse(b.value)):
      return None
    if ast.unparse(a.slice) != ':-1' or ast.unparse(b.slice) != '1:':
      return None
    return a.value

  # for i, j in itertools.combinations(range(N), 2): B   is
  # for i in range(N - 1): for j in range(i + 1, N): B   (same pairs, same
  # order) when the reference writes the pair loops that way
  for owner in ast.walk(fn):
    for f_ in ('body', 'orelse', 'finalbody'):
      block = getattr(owner, f_, None)
      if not (isinstance(block, list) and block and isinstance(
          block[0], ast.stmt)):
        continue
      for bi, loop in enumerate(block):
        if not (isinstance(loop, ast.For) and not loop.orelse and isinstance(
            loop.iter, ast.Call) and ast.unparse(loop.iter.func) in (
                'itertools.combinations', 'combinations') and len(
                    loop.iter.args) == 2 and isinstance(
                        loop.iter.args[1], ast.Constant) and
                loop.iter.args[1].value == 2 and isinstance(
                    loop.target, ast.Tuple) and len(
                        loop.target.elts) == 2 and all(isinstance(
                            e, ast.Name) for e in loop.target.elts)):
          continue
        rng = loop.iter.args[0]
        if not (isinstance(rng, ast.Call) and isinstance(
            rng.func, ast.Name) and rng.func.id == 'range' and len(
                rng.args) == 1 and not rng.keywords):
          continue
        n_txt = ast.unparse(rng.args[0])
        outer = 'range(%s - 1)' % n_txt
        if outer not in ref or len(ref[outer]) != 1:
          continue
        ri = next(iter(ref[outer]))
        inner = 'range(%s + 1, %s)' % (ri, n_txt)
        if inner not in ref or len(ref[inner]) != 1 or not ri.isidentifier():
          continue
        rj = next(iter(ref[inner]))
        if not rj.isidentifier():
          continue
        vi, vj = [e.id for e in loop.target.elts]
        stored = {n.id for x in loop.body for n in ast.walk(x) if isinstance(
            n, ast.Name) and isinstance(n.ctx, (ast.Store, ast.Del))}
        if stored & {vi, vj, ri, rj}:
          continue
        ren = {vi: ri, vj: rj}
        for x in loop.body:
          for n in ast.walk(x):
            if isinstance(n, ast.Name) and n.id in ren:
              n.id = ren[n.id]
        inner_loop = ast.For(target=ast.Name(id=rj, ctx=ast.Store()),
                             iter=ast.parse(inner, mode='eval').body,
                             body=loop.body, orelse=[], lineno=loop.lineno)
        outer_loop = ast.For(target=ast.Name(id=ri, ctx=ast.Store()),
                             iter=ast.parse(outer, mode='eval').body,
                             body=[inner_loop], orelse=[], lineno=loop.lineno)
        ast.copy_location(inner_loop, loop)
        ast.copy_location(outer_loop, loop)
        block[bi] = outer_loop
        have.add(outer)
        have.add(inner)
        ast.fix_missing_locations(fn)
  for loop in [n for n in ast.walk(fn) if isinstance(n, ast.For)]:
    it = loop.iter
    subs = None        # {element variable: subscript text}
    idx_name = None
    seq = None
    start = None
    if isinstance(it, ast.Call) and isinstance(it.func, ast.Name) and \
        it.func.id == 'enumerate' and it.args and isinstance(
            loop.target, ast.Tuple) and len(loop.target.elts) == 2 and \
        isinstance(loop.target.elts[0], ast.Name):
      idx_name = loop.target.elts[0].id
      kw = {k.arg: k.value for k in it.keywords}
      st = kw.get('start', it.args[1] if len(it.args) > 1 else None)
      inner = it.args[0]
      pz = pair_zip(inner)
      if pz is not None and st is not None and isinstance(
          st, ast.Constant) and st.value == 1 and isinstance(
              loop.target.elts[1], ast.Tuple) and len(
                  loop.target.elts[1].elts) == 2 and all(isinstance(
                      e, ast.Name) for e in loop.target.elts[1].elts):
        seq, start = pz, 1
        p_, c_ = [e.id for e in loop.target.elts[1].elts]
        subs = {p_: '%s[{i} - 1]', c_: '%s[{i}]'}
      elif pz is None and st is None and isinstance(loop.target.elts[1],
                                                    ast.Name):
        seq, start = inner, 0
        subs = {loop.target.elts[1].id: '%s[{i}]'}
    else:
      pz = pair_zip(it)
      if pz is not None and isinstance(loop.target, ast.Tuple) and len(
          loop.target.elts) == 2 and all(isinstance(e, ast.Name)
                                         for e in loop.target.elts):
        seq, start = pz, 1
        p_, c_ = [e.id for e in loop.target.elts]
        subs = {p_: '%s[{i} - 1]', c_: '%s[{i}]'}
    if subs is None:
      continue
    seq_txt = ast.unparse(seq)
    want = 'range(len(%s))' % seq_txt if start == 0 else \
        'range(1, len(%s))' % seq_txt
    if want not in ref or want in have or len(ref[want]) != 1:
      continue
    ref_idx = next(iter(ref[want]))
    if not ref_idx.isidentifier():
      continue
    b = base(seq)
    if not isinstance(b, (ast.Name, ast.Attribute)):
      continue
    b_txt = ast.unparse(b)
    body_names = [n for x in loop.body for n in ast.walk(x)
                  if isinstance(n, ast.Name)]
    stored = {n.id for n in body_names if isinstance(n.ctx, (ast.Store,
                                                             ast.Del))}
    root = b_txt.split('.')[0]
    if stored & (set(subs) | {root, idx_name or ref_idx, ref_idx}):
      continue
    # the element variables are snapshots: if the body writes into the
    # sequence, `v` and `X[i]` are no longer the same thing
    if any(isinstance(n, ast.Subscript) and isinstance(
        n.ctx, (ast.Store, ast.Del)) and ast.unparse(n.value).split(
            '[')[0].split('.')[0] == root
           for x in loop.body for n in ast.walk(x)):
      continue
    if idx_name is None and any(n.id == ref_idx for n in body_names):
      continue
    after = [n for n in ast.walk(fn) if isinstance(n, ast.Name) and
             n.id in set(subs) | ({idx_name} if idx_name and
                                  idx_name != ref_idx else set()) and
             not any(n is m for m in ast.walk(loop))]
    if after:
      continue

    class S(ast.NodeTransformer):
      def visit_Name(self_, n):
        if isinstance(n.ctx, ast.Load) and n.id in subs:
          e = ast.parse((subs[n.id] % b_txt).format(i=ref_idx),
                        mode='eval').body
          return ast.copy_location(e, n)
        if idx_name and n.id == idx_name:
          return ast.copy_location(ast.Name(id=ref_idx, ctx=n.ctx), n)
        return n
    loop.body = [S().visit(x) for x in loop.body]
    loop.target = ast.copy_location(ast.Name(id=ref_idx, ctx=ast.Store()),
                                    loop.target)
    loop.iter = ast.copy_location(ast.parse(want, mode='eval').body,
                                  loop.iter)
    have.add(want)
    ast.fix_missing_locations(fn)
  return fn


class _ExpandLiteralComps(ast.NodeTransformer):
  """{k: f(k) for k in ('a', 'b')} -> {'a': f('a'), 'b': f('b')} ; the same
  for list comprehensions; getattr(x, 'a') -> x.a.  Only comprehensions over
  a display of constants that the reference function does not have."""

  MAX = 40

  def __init__(self, ref_iters):
    self.ref_iters = set(ref_iters)

  def _elements(self, comp):
    if len(comp.generators) != 1:
      return None
    g = comp.generators[0]
    if g.ifs or g.is_async or not isinstance(g.target, ast.Name):
      return None
    if not isinstance(g.iter, (ast.Tuple, ast.List)) or not (
        0 < len(g.iter.elts) <= self.MAX) or not all(
            isinstance(e, ast.Constant) for e in g.iter.elts):
      return None
    if ast.unparse(g.iter) in self.ref_iters:
      return None
    return g.target.id, g.iter.elts

  def _subst(self, node, name, const):
    class S(ast.NodeTransformer):
      def visit_Name(self_, n):
        if n.id == name and isinstance(n.ctx, ast.Load):
          return ast.copy_location(ast.Constant(value=const.value), n)
        return n
    return S().visit(copy.deepcopy(node))

  def visit_DictComp(self, c):
    self.generic_visit(c)
    el = self._elements(c)
    if el is None:
      return c
    name, elts = el
    return ast.copy_location(ast.Dict(
        keys=[self._getattr(self._subst(c.key, name, e)) for e in elts],
        values=[self._getattr(self._subst(c.value, name, e)) for e in elts]),
                             c)

  def visit_ListComp(self, c):
    self.generic_visit(c)
    el = self._elements(c)
    if el is None:
      return c
    name, elts = el
    return ast.copy_location(ast.List(
        elts=[self._getattr(self._subst(c.elt, name, e)) for e in elts],
        ctx=ast.Load()), c)

  def _getattr(self, node):
    class G(ast.NodeTransformer):
      def visit_Call(self_, n):
        self_.generic_visit(n)
        if isinstance(n.func, ast.Name) and n.func.id == 'getattr' and len(
            n.args) == 2 and not n.keywords and isinstance(
                n.args[1], ast.Constant) and isinstance(
                    n.args[1].value, str) and n.args[1].value.isidentifier():
          return ast.copy_location(ast.Attribute(
              value=n.args[0], attr=n.args[1].value, ctx=ast.Load()), n)
        return n
    return G().visit(node)


def flat_form(fn):
  """the statements of a function in normal form, one string per simple
  statement / compound header (docstrings dropped): the unit in which the
  distance of a function from its reference shape is measured"""
  out = []

  def walk(stmts, d):
    for s in stmts:
      if isinstance(s, (ast.If, ast.While)):
        out.append('%sif %s' % (' ' * d, ast.unparse(s.test)))
        walk(s.body, d + 1)
        if s.orelse:
          out.append('%selse' % (' ' * d))
          walk(s.orelse, d + 1)
      elif isinstance(s, ast.For):
        out.append('%sfor %s in %s' % (' ' * d, ast.unparse(s.target),
                                       ast.unparse(s.iter)))
        walk(s.body, d + 1)
      elif isinstance(s, (ast.With, ast.Try)):
        walk(getattr(s, 'body', []), d + 1)
        for h in getattr(s, 'handlers', []):
          walk(h.body, d + 1)
      elif isinstance(s, ast.FunctionDef):
        out.append('%sdef %s' % (' ' * d, s.name))
        walk(s.body, d + 1)
      elif isinstance(s, ast.Expr) and isinstance(s.value, ast.Constant):
        pass
      else:
        out.append(' ' * d + ast.unparse(s))
  walk(fn.body, 0)
  return out


def edit_size(modname, qualname, fn):
  """number of normal-form lines added or removed with respect to the
  reference shape of the function (None: not a reference function)"""
  import difflib
  ref = inventory().get(modname, {}).get(qualname, {}).get('flat')
  if ref is None:
    return None
  # indentation is not compared: `if` -> `elif`, or a guard instead of an
  # else, re-nests a whole block without changing a statement of it
  cur = [l.strip() for l in flat_form(fn)]
  ref = [l.strip() for l in ref]
  if cur == ref:
    return 0
  return sum(1 for l in difflib.ndiff(ref, cur) if l[:1] in '+-')


# ---------------------------------------------------------------------------
def normalise_module(modname, tree):
  inv = inventory().get(modname)
  if inv is None:
    return tree
  if '__constants__' in inv:
    tree = inline_new_constants(tree, set(inv['__constants__']))
  tree = _Inliner(tree, set(inv)).run()
  for q, (fn, owner, cls) in function_table(tree).items():
    if q in inv:
      known = set(inv[q]['locals'])
      # two copies of a block rolled into `for x in (a, b):` are unrolled
      # again (only loops the reference function does not have)
      if any(isinstance(x, ast.For) and isinstance(x.iter, (ast.Tuple,
                                                           ast.List))
             for x in ast.walk(fn)):
        from .model import _Unroll
        ref_iters = {it for it, _ in inv[q].get('loops') or []}
        ref_targets = {tg for it, tg in inv[q].get('loops') or []
                       if it[:1] in '[('}
        new_fn = _Unroll(ref_iters, ref_targets).visit(fn)
        ast.fix_missing_locations(fn)
      if inv[q].get('returns'):
        name_returns(fn, inv[q]['returns'])
      if any(isinstance(x, (ast.DictComp, ast.ListComp)) and isinstance(
          x.generators[0].iter, (ast.Tuple, ast.List)) for x in ast.walk(fn)):
        _ExpandLiteralComps({it for it, _ in inv[q].get('comps') or []}
                            ).visit(fn)
        ast.fix_missing_locations(fn)
      expand_fill_comprehensions(fn, inv[q].get('defs'))
      index_loops(fn, inv[q].get('loops'))
      before = local_names(fn)
      collapse_fill_loops(fn, known, inv[q].get('defs'))
      restore_comp_targets(fn, inv[q].get('comps'))
      if before - known:
        restore_loop_targets(fn, inv[q].get('loops'), known)
        restore_renamed_locals(fn, inv[q].get('defs'), known,
                               inv[q].get('flat'))
        restore_loop_targets(fn, inv[q].get('loops'), known)
        split_tuple_assignments(fn)
        expand_setattr_loops(fn, known)
        expand_kwargs_dicts(fn, known)
        coalesce_copies(fn, known)
        forward_attribute_copies(fn, known)
        sink_callee_choice(fn, known)
        split_versions(fn, known)
        substitute_aliases(fn, known)
        substitute_new_locals(fn, known)
        # a display that was bound to a local first is a display only now
        if any(isinstance(x, (ast.DictComp, ast.ListComp)) and isinstance(
            x.generators[0].iter, (ast.Tuple, ast.List))
               for x in ast.walk(fn)):
          _ExpandLiteralComps({it for it, _ in inv[q].get('comps') or []}
                              ).visit(fn)
          ast.fix_missing_locations(fn)
  ast.fix_missing_locations(tree)
  return tree
