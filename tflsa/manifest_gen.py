#!/venv/bin/python
"""Regenerates /verif/MANIFEST.json from the table below (development helper;
the committed MANIFEST.json is what the harness reads)."""
import importlib
import json
import os
import sys

HERE = os.path.dirname(os.path.abspath(__file__))
VERIF = os.path.dirname(HERE)
sys.path.insert(0, VERIF)

ALL = ['C%02d' % i for i in range(1, 21)]

NOT_APPLICABLE = {
}

ENGINE_NOT_BUILT = ('engine not built yet (DESIGN section 7); no weaker '
                    'technique is substituted under the same label')

TECHNIQUE = {
    'C11': 'ast-based relational lint: get_config/__init__/from_config parity, '
           'attribute provenance on the CFG, registry completeness',
}

BASELINE = ('cd /repo && /venv/bin/python -m pytest -ra -q -p no:cacheprovider '
            '--timeout=900 --continue-on-collection-errors')


def main():
  checks = []
  na = []
  for pid in ALL:
    if pid in NOT_APPLICABLE:
      na.append({'property_id': pid, 'reason': NOT_APPLICABLE[pid]})
      continue
    try:
      mod = importlib.import_module('tflsa.props.%s' % pid)
    except ImportError:
      na.append({'property_id': pid, 'reason': ENGINE_NOT_BUILT})
      continue
    cmd = '/venv/bin/python /verif/tflsa/check.py %s --tier %%s' % pid
    checks.append({
        'property_id': pid,
        'quick_cmd': cmd % 'quick',
        'thorough_cmd': cmd % 'thorough',
        'evidence_file': '/verif/evidence/%s.json' % pid,
        'replay_cmd_template':
            '/venv/bin/python /verif/tflsa/check.py --replay {path}',
        'engine': 'tflsa',
        'level_claimed': {
            'category': 'other',
            'text': mod.EXPLANATION,
            'design_ref': 'DESIGN.md section 4, %s' % pid,
        },
        'level_note': '; '.join(getattr(mod, 'ASSUMPTIONS', [])) or
                      'Python/TF/Keras semantics of the ops named by the rules',
        'technique': getattr(mod, 'TECHNIQUE', TECHNIQUE.get(pid, 'static analysis over the ast')),
    })
  man = {
      'version': 1,
      'setup_cmd': 'true',
      'hooks': {
          'guard': 'TENSORFLOW_LATTICE_VERIF',
          'enable': 'none needed: the checks parse /repo\'s working tree with '
                    'the stdlib ast module; no hook code exists in /repo',
          'baseline_off_cmd': BASELINE,
          'source_commits': [],
          'add_only': True,
      },
      'engines': [{
          'name': 'tflsa',
          'path': '/verif/tflsa',
          'serves_properties': [c['property_id'] for c in checks],
          'kind_free_text': 'repo-specific static analyser over the stdlib '
                            'ast: resolved program model, CFG, reaching '
                            'definitions, relational rules, affine-form '
                            'extraction, axis/taint analysis',
      }],
      'checks': checks,
      'notes': 'Static analysis only (DESIGN.md). Every claimed check decides '
               'named structural clauses that are necessary conditions of the '
               'property, never the numeric behaviour. exit 2 = '
               'ANALYSIS-ERROR (fail closed). Findings: known_findings.json.',
      'not_applicable': na,
  }
  with open(os.path.join(VERIF, 'MANIFEST.json'), 'w') as f:
    json.dump(man, f, indent=1)
  print('claimed: %s' % ' '.join(c['property_id'] for c in checks))
  print('not applicable: %s' % ' '.join(x['property_id'] for x in na))


if __name__ == '__main__':
  main()
