"""Obligation bookkeeping, evidence files, known findings, exit codes."""
import json
import os
import re
import time

from .model import AnalysisError

VERIF_DIR = os.path.dirname(os.path.dirname(os.path.abspath(__file__)))
EVIDENCE_DIR = os.path.join(VERIF_DIR, 'evidence')
REPLAY_DIR = os.path.join(EVIDENCE_DIR, 'replay')
KNOWN_FINDINGS = os.path.join(VERIF_DIR, 'known_findings.json')


def _slug(s):
  return re.sub(r'[^A-Za-z0-9_.-]+', '_', s)[:120]


class Obligation(object):
  __slots__ = ('rule', 'key', 'loc', 'status', 'detail')

  def __init__(self, rule, key, loc, status, detail):
    self.rule = rule
    self.key = key
    self.loc = loc
    self.status = status    # ok | violation
    self.detail = detail

  def as_dict(self):
    return {'rule': self.rule, 'key': self.key, 'loc': self.loc,
            'status': self.status, 'detail': self.detail}


class Result(object):
  """Collects the obligations of one property run."""

  def __init__(self, pid, tier, repo_root):
    self.pid = pid
    self.tier = tier
    self.repo_root = repo_root
    self.obligations = []
    self.floors = {}
    self.errors = []      # rule groups that could not be decided
    self.functions = set()
    self.notes = []
    self.assumptions = []
    self.explanation = ''
    self.extra = {}
    self.exhaustive = None
    self.t0 = time.time()
    self._keys = set()

  # -- recording ---------------------------------------------------------
  def analysed(self, *fns):
    for f in fns:
      self.functions.add(f if isinstance(f, str) else f.qualname)

  def _add(self, rule, key, loc, status, detail):
    full = '%s|%s' % (rule, key)
    if full in self._keys:
      # keep keys unique but never drop an obligation
      i = 2
      while '%s#%d' % (full, i) in self._keys:
        i += 1
      full = '%s#%d' % (full, i)
    self._keys.add(full)
    self.obligations.append(Obligation(rule, full, loc, status, detail))

  def ok(self, rule, key, loc, detail=''):
    self._add(rule, key, loc, 'ok', detail)

  def violation(self, rule, key, loc, detail=''):
    self._add(rule, key, loc, 'violation', detail)

  def check(self, cond, rule, key, loc, ok_detail='', bad_detail=''):
    if cond:
      self.ok(rule, key, loc, ok_detail)
    else:
      self.violation(rule, key, loc, bad_detail or ok_detail)
    return cond

  def floor(self, rule, n):
    """Vacuity guard: the rule must see (nearly) as many instances as were
    confirmed by hand on the reference tree.  n is the confirmed count; a
    quarter of it may disappear (two sites merged into a helper, a loop
    replacing two copies) before the rule is called vacuous - a rule that
    lost more than that no longer looks at the code it was written for."""
    import math
    eff = n if n < 4 else int(math.ceil(0.75 * n))
    self.floors[rule] = max(eff, self.floors.get(rule, 0))

  def note(self, text):
    self.notes.append(text)

  def count(self, rule):
    return sum(1 for o in self.obligations if o.rule == rule)

  # -- finishing ---------------------------------------------------------
  def rule_table(self):
    tab = {}
    for o in self.obligations:
      t = tab.setdefault(o.rule, {'instances': 0, 'violations': 0,
                                  'floor': self.floors.get(o.rule, 0)})
      t['instances'] += 1
      if o.status == 'violation':
        t['violations'] += 1
    for r, f in self.floors.items():
      tab.setdefault(r, {'instances': 0, 'violations': 0, 'floor': f})
    return tab

  def finish(self, replay_key=None, write_evidence=True, quiet=False):
    """Prints the report, writes evidence, returns the exit code."""
    tab = self.rule_table()
    for r, t in sorted(tab.items()):
      # a rule that already reports a violation is not vacuous; merged or
      # aggregated violations may legitimately lower its instance count
      if t['instances'] < t['floor'] and not t['violations']:
        msg = ('rule %s matched %d instances, fewer than the hand-confirmed '
               'floor %d (vacuity guard)' % (r, t['instances'], t['floor']))
        if self.errors:
          # the group that feeds this rule did not finish: already reported
          continue
        self.errors.append(msg)
    known = load_known()
    viols = [o for o in self.obligations if o.status == 'violation']
    unlisted = []
    n_known = 0
    for o in viols:
      k = known.get((self.pid, o.key))
      if k is not None and k.get('status') == 'known':
        n_known += 1
        print('KNOWN-FINDING: property=%s %s %s -- %s' % (
            self.pid, o.key, o.loc, k.get('what', o.detail)))
      else:
        unlisted.append(o)
    if not quiet:
      print('%s tier=%s repo=%s' % (self.pid, self.tier, self.repo_root))
      print('  functions analysed: %d   obligations: %d   discharged: %d' % (
          len(self.functions), len(self.obligations),
          len(self.obligations) - len(viols)))
      for r, t in sorted(tab.items()):
        print('  rule %-4s instances=%-4d floor=%-4d violations=%d' % (
            r, t['instances'], t['floor'], t['violations']))
      for n in self.notes:
        print('  note: %s' % n)
    if replay_key is not None:
      hits = [o for o in self.obligations
              if o.key == replay_key or o.key.startswith(replay_key)]
      for o in hits:
        print('REPLAY %s %s %s: %s' % (o.status.upper(), o.key, o.loc,
                                       o.detail))
      if not hits:
        print('REPLAY: instance %s no longer exists on this tree' % replay_key)
        return 0
      return 1 if any(o.status == 'violation' for o in hits) else 0
    os.makedirs(REPLAY_DIR, exist_ok=True)
    for o in unlisted:
      path = os.path.join(REPLAY_DIR, '%s-%s.json' % (self.pid, _slug(o.key)))
      with open(path, 'w') as f:
        json.dump({'property': self.pid, 'key': o.key, 'loc': o.loc,
                   'rule': o.rule, 'detail': o.detail,
                   'repo': self.repo_root}, f, indent=1)
      print('%s  rule=%s  instance=%s  %s' % (o.loc, o.rule, o.key, o.detail))
      print('VIOLATION property=%s replay=%s' % (self.pid, path))
    for e in self.errors:
      print('ANALYSIS-ERROR %s' % e)
    if self.errors and not unlisted:
      return 2
    if write_evidence and not self.errors:
      self.write_evidence(tab, viols, n_known, unlisted)
    return 1 if unlisted else 0

  def write_evidence(self, tab, viols, n_known, unlisted):
    os.makedirs(EVIDENCE_DIR, exist_ok=True)
    oks = [o for o in self.obligations if o.status == 'ok']
    samples = []
    seen_rules = {}
    for o in self.obligations:
      c = seen_rules.get(o.rule, 0)
      if c < 3 or o.status == 'violation':
        samples.append(o.as_dict())
        seen_rules[o.rule] = c + 1
    cov = {
        'explanation': self.explanation,
        'obligations': len(self.obligations),
        'discharged': len(oks),
        'rule': ('obligations are enumerated from the current source by the '
                 'rules listed under "rules"; each instance is one construct '
                 '(call site, parameter, assert, projection group, ...) whose '
                 'two sides are compared'),
        'rules': tab,
        'functions_analysed': sorted(self.functions),
        'samples': samples,
        'known_findings_reproduced': n_known,
        'unlisted_violations': [o.as_dict() for o in unlisted],
        'notes': self.notes,
    }
    if self.exhaustive is not None:
      cov['exhaustive'] = self.exhaustive
    cov.update(self.extra)
    ev = {
        'property_id': self.pid,
        'tier': self.tier,
        'seed': int(os.environ.get('VERIF_SEED', '0') or 0),
        'level': 'other',
        'coverage': cov,
        'assumptions': self.assumptions,
        'wall_s': round(time.time() - self.t0, 3),
        'violations': len(viols),
    }
    path = os.path.join(EVIDENCE_DIR, '%s.json' % self.pid)
    tmp = path + '.tmp'
    with open(tmp, 'w') as f:
      json.dump(ev, f, indent=1, sort_keys=True)
    os.replace(tmp, path)


def load_known():
  out = {}
  if not os.path.exists(KNOWN_FINDINGS):
    return out
  with open(KNOWN_FINDINGS) as f:
    data = json.load(f)
  for e in data.get('findings', []):
    out[(e.get('property'), e.get('key'))] = e
  return out
