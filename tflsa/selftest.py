"""Sensitivity audit (thorough tier, informational) and development self-test.

For every entry of the mutant table a scratch copy of the non-test sources is
made under $TMPDIR (outside /repo and /verif, removed immediately), one
textual edit is applied, and the property's check is run on the copy: the
expected rule must report a violation.  Neutral variants (behaviour
preserving rewrites) must stay silent.  An audit miss is printed as
AUDIT-MISS and never changes the verdict of the property check."""
import os
import shutil
import subprocess
import sys
import tempfile

from .model import AnalysisError, PKG_DIR

HERE = os.path.dirname(os.path.abspath(__file__))
PY = sys.executable

# (property, file, old, new, expected rule or None for neutral, label)
MUTANTS = [
    # ---- C01
    ('C01', 'lattice_layer.py', '        trapezoid_trusts=self.trapezoid_trusts,\n        monotonic_dominances=self.monotonic_dominances,\n        range_dominances=self.range_dominances,\n        joint_monotonicities=self.joint_monotonicities,\n        joint_unimodalities=self.joint_unimodalities,\n        output_min=self.output_min,\n        output_max=self.output_max,\n        num_projection_iterations=self.num_projection_iterations,',
     '        monotonic_dominances=self.monotonic_dominances,\n        range_dominances=self.range_dominances,\n        joint_monotonicities=self.joint_monotonicities,\n        joint_unimodalities=self.joint_unimodalities,\n        output_min=self.output_min,\n        output_max=self.output_max,\n        num_projection_iterations=self.num_projection_iterations,',
     'W1', 'drop trapezoid_trusts from the training LatticeConstraints'),
    ('C01', 'lattice_layer.py', '        num_projection_iterations=20,\n        enforce_strict_monotonicity=True)',
     '        num_projection_iterations=20,\n        enforce_strict_monotonicity=self.monotonic_at_every_step)',
     'W1', 'strict copy not strict'),
    ('C01', 'lattice_lib.py', '          layers[i + 1][j + 1] += max_violation',
     '          layers[i + 1][j] += max_violation', 'L8',
     'edgeworth repair moves the wrong cell'),
    ('C01', 'lattice_lib.py', '  half_projection = (weights + max_projection) / 2.0',
     '  half_projection = (weights + max_projection) / 3.0', 'L5',
     'half step not convex'),
    ('C01', 'lattice_lib.py', '      w = tf.minimum(w, self.output_max)', None, None, None),
    ('C01', 'lattice_lib.py', '    offset = output_min - (output_min - min_violation) * scale',
     '    offset = output_min + (output_min - min_violation) * scale', 'L7',
     'two-sided rescale wrong offset'),
    ('C01', 'lattice_layer.py', '            output_min=self.output_min,\n            output_max=self.output_max)\n    # TODO',
     '            output_min=self.output_max,\n            output_max=self.output_min)\n    # TODO',
     'P1', 'bounds swapped in finalize call'),
    # ---- C02
    ('C02', 'lattice_lib.py', '  sorted_indices = tf.argsort(inputs, direction="DESCENDING")',
     '  sorted_indices = tf.argsort(inputs, direction="ASCENDING")', 'H4', 'argsort / sort direction mismatch'),
    ('C02', 'lattice_lib.py', '                                          np.array(lattice_sizes) - 2)',
     '                                          np.array(lattice_sizes) - 1)', 'H4', 'lower corner may be the last vertex'),
    ('C02', 'lattice_lib.py', '      np.cumprod([1] + list(lattice_sizes)[::-1][:-1])[::-1], tf.int32)',
     '      np.cumprod([1] + list(lattice_sizes)[:-1])[::-1], tf.int32)', 'H4', 'strides from un-reversed sizes'),
    ('C02', 'lattice_lib.py', '    upper_bounds = [dim_size - 1.0 for dim_size in lattice_sizes]',
     '    upper_bounds = [dim_size - 2.0 for dim_size in lattice_sizes]', 'H1', 'clip range one cell short'),
    ('C02', 'lattice_lib.py', '    w = tf.stack([(1.0 - inputs), inputs], axis=-1)', '    w = tf.stack([inputs, (1.0 - inputs)], axis=-1)', 'H2',
     'all-2 vertex order swapped'),
    ('C02', 'lattice_lib.py', '    result = op(result, tf.expand_dims(tensor, axis=-2))', '    result = op(tf.expand_dims(tensor, axis=-2), result)',
     'H3', 'outer product operands swapped'),
    ('C02', 'lattice_lib.py', '    weights = 1.0 - tf.minimum(distance, 1.0)', '    weights = 1 - tf.minimum(distance, 1)', None,
     'N: integer literals in the hat function'),
    # ---- C05
    ('C05', 'pwl_calibration_lib.py', '  weights = tf.minimum(weights, 1.0)', '  weights = tf.minimum(weights, 2.0)', 'E1',
     'weights clipped at 2'),
    ('C05', 'pwl_calibration_layer.py', '          [self.kernel, -tf.reduce_sum(self.kernel[1:], axis=0, keepdims=True)],',
     '          [self.kernel, tf.reduce_sum(self.kernel[1:], axis=0, keepdims=True)],', 'E3', 'closing height sign'),
    ('C05', 'categorical_calibration_layer.py', '      replacement = tf.zeros_like(inputs) + (self.num_buckets - 1)',
     '      replacement = tf.zeros_like(inputs) + (self.num_buckets - 2)', 'E6', 'default mapped to the wrong bucket'),
    ('C05', 'pwl_calibration_layer.py', '    kp_outputs = tf.cumsum(self.kernel)', '    kp_outputs = tf.cumsum(self.kernel, axis=1)', 'E3',
     'keypoint outputs accumulated across units'),
    ('C05', 'pwl_calibration_layer.py', '      result = is_missing * self.missing_output + (1.0 - is_missing) * result',
     '      result = (1.0 - is_missing) * result + is_missing * self.missing_output', None, 'N: commuted imputation sum'),
    # ---- C03
    ('C03', 'pwl_calibration_layer.py', '        constraint=constraints,\n        dtype=self.dtype)\n\n    if self.kernel_regularizer and not tf.executing_eagerly():',
     '        constraint=None,\n        dtype=self.dtype)\n\n    if self.kernel_regularizer and not tf.executing_eagerly():',
     'W2', 'PWL kernel created without constraint'),
    ('C03', 'premade.py', '        layer_output_range=premade_lib.LayerOutputRange.INPUT_TO_LATTICE,\n        submodels=[[\n            feature_config.name\n            for feature_config in model_config.feature_configs\n        ]],\n        separate_calibrators=False,\n        dtype=dtype)\n\n    lattice_layer_output_range',
     '        layer_output_range=premade_lib.LayerOutputRange.MODEL_OUTPUT,\n        submodels=[[\n            feature_config.name\n            for feature_config in model_config.feature_configs\n        ]],\n        separate_calibrators=False,\n        dtype=dtype)\n\n    lattice_layer_output_range',
     'W5', 'calibrators feeding a lattice built for MODEL_OUTPUT'),
    ('C03', 'premade_lib.py', '              convexity=feature_config.pwl_calibration_convexity,',
     '              convexity=feature_config.pwl_calibration_clamp_min,',
     'W1', 'cross-wired calibrator argument'),
    # ---- C04
    ('C04', 'pwl_calibration_lib.py', '  elif monotonicity == 1:\n    return tf.maximum(heights, 0.0)',
     '  elif monotonicity == 1:\n    return tf.minimum(heights, 0.0)', 'P3',
     'increasing heights clipped from the wrong side'),
    ('C04', 'pwl_calibration_lib.py', '      last_heights_change["CONVEXITY_1"] = heights - rolled_back_heights',
     '      last_heights_change["CONVEXITY_0"] = heights - rolled_back_heights',
     'L4', 'bookkeeping key mismatch'),
    ('C04', 'pwl_calibration_lib.py', '      bias = tf.constant(output_min, shape=bias.shape, dtype=bias.dtype)\n      heights_delta = (output_max - (bias + sum_heights)) / num_heights',
     '      bias = tf.constant(output_min, shape=bias.shape, dtype=bias.dtype)\n      heights_delta = (output_max - (bias + sum_heights)) / (num_heights + 1)',
     'L2', 'clamped-min shares the residual over n+1 instead of n'),
    ('C08', 'pwl_calibration_lib.py', '      heights_delta = bias_delta\n', '      heights_delta = bias_delta / 2\n', 'L2',
     'unbounded-min: heights move by half the bias step (not the equal-share projection)'),
    # ---- C06
    ('C06', 'linear_lib.py', '    monotonic_dominances = [(j, i) for i, j in monotonic_dominances]',
     '    monotonic_dominances = [(i, j) for i, j in monotonic_dominances]',
     'A4', 'dominance pairs not re-oriented'),
    ('C06', 'linear_lib.py', '    weights /= scalings\n', '', 'P4',
     'unscale dropped'),
    ('C06', 'internal_utils.py', '  for i in sorted_indices[::-1]:', '  for i in sorted_indices:',
     'O2', 'min projection in forward order'),
    # ---- C07
    ('C07', 'kronecker_factored_lattice_lib.py', '    scale = tf.maximum(scale, 0)\n  elif output_max is not None:',
     '    scale = tf.minimum(scale, 0)\n  elif output_max is not None:', 'P3',
     'min-only scale clipped from the wrong side'),
    ('C07', 'kronecker_factored_lattice_layer.py', '        trainable=(self.output_min is None and self.output_max is None),',
     '        trainable=True,', 'W2', 'bias always trainable'),
    # ---- C08
    ('C08', 'lattice_lib.py', '      correction = tf.maximum(difference_in_slopes / 4, 0)',
     '      correction = tf.maximum(difference_in_slopes / 2, 0)', 'L1',
     'edgeworth step twice too large'),
    ('C08', 'lattice_lib.py', '        last_change[("EDGEWORTH", constraint,\n                     constraint_group)] = weights - rolled_back_weights',
     '        last_change[("EDGEWORTH", constraint)] = weights - rolled_back_weights',
     'L4', 'edgeworth key without group'),
    ('C08', 'lattice_lib.py', '      for constraint_group in [(0, 0), (0, 1), (1, 0), (1, 1)]:',
     '      for constraint_group in [(0, 0), (0, 1), (1, 0)]:', 'L3',
     'a parity class is never projected'),
    ('C08', 'lattice_lib.py', '        correction = tf.minimum(difference / 3, 0)\n        layers[i][j + 1] += 2 * correction',
     '        correction = tf.maximum(difference / 3, 0)\n        layers[i][j + 1] += 2 * correction',
     'L1', 'dominance gating sign'),
    # ---- C09
    ('C09', 'lattice_lib.py', '              tf.reduce_max(difference_in_slopes, axis=axis), 0)\n          layers[i + 1][j + 1] += max_violation',
     '              tf.reduce_max(difference_in_slopes), 0)\n          layers[i + 1][j + 1] += max_violation',
     'X1', 'edgeworth max over all units'),
    ('C09', 'cdf_layer.py', '      result = tf.reduce_mean(result, axis=1)',
     '      result = tf.reduce_mean(result, axis=0)', 'X2',
     'CDF mean over the batch'),
    ('C09', 'pwl_calibration_lib.py', '    sum_heights = tf.reduce_sum(heights, axis=0)',
     '    sum_heights = tf.reduce_sum(heights)', 'X1',
     'PWL sum over all units'),
    # ---- C11
    ('C11', 'lattice_layer.py', '        "units": self.units,\n        "monotonicities": self.monotonicities,\n        "unimodalities": self.unimodalities,\n        "edgeworth_trusts": self.edgeworth_trusts,',
     '        "monotonicities": self.monotonicities,\n        "unimodalities": self.unimodalities,\n        "edgeworth_trusts": self.edgeworth_trusts,',
     'S2', 'units not serialised'),
    ('C11', 'linear_layer.py', '        "input_min": self.input_min,\n        "input_max": self.input_max,\n        "kernel_initializer":',
     '        "input_min": self.input_max,\n        "input_max": self.input_max,\n        "kernel_initializer":',
     'S3', 'value under input_min reads another attribute'),
    ('C11', 'premade.py', "      'RTL':\n          rtl_layer.RTL,\n", '', 'S6',
     'RTL removed from the registry'),
    ('C11', 'rtl_layer.py', '    rs = np.random.RandomState(self.random_seed)',
     '    rs = np.random.RandomState()', 'S8', 'unseeded structure'),
    # ---- C12
    ('C12', 'lattice_lib.py', '    min_weight = tf.reduce_min(weights)\n    asserts.append(\n        tf.Assert(\n            min_weight >= output_min - eps,',
     '    min_weight = tf.reduce_max(weights)\n    asserts.append(\n        tf.Assert(\n            min_weight >= output_min - eps,',
     'A2', 'lower bound asserted on the maximum'),
    ('C12', 'lattice_layer.py', '        edgeworth_trusts=utils.canonicalize_trust(self.edgeworth_trusts),\n        trapezoid_trusts=utils.canonicalize_trust(self.trapezoid_trusts),\n        monotonic_dominances=self.monotonic_dominances,\n        range_dominances=self.range_dominances,\n        joint_monotonicities=self.joint_monotonicities,\n        joint_unimodalities=self.joint_unimodalities,\n        output_min=self.output_min,\n        output_max=self.output_max,\n        eps=eps)',
     '        edgeworth_trusts=None,\n        trapezoid_trusts=utils.canonicalize_trust(self.trapezoid_trusts),\n        monotonic_dominances=self.monotonic_dominances,\n        range_dominances=self.range_dominances,\n        joint_monotonicities=self.joint_monotonicities,\n        joint_unimodalities=self.joint_unimodalities,\n        output_min=self.output_min,\n        output_max=self.output_max,\n        eps=eps)',
     'W1', 'edgeworth trusts not asserted'),
    # ---- C13
    ('C13', 'lattice_lib.py', '    diff = slices[1:] - slices[0:-1]', '    diff = slices[2:] - slices[0:-2]',
     'L6', 'laplacian over second neighbours'),
    ('C13', 'lattice_lib.py', '      torsion = a00 + a11 - a01 - a10', '      torsion = a00 + a11 + a01 - a10',
     'L6', 'torsion sign'),
    ('C13', 'lattice_lib.py', '    l1 = [math.sqrt(l1)] * rank', '    l1 = [l1] * rank', 'L6',
     'scalar torsion amount squared'),
    ('C13', 'pwl_calibration_layer.py', '              -tf.reduce_sum(heights, axis=0, keepdims=True),\n              heights[0:1],\n          ],\n          axis=0,\n      )\n      nonlinearity = heights[1:] - heights[:-1]\n    else:\n      nonlinearity = x[2:] - x[1:-1]\n\n    losses',
     '              -tf.reduce_sum(heights, axis=0, keepdims=True),\n          ],\n          axis=0,\n      )\n      nonlinearity = heights[1:] - heights[:-1]\n    else:\n      nonlinearity = x[2:] - x[1:-1]\n\n    losses',
     'L6', 'cyclic hessian without the wrap row'),
    # ---- C15
    ('C15', 'cdf_layer.py', '(x - self.kernel)), axis=2) / 6', '(x - self.kernel)), axis=2) / 5', 'I1', 'relu6 / 5'),
    ('C15', 'conditional_pwl_calibration.py', '  weights = tf.clip_by_value(weights, 0.0, 1.0)\n', '', 'I2',
     'interpolation weights not clipped'),
    ('C15', 'conditional_pwl_calibration.py', '      else 2\n', '      else 0\n', 'V4', 'revert of fix F7'),
    # ---- C16
    ('C16', 'lattice_layer.py', '      raise ValueError("Unknown type of interpolation: %s" % self.interpolation)\n', None, None, None),
    ('C16', 'premade_lib.py', "    sorted_values, idx, counts = np.unique(\n        values, return_index=True, return_counts=True)",
     "    sorted_values, idx, counts = np.unique(\n        values, return_index=True, counts=True)", 'V5', 'bad numpy keyword'),
    ('C16', 'linear_layer.py', '                                      input_min=input_min,\n', '',
     'V1', 'input_min never validated'),
    # ---- C17
    ('C17', 'rtl_layer.py', '    for input_key in sorted(x.keys()):', '    for input_key in x.keys():', 'W7',
     'call flattens unsorted'),
    ('C17', 'premade_lib.py', 'size=remaining_size, replace=False))', 'size=remaining_size, replace=True))', 'W7', 'sampling with replacement'),
    # ---- C18
    ('C18', 'premade_lib.py', "sorted_values, quantiles, method='nearest')", "sorted_values, quantiles, interpolation='nearest')",
     'V5', 'revert of fix F6'),
    # ---- C19
    ('C19', 'kronecker_factored_lattice_lib.py', '      grad1 = tf.cast(tf.equal(num_zeros, 1), prod.dtype) * prod',
     '      grad1 = tf.cast(tf.equal(num_zeros, 2), prod.dtype) * prod', 'G3', 'single-zero branch tests the wrong count'),
    ('C19', 'kronecker_factored_lattice_lib.py', '      return tf.expand_dims(dy, axis=axis) * (grad0 + grad1)',
     '      return tf.expand_dims(dy, axis=-1) * (grad0 + grad1)', 'G1', 'upstream gradient expanded on another axis'),
    ('C19', 'kronecker_factored_lattice_lib.py', '      grad0 = tf.math.divide_no_nan(tf.expand_dims(fwd, axis=axis), t)',
     '      grad0 = tf.math.divide_no_nan(tf.expand_dims(fwd, axis=axis), t + is_zero)', None, 'N: dividing by t + is_zero gives the same gradient in all six zero patterns'),
    ('C19', 'lattice_lib.py', '    return tf.matmul(interpolation_weights, kernel)',
     '    return tf.matmul(interpolation_weights, tf.tanh(kernel))', 'G2', 'kernel squashed before the contraction'),
    # ---- C20
    ('C20', 'linear_layer.py', '      lower_bounds = [val if val is not None else -np.inf', '      lower_bounds = [val if val is not None else np.inf',
     'P2', 'missing lower bounds filled with +inf'),
    ('C20', 'linear_layer.py', '      result = tf.reduce_sum(inputs * tf.transpose(self.kernel), axis=-1)',
     '      result = tf.reduce_sum(inputs * tf.transpose(self.kernel), axis=0)', 'X2',
     'multi-unit contraction over the batch'),
    ('C20', 'linear_layer.py', '    if ((input_min and input_min.count(None) < len(input_min)) or',
     '    if ((input_min and input_min.count(None) < len(input_min)) and', 'W4',
     'clip constants only stored when BOTH sides have a bound'),
    ('C20', 'linear_layer.py', '        (input_max and input_max.count(None) < len(input_max))):',
     '        (input_max and input_max.count(None) <= len(input_max))):', 'W4',
     'clip constants stored for an all-None upper bound list'),
    ('C16', 'lattice_lib.py', '    main_dims.add(main_dim)\n    cond_dims.add(cond_dim)',
     '    main_dims = set()\n    main_dims.add(main_dim)\n    cond_dims.add(cond_dim)', 'S14',
     'accumulator of the main dimensions re-created in every iteration'),
    ('C16', 'premade_lib.py', '  for feature_config in model_config.feature_configs:\n    for regularizer_config in feature_config.regularizer_configs or []:\n      if not regularizer_config.name.startswith(\n          _INPUT_CALIB_REGULARIZER_PREFIX):\n        raise ValueError(\n            \'KroneckerFactoredLattice',
     '  for feature_config in model_config.feature_configs:\n    for regularizer_config in model_config.regularizer_configs or []:\n      if not regularizer_config.name.startswith(\n          _INPUT_CALIB_REGULARIZER_PREFIX):\n        raise ValueError(\n            \'KroneckerFactoredLattice', 'X9',
     'per-feature regularizer check reads the model-level list'),
    ('C04', 'pwl_calibration_lib.py', '  bias = tf.minimum(bias, output_max)\n\n  # Shrink heights only',
     '  delta0 = output_max - bias\n  bias = tf.minimum(bias, output_max)\n  heights = heights + 0.0 * delta0\n\n  # Shrink heights only', 'X5',
     'head-room computed from the unclipped bias'),
    ('C05', 'pwl_calibration_layer.py', '      tiled_logits = np.tile(initial_logits, self.units)',
     '      tiled_logits = np.repeat(initial_logits, self.units)', 'E7',
     'per-unit rows of the initial logits scrambled'),
    ('C18', 'premade_lib.py', '  for i in range(len(quantiles_idx)):\n    if i not in first_use:',
     '  for i in range(1, len(quantiles_idx) - 1):\n    if i not in first_use:', 'K2',
     'the last quantile position is never repaired'),
    ('C18', 'premade_lib.py', '  for i in range(len(quantiles_idx)):\n    if i not in first_use:',
     '  for i in range(1, len(quantiles_idx)):\n    if quantiles_idx[i] == quantiles_idx[i - 1]:', 'K2',
     'repeat test reads an entry the loop rewrites'),
    ('C14', 'cdf_layer.py', '      result = tf.reduce_mean(result, axis=1)',
     '      result = tf.reduce_mean(cdfs, axis=1)', 'Y1',
     'mean reduction applied to the tensor before the sparsity reshape'),
    ('C11', 'rtl_layer.py', '    self.kernel_regularizer = kernel_regularizer\n',
     '    self.kernel_regularizer = kernel_regularizer or []\n', 'S15',
     'None regularizer stored (and serialised) as an empty list'),
    ('C16', 'premade_lib.py', '  if ((isinstance(model_config, configs.CalibratedLatticeEnsembleConfig) or\n       isinstance(model_config, configs.CalibratedLatticeConfig)) and\n      model_config.parameterization',
     '  if ((isinstance(model_config, configs.CalibratedLatticeConfig)) and\n      model_config.parameterization', 'V12',
     'Kronecker-factored ensembles no longer reach their validator'),
    ('C01', 'lattice_lib.py', '    layers = _unstack_nd(trust_projection, [main_dim, cond_dim])',
     '    layers = _unstack_nd(weights, [main_dim, cond_dim])', 'X11',
     'every Edgeworth trust projected from the un-projected weights'),
    ('C07', 'kronecker_factored_lattice_layer.py', '      constraints = KroneckerFactoredLatticeConstraints(\n          units=self.units,\n          scale=self.scale,',
     '      constraints = KroneckerFactoredLatticeConstraints(\n          units=self.units,\n          scale=self.scale.read_value(),', 'W2',
     'training-time kernel constraint sees a build-time snapshot of scale'),
    # ---- neutral variants (must stay silent)
    ('C08', 'lattice_lib.py', '    average = (layers[i] + layers[i + 1]) / 2.0', '    average = 0.5 * (layers[i] + layers[i + 1])',
     None, 'N: average written as 0.5 * sum'),
    ('C11', 'linear_layer.py', '        "num_input_dims": self.num_input_dims,\n        "units": self.units,',
     '        "units": self.units,\n        "num_input_dims": self.num_input_dims,', None, 'N: reordered keys'),
    ('C12', 'pwl_calibration_lib.py', '    min_output = tf.reduce_min(outputs, axis=0)', '    min_output = tf.math.reduce_min(outputs, axis=0)',
     None, 'N: tf.math alias'),
    ('C04', 'pwl_calibration_lib.py', '  bct = BoundConstraintsType\n  if output_max_constraints != bct.NONE:\n    num_heights',
     '  bct = BoundConstraintsType\n  if output_max_constraints != BoundConstraintsType.NONE:\n    num_heights', None,
     'N: alias removed'),
    ('C09', 'cdf_layer.py', '      result = tf.reduce_mean(result, axis=1)', '      result = tf.reduce_mean(result, axis=-2)', None,
     'N: axis=1 written as -2 on a rank-3 tensor'),
    ('C04', 'pwl_calibration_lib.py', '  if output_min_constraints != BoundConstraintsType.NONE:\n    bias = tf.maximum(bias, output_min)\n  if output_max_constraints == BoundConstraintsType.NONE:\n    return bias, heights\n  bias = tf.minimum(bias, output_max)',
     '  if output_max_constraints == BoundConstraintsType.NONE:\n    return bias, heights\n  bias = tf.minimum(bias, output_max)', 'K4',
     'squeeze-by-scaling ignores the lower bound of an increasing calibrator'),
    ('C04', 'pwl_calibration_lib.py', '      if heights.shape[0] >= 3:', '      if heights.shape[0] >= 4:', 'T2', 'convexity group 1 skipped for 3 heights'),
    ('C04', 'pwl_calibration_lib.py', '      if heights.shape[0] >= 2:', '      if heights.shape[0] > 1:', None, 'N: equivalent size guard'),
    ('C04', 'pwl_calibration_layer.py', '    if self.upper_bound is not None:\n      w = tf.minimum(w, self.upper_bound)',
     '    if self.upper_bound is not None and self.lower_bound is not None:\n      w = tf.minimum(w, self.upper_bound)', 'K3', 'upper bound only clipped when a lower bound exists'),
    ('C06', 'categorical_calibration_lib.py', '  if output_max is not None:\n    projected_weights = tf.minimum(projected_weights, output_max)',
     '  if output_max is not None and output_min is not None:\n    projected_weights = tf.minimum(projected_weights, output_max)', 'K3', 'one-sided upper bound dropped'),
    ('C06', 'internal_utils.py', '      result = [v] + result', '      result = result + [v]', 'O2', 'finish order not reversed'),
    ('C06', 'internal_utils.py', '      result = [v] + result', '      result.insert(0, v)', None, 'N: insert(0, v) instead of list concatenation'),
    ('C01', 'lattice_layer.py', '    return self.kernel.assign(self._final_constraints(self.kernel))',
     '    return self.kernel.assign_add(\n        self._final_constraints(self.kernel) - self.kernel)', 'R1', 'projection stored through a cancelling difference'),
    ('C07', 'kronecker_factored_lattice_layer.py', '    finalize_scale = self.scale.assign(\n        self._final_scale_constraints(self.scale))',
     '    finalize_scale = self.scale.assign_add(\n        self._final_scale_constraints(self.scale) - self.scale)', 'R1', 'scale stored through a cancelling difference'),
    ('C07', 'kronecker_factored_lattice_layer.py', '    finalize_kernel = self.kernel.assign(\n        self._final_kernel_constraints(self.kernel))',
     '    finalize_kernel = self.kernel.assign(self._final_kernel_constraints(\n        self.kernel))', None, 'N: re-wrapped assign'),
    ('C13', 'lattice_lib.py', '      l1 = list(l1) + [0.0]\n    if l2:\n      l2 = list(l2) + [0.0]\n  weights = tf.reshape(weights, shape=lattice_sizes)\n\n  result = tf.constant(0.0, shape=[], dtype=weights.dtype)\n  for dim in range(rank):',
     '      l1 = l1 + [0.0]\n    if l2:\n      l2 = list(l2) + [0.0]\n  weights = tf.reshape(weights, shape=lattice_sizes)\n\n  result = tf.constant(0.0, shape=[], dtype=weights.dtype)\n  for dim in range(rank):', 'T3', 'tuple l1 extended with a list'),
    ('C02', 'lattice_lib.py', 'np.cumprod([1] + list(lattice_sizes)[::-1][:-1])[::-1], tf.int32)', 'np.cumprod([1] + lattice_sizes[::-1][:-1])[::-1], tf.int32)', 'T3', 'tuple sizes in the stride computation'),
    ('C01', 'lattice_lib.py', '  units = weights.shape[1]\n  if units > 1:\n    lattice_sizes = list(lattice_sizes) + [int(units)]\n    if monotonicities:',
     '  units = weights.shape[1]\n  lattice_sizes = list(lattice_sizes)\n  if units > 1:\n    lattice_sizes = lattice_sizes + [int(units)]\n    if monotonicities:', None, 'N: list() one statement earlier'),
    ('C12', 'lattice_lib.py', '    lattice_sizes = list(lattice_sizes) + [int(weights.shape[1])]\n    if monotonicities:', '    lattice_sizes = lattice_sizes + [int(weights.shape[1])]\n    if monotonicities:', 'T3', 'assert_constraints with tuple sizes'),
    ('C05', 'pwl_calibration_lib.py', 'tf.ones(shape, dtype=weights.dtype)', 'tf.ones(shape)', 'D1', 'default-dtype ones in the learned-keypoint branch'),
    ('C19', 'kronecker_factored_lattice_lib.py', '      is_zero = tf.cast(tf.equal(t, 0), t.dtype)', '      is_zero = tf.cast(tf.equal(t, 0), tf.float32)', 'D1', 'float32 mask in the custom gradient'),
    ('C13', 'lattice_lib.py', '  if not l1 and not l2:\n    return tf.constant(0.0, shape=[], dtype=weights.dtype)', '  if not l1 and not l2:\n    return 0.0', 'D1', 'python float from the early exit'),
    ('C05', 'pwl_calibration_layer.py', '          is_missing = tf.maximum(is_missing, equals_missing_value)', '          pass', 'E5', 'value test dropped when a flag tensor is given'),
    ('C05', 'pwl_calibration_layer.py', '          is_missing = tf.maximum(is_missing, equals_missing_value)', '          is_missing = tf.maximum(equals_missing_value, is_missing)', None, 'N: commuted maximum'),
    ('C10', 'categorical_calibration_layer.py', '    if output_min is not None or output_max is not None:\n      # With a single bound', '    if output_min is not None and output_max is not None:\n      # With a single bound', 'K5',
     'categorical initializer only bounded when both bounds are given'),
    ('C10', 'lattice_lib.py', '    init_min = 0.0 if output_max > 0.0 else output_max - 1.0', '    init_min = min(0.0, output_max)', 'I3', 'degenerate default range for output_max <= 0'),
    ('C10', 'lattice_layer.py', '      return keras.initializers.RandomUniform(init_min, init_max)', '      return keras.initializers.get("random_uniform")', 'K5', 'joint-unimodal initializer ignores the bounds'),
    ('C10', 'lattice_lib.py', '    init_max = 1.0 if output_min < 1.0 else output_min + 1.0', '    init_max = output_min + 1.0 if output_min >= 1.0 else 1.0', None, 'N: conditional written the other way round'),
    ('C10', 'pwl_calibration_layer.py', '          output_min=self._output_init_min,\n          output_max=self._output_init_max,\n          monotonicity=self.monotonicity)', '          output_min=self._output_init_min,\n          output_max=self._output_init_min,\n          monotonicity=self.monotonicity)', 'K5', 'PWL initializer loses the upper bound'),
    ('C06', 'linear_lib.py', '      if lower is not None and upper is not None and upper > lower:\n        scalings[dim] *= upper - lower\n    scalings = tf.constant(',
     '      if lower is not None and upper is not None:\n        scalings[dim] *= upper - lower\n    scalings = tf.constant(', 'D2', 'zero-width range scaled in project'),
    ('C16', 'linear_layer.py', '        monotonicities=self.monotonicities,\n        input_min=self.input_min,\n        input_max=self.input_max)', '        monotonicities=self.monotonicities)', 'V1', 'Linear bounds validated only with constraints'),
    ('C15', 'conditional_pwl_calibration.py', '      and keypoint_output_parameters.shape[1] not in (1, units)', '      and keypoint_output_parameters.shape[1] != units', 'V8', 'validator rejects the broadcast unit axis'),
    ('C15', 'conditional_pwl_calibration.py', '      and keypoint_output_parameters.shape[1] not in (1, units)', '      and keypoint_output_parameters.shape[1] not in (units, 1)', None, 'N: membership tuple reordered'),
    ('C10', 'pwl_calibration_lib.py', '        keypoints[:num_keypoints], shape=[num_keypoints, 1], dtype=dtype)', '        keypoints, shape=[num_keypoints, 1], dtype=dtype)', 'I4', 'all keypoints for a cyclic kernel'),
    ('C14', 'cdf_layer.py', '          tf.nn.relu6(self.input_scaling * (x - self.kernel)), axis=2) / 6', '          tf.nn.relu6(self.input_scaling * (x - self.kernel)), axis=2) / 5', 'Y1', 'layer divides the relu6 mean by 5'),
    ('C14', 'conditional_cdf.py', '    result = tf.reshape(result, (-1, input_dim // sparsity_factor, units))', '    result = tf.reshape(result, (-1, units // sparsity_factor, units))', 'Y1', 'functional form reshapes with the wrong middle dimension'),
    ('C14', 'conditional_cdf.py', '    result = tf.reshape(result, (-1, input_dim // sparsity_factor, units))', '    result = tf.reshape(result, [-1, input_dim // sparsity_factor, units])', None, 'N: list instead of tuple'),
    ('C14', 'parallel_combination_layer.py', 'zip(self.calibration_layers, inputs)', 'zip(self.calibration_layers, reversed(inputs))', 'Y3', 'calibrators applied to the columns in reverse'),
    ('C14', 'conditional_pwl_calibration.py', '  weights = tf.clip_by_value(weights, 0.0, 1.0)', '  weights = tf.clip_by_value(weights, 0.0, 2.0)', 'Y2', 'functional weights clipped at 2'),
    ('C14', 'cdf_layer.py', 'tf.nn.sigmoid(self.input_scaling * (x - self.kernel)), axis=2)', 'tf.nn.sigmoid(self.input_scaling * (x + self.kernel)), axis=2)', 'Y1', 'layer adds the location'),
    ('C09', 'cdf_layer.py', '          result, [-1, int(input_dim // self.sparsity_factor), self.units])', '          result, [-1, int(self.units // self.sparsity_factor), self.units])', 'Y1', 'layer reshape absorbs the mismatch in the batch axis'),
    ('C08', 'lattice_lib.py', '        if (constraint_group[0] >= lattice_sizes[dominant_dim] - 1 or\n            constraint_group[1] >= lattice_sizes[weak_dim] - 1):\n          continue\n\n        rolled_back_weights = weights - last_change[\n            ("MONOTONIC_DOMINANCE"',
     '        if (constraint_group[0] >= lattice_sizes[weak_dim] - 1 or\n            constraint_group[1] >= lattice_sizes[dominant_dim] - 1):\n          continue\n\n        rolled_back_weights = weights - last_change[\n            ("MONOTONIC_DOMINANCE"', 'L3s', 'dominance group guard with swapped sizes'),
    ('C08', 'lattice_lib.py', '      is_first_part = (i < lattice_sizes[dimension] // 2)', '      is_first_part = (i < (lattice_sizes[dimension] + 1) // 2)', 'O3', 'unimodal split one vertex late on odd sizes'),
    ('C18', 'premade_lib.py', '  if not np.issubdtype(np.asarray(labels).dtype, np.number):', '  if not np.issubdtype(labels[0], np.number):', 'V5t', 'value passed where a dtype is expected'),
    ('C18', 'premade_lib.py', '  if not np.issubdtype(np.asarray(labels).dtype, np.number):', '  if not np.issubdtype(np.array(labels).dtype, np.number):', None, 'N: np.array instead of np.asarray'),
    ('C12', 'pwl_calibration_layer.py', '    outputs = self.keypoints_outputs()\n', '    outputs = self.call(tf.constant(self.input_keypoints, dtype=self.dtype, shape=[len(self.input_keypoints), 1]))\n', 'A6', 'assertion subject computed through call()'),
    ('C12', 'kronecker_factored_lattice_lib.py', '    min_weight = tf.reduce_min(weights)\n', '    min_weight = tf.reduce_min(tf.abs(weights))\n', 'A7', 'non-negativity assert on |weights|'),
    ('C11', 'lattice_lib.py', '  monotonic_dominances = [tuple(c) for c in monotonic_dominances or []]', '  monotonic_dominances = list(monotonic_dominances or [])', 'T4', 'dominance constraints used as keys without tuple()'),
    ('C11', 'lattice_lib.py', '  range_dominances = [tuple(c) for c in range_dominances or []]', '  range_dominances = [tuple(pair) for pair in range_dominances or []]', None, 'N: comprehension variable renamed'),
    ('C16', 'kronecker_factored_lattice_lib.py', '  if units is not None and units < 1:', '  if units and units < 1:', 'N0', 'zero units skips the range check'),
    ('C08', 'lattice_lib.py', '  if direction.lower() == "valley":', '  if direction == "valley":', 'V3c', 'joint unimodality dispatched case-sensitively'),
    ('C16', 'lattice_layer.py', '            raise ValueError("Unknown custom lattice regularizer: %s" %\n                             (regularizer,))', '            raise ValueError("Unknown custom lattice regularizer: %s" %\n                             regularizer)', 'F0', 'tuple operand for one specifier'),
    ('C02', 'lattice_lib.py', '    lower_corner_coordinates = tf.maximum(lower_corner_coordinates, 0)\n', '', 'H4', 'corner floor removed'),
    ('C11', 'aggregation_layer.py', "    config = dict(config)\n", '', 'S12', 'from_config pops from the caller dict'),
    ('C03', 'premade_lib.py', '                  feature_config.monotonicity, (list, tuple)) else None,', '                  feature_config.monotonicity, list) else None,', 'W6', 'tuple pairs not forwarded to the calibrator'),
    ('C01', 'lattice_lib.py', '    final_projection = final_projection * scale + offset\n', '    final_projection = (final_projection - output_min) * scale + offset + output_min * scale\n', 'R2', 'kernel translated by the bound before scaling'),
    ('C16', 'lattice_lib.py', '    if not monotonicities or monotonicities[main_dim] != 1:', '    if monotonicities[main_dim] != 1:', 'N1', 'subscript of possibly-None monotonicities'),
    ('C16', 'lattice_lib.py', '      list(edgeworth_trusts or []) + list(trapezoid_trusts or [])) or []', '      (edgeworth_trusts or []) + (trapezoid_trusts or [])) or []', 'T3', 'tuple trusts concatenated with a list'),
    ('C16', 'lattice_lib.py', '    if dominant_dim == weak_dim:\n      raise ValueError("%s dominance constraint must relate two different "', '    if dominant_dim == -1:\n      raise ValueError("%s dominance constraint must relate two different "', 'V9', 'degenerate dominance pair accepted'),
    ('C18', 'premade_lib.py', '  if total_weight <= 0:\n    # Without any weight left all values count equally.\n    weights = np.ones(len(weights))\n    total_weight = np.sum(weights)\n', '', 'D3', 'zero total weight divides'),
    ('C17', 'premade_lib.py', '    if max_weight > 0:\n      weights /= max_weight', '    weights /= max_weight', 'D3', 'constant lattice normalised by 0'),
    ('C13', 'lattice_lib.py', '    if (not l1 or not l1[dim]) and (not l2 or not l2[dim]):', '    if (l1 and not l1[dim]) or (l2 and not l2[dim]):', 'L6', 'dimension skipped when either amount is zero'),
    ('C13', 'pwl_calibration_layer.py', '    if x.shape[0] < 3:', '    if x.shape[0] < 4:', 'L6', 'wrinkle gives up on 3-row kernels'),
    ('C13', 'lattice_lib.py', '    l1 = [math.sqrt(l1)] * rank', '    l1 = [l1] * rank', 'L6', 'scalar torsion amount not square-rooted'),
    ('C19', 'kronecker_factored_lattice_lib.py', 'tf.cast(tf.equal(num_zeros, 1), prod.dtype)', 'tf.cast(tf.greater(num_zeros, 0), prod.dtype)', 'G3', 'single-zero branch also taken for several zeros'),
    ('C14', 'kronecker_factored_lattice_lib.py', '  if clip_inputs:\n    inputs = tf.clip_by_value(inputs, 0.0, lattice_sizes - 1.0)\n', '', 'X5', 'KFL never clips'),
    ('C10', 'pwl_calibration_lib.py', '        lengths_tensor * (output_range / tf.reduce_sum(lengths_tensor)))', '        lengths_tensor * (output_range / float(keypoints[-1] - keypoints[0])))', 'I5', 'slope from the untruncated keypoint span'),
    ('C06', 'linear_lib.py', '    if -1 in monotonicities:\n      inverted_decreasing_mask', '    elif -1 in monotonicities:\n      inverted_decreasing_mask', 'P3', 'decreasing clamp only without increasing inputs'),
    ('C18', 'premade_lib.py', '          used_idx.add(candidate_idx)', '          used_idx.add(quantiles_idx[i])', 'K2', 'stale index recorded as used'),
    ('C17', 'premade_lib.py', '        # going out of bound on the lattice\n        addition_score = -2.0',
     '        # going out of bound on the lattice\n        addition_score = -1.0', 'W7', 'full lattice ties with a repeat'),
    ('C17', 'premade_lib.py', '        # going out of bound on the lattice\n        addition_score = -2.0',
     '        # going out of bound on the lattice\n        addition_score = -3.0', None, 'N: lower penalty for full lattices'),
    ('C17', 'premade_lib.py', '    score_candidates_pairs.sort(reverse=True)', '    score_candidates_pairs.sort()', 'W7', 'lowest score taken'),
    ('C01', 'lattice_lib.py', '  else:\n    return tf.maximum(differences, 0)',
     '  else:\n    return tf.maximum(tf.reduce_max(differences, axis=axis), 0)', 'L9',
     'trapezoid-only mode also over-shoots on opposed pairs'),
    ('C01', 'lattice_lib.py', '  else:\n    return tf.maximum(differences, 0)',
     '  else:\n    return tf.maximum(differences, 0.0)', None, 'N: float literal in the exact repair'),
    ('C01', 'lattice_lib.py', '    layers = _unstack_nd(trust_projection, [main_dim, cond_dim])', '    layers = _unstack_nd(trust_projection, dims=[main_dim, cond_dim])',
     None, 'N: keyword form of dims'),
    # ---- rules added with the fourth batch of seeded changes
    ('C16', 'lattice_lib.py', '      weak_dim_idx = range(lattice_sizes[weak_dim])',
     '      weak_dim_idx = range(lattice_sizes[dominant_dim])', 'CP1',
     'copy of the dominant line with one identifier not replaced'),
    ('C08', 'lattice_lib.py', '      weak_dim_idx = range(lattice_sizes[weak_dim])',
     '      weak_dim_idx = range(lattice_sizes[dominant_dim])', 'CP1',
     'copy of the dominant line with one identifier not replaced'),
    ('C16', 'lattice_layer.py', '    if (isinstance(range_dominances, tuple) and range_dominances and\n        isinstance(range_dominances[0], int)):',
     '    if (isinstance(range_dominances, tuple) and range_dominances and\n        isinstance(monotonic_dominances[0], int)):', 'CP1',
     'range_dominances block tests the other argument'),
    ('C11', 'lattice_lib.py', '                      cond_direction) in set(\n                          tuple(t) for t in edgeworth_trusts or [])',
     '                      cond_direction) in (edgeworth_trusts or [])', 'T4',
     'tuple looked up among possibly-list constraints'),
    ('C01', 'lattice_lib.py', '                      cond_direction) in set(\n                          tuple(t) for t in edgeworth_trusts or [])',
     '                      cond_direction) in (edgeworth_trusts or [])', 'T4',
     'tuple looked up among possibly-list constraints'),
    ('C11', 'rtl_layer.py', '              kernel_regularizer=kernel_regularizer,\n              name=layer_name,\n          )\n        elif',
     '              kernel_regularizer=self.kernel_regularizer,\n              name=layer_name,\n          )\n        elif', 'X8',
     'raw attribute passed after the local was normalised'),
    ('C12', 'pwl_calibration_layer.py', '    if self.impute_missing and self.missing_output_value is None:\n      asserts',
     '    if self.impute_missing and self.missing_input_value is None:\n      asserts', 'A8',
     'learned missing output asserted under another guard'),
    ('C12', 'lattice_lib.py', '    for i in range(dom_dim_size):\n      for j in range(weak_dim_size):\n        diff = tf.reduce_min(\n            (weights_layers[dom_dim_size - 1][j] - weights_layers[0][j]) -\n            (weights_layers[i][weak_dim_size - 1] - weights_layers[i][0]))\n        asserts.append(\n            tf.Assert(\n                diff >= -eps,',
     '    for i, j in zip(range(dom_dim_size), range(weak_dim_size)):\n      if True:\n        diff = tf.reduce_min(\n            (weights_layers[dom_dim_size - 1][j] - weights_layers[0][j]) -\n            (weights_layers[i][weak_dim_size - 1] - weights_layers[i][0]))\n        asserts.append(\n            tf.Assert(\n                diff >= -eps,', 'A5',
     'range dominance asserted on the diagonal only'),
    ('C10', 'lattice_layer.py', '        all_unimodalities[dim] = direction',
     "        all_unimodalities[dim] = 1 if direction == 'valley' else -1", 'V3c',
     'initializer compares the direction case-sensitively'),
    ('C02', 'lattice_lib.py', '  if clip_inputs:\n    inputs = _clip_onto_lattice_range(\n        inputs=inputs, lattice_sizes=lattice_sizes)\n\n  lattice_rank = len(lattice_sizes)\n  input_dim = len(inputs.shape)\n  all_size_2 = all(size == 2 for size in lattice_sizes)',
     '  lattice_rank = len(lattice_sizes)\n  input_dim = len(inputs.shape)\n  all_size_2 = all(size == 2 for size in lattice_sizes)\n  raw_cell = tf.cast(inputs, tf.int32)\n  if clip_inputs:\n    inputs = _clip_onto_lattice_range(\n        inputs=inputs, lattice_sizes=lattice_sizes)', 'X5',
     'a cell index is taken from the coordinates before they are clipped'),
    # ---- rules added with the fifth batch of seeded changes
    ('C08', 'lattice_lib.py', '            weights - last_change[("TRAPEZOID", constraint, constraint_group)])',
     '            weights - last_change[("TRAPEZOID", cond_dim, constraint_group)])', 'L4',
     'trapezoid roll-back slot keyed by the conditional dimension only'),
    ('C06', 'internal_utils.py', '    seen.add(v)\n    expand = [x for x in key_less_than_values[v] if x not in seen]\n    if not expand:\n      result = [v] + result\n      q.pop()',
     '    expand = [x for x in key_less_than_values[v] if x not in seen]\n    if not expand:\n      result = [v] + result\n      seen.add(v)\n      q.pop()', 'O2',
     'vertex marked visited only when it finishes'),
    ('C16', 'internal_utils.py', '    seen.add(v)\n    expand = [x for x in key_less_than_values[v] if x not in seen]\n    if not expand:\n      result = [v] + result\n      q.pop()',
     '    expand = [x for x in key_less_than_values[v] if x not in seen]\n    if not expand:\n      result = [v] + result\n      seen.add(v)\n      q.pop()', 'O2',
     'vertex marked visited only when it finishes'),
    ('C01', 'lattice_lib.py', '  any_edgeworth = bool(edgeworth_trusts)',
     '  any_edgeworth = any(t[0] == 0 for t in edgeworth_trusts or [])', 'K6',
     'any_edgeworth filtered by a feature'),
    ('C10', 'pwl_calibration_lib.py', '    heights_tensor = -heights_tensor',
     '    heights_tensor = -heights_tensor[::-1]', 'I6',
     'decreasing initial heights reversed'),
    ('C04', 'pwl_calibration_lib.py', '    bias = tf.maximum(bias, output_min)\n  if output_max_constraints == BoundConstraintsType.NONE:\n    return bias, heights\n  bias = tf.minimum(bias, output_max)',
     '    bias = tf.maximum(bias, output_min)\n  elif output_max_constraints != BoundConstraintsType.NONE:\n    bias = tf.minimum(bias, output_max)\n  if output_max_constraints == BoundConstraintsType.NONE:\n    return bias, heights', 'K3s',
     'upper clip of the bias in the elif of the lower clip'),
    ('C18', 'premade_lib.py', '      weights = weights / counts', '      weights /= counts', 'K7',
     'argument array divided in place'),
    ('C18', 'premade_lib.py', '  if not np.issubdtype(np.asarray(labels).dtype, np.number):',
     '  if not np.issubdtype(np.asarray(labels).dtype, np.floating):', 'K8',
     'integer labels treated as category names'),
    ('C14', 'kronecker_factored_lattice_lib.py', '  if lattice_sizes == 2:', '  if lattice_sizes == 2 and clip_inputs:', 'Y4',
     'size-2 closed form only when clipping'),
    ('C17', 'rtl_layer.py', '          input_index += 1', '          input_index += 2', 'W7',
     'column counter advances by two per column'),
    ('C12', 'linear_lib.py', None, None, None, None),
    ('C11', 'premade_lib.py', '  regularizer_configs = []\n  regularizer_configs.extend(feature_config.regularizer_configs or [])',
     '  regularizer_configs = feature_config.regularizer_configs or []', 'S13',
     'feature regularizer list aliased and extended'),
    ('C16', 'lattice_lib.py', '    if output_min >= output_max:', '    if output_min > output_max:', 'V10',
     'equal lattice bounds accepted'),
    ('C16', 'pwl_calibration_lib.py', '      if not all(input_keypoints[i] < input_keypoints[i + 1]\n                 for i in range(len(input_keypoints) - 1)):',
     '      if list(input_keypoints) != sorted(input_keypoints):', 'V11',
     'keypoints only required to be sorted'),
]
MUTANTS = [m for m in MUTANTS if m[3] is not None or m[4] is not None]


def _scratch(repo):
  d = tempfile.mkdtemp(prefix='tflsa_audit_')
  src = os.path.join(repo, PKG_DIR)
  dst = os.path.join(d, PKG_DIR)
  os.makedirs(os.path.dirname(dst))
  shutil.copytree(src, dst, ignore=shutil.ignore_patterns(
      '*_test.py', '__pycache__', '*.pyc'))
  return d


def run_mutant(repo, m):
  pid, fname, old, new, rule, label = m
  d = _scratch(repo)
  try:
    path = os.path.join(d, PKG_DIR, fname)
    with open(path) as f:
      src = f.read()
    if src.count(old) != 1:
      return 'not-applicable', ''
    with open(path, 'w') as f:
      f.write(src.replace(old, new))
    p = subprocess.run([PY, os.path.join(HERE, 'check.py'), pid, '--repo', d,
                        '--no-evidence'], stdout=subprocess.PIPE,
                       stderr=subprocess.STDOUT, text=True)
    out = p.stdout
    if rule is None:
      return ('silent' if p.returncode == 0 else 'ALARM(rc=%d)' %
              p.returncode), out
    hit = p.returncode == 1 and ('rule=%s ' % rule) in out
    if hit:
      return 'detected', out
    if p.returncode == 1:
      return 'detected-by-other-rule', out
    return 'MISSED(rc=%d)' % p.returncode, out
  finally:
    shutil.rmtree(d, ignore_errors=True)


class _KwRev(__import__('ast').NodeTransformer):
  """keyword arguments of every call in reverse order"""

  def visit_Call(self, n):
    self.generic_visit(n)
    if len(n.keywords) > 1 and all(k.arg for k in n.keywords):
      n.keywords = list(reversed(n.keywords))
    return n


class _EqSwap(__import__('ast').NodeTransformer):
  """a == b  ->  b == a   (and !=)"""

  def visit_Compare(self, n):
    import ast
    self.generic_visit(n)
    if len(n.ops) == 1 and isinstance(n.ops[0], (ast.Eq, ast.NotEq)):
      n.left, n.comparators = n.comparators[0], [n.left]
    return n


class _Noop(__import__('ast').NodeTransformer):
  """an unused local bound at the top of every function (not where locals()
  is captured: there an extra local changes behaviour)"""

  def visit_FunctionDef(self, n):
    import ast
    self.generic_visit(n)
    if any(isinstance(c, ast.Call) and getattr(c.func, 'id', '') == 'locals'
           for c in ast.walk(n)):
      return n
    body = n.body
    i = 1 if body and isinstance(body[0], ast.Expr) and isinstance(
        body[0].value, ast.Constant) else 0
    n.body = body[:i] + [ast.parse('_unused_marker = None').body[0]] + body[i:]
    return n


class _IfInvert(__import__('ast').NodeTransformer):
  """if c: A else: B  ->  if not c: B else: A ; same for conditional
  expressions"""

  def visit_If(self, n):
    import ast
    self.generic_visit(n)
    if n.orelse and not (len(n.orelse) == 1 and isinstance(n.orelse[0],
                                                           ast.If)):
      t = n.test
      n.test = t.operand if isinstance(t, ast.UnaryOp) and isinstance(
          t.op, ast.Not) else ast.UnaryOp(op=ast.Not(), operand=t)
      n.body, n.orelse = n.orelse, n.body
    return n

  def visit_IfExp(self, n):
    import ast
    self.generic_visit(n)
    n.test = ast.UnaryOp(op=ast.Not(), operand=n.test)
    n.body, n.orelse = n.orelse, n.body
    return n


class _LogCall(__import__('ast').NodeTransformer):
  """a logging call at the top of every function (not where locals() is
  captured) and `object` annotations on all parameters"""

  def visit_FunctionDef(self, n):
    import ast
    self.generic_visit(n)
    for a in n.args.args:
      if a.arg not in ('self', 'cls') and a.annotation is None:
        a.annotation = ast.Name(id='object', ctx=ast.Load())
    if any(isinstance(c, ast.Call) and getattr(c.func, 'id', '') == 'locals'
           for c in ast.walk(n)):
      return n
    body = n.body
    i = 1 if body and isinstance(body[0], ast.Expr) and isinstance(
        body[0].value, ast.Constant) else 0
    n.body = body[:i] + [ast.parse("logging.debug('entering')").body[0]] + \
        body[i:]
    return n


class _AugExpand(__import__('ast').NodeTransformer):
  """x op= y  ->  x = x op y   (not in functions that use numpy: there the
  augmented form works in place on an array, the binary form does not)"""
  _np = 0

  def visit_FunctionDef(self, n):
    import ast
    uses = any(isinstance(x, ast.Attribute) and isinstance(x.value, ast.Name)
               and x.value.id == 'np' for x in ast.walk(n))
    self._np += uses
    try:
      return self.generic_visit(n)
    finally:
      self._np -= uses

  def visit_AugAssign(self, n):
    import ast, copy
    self.generic_visit(n)
    if isinstance(n.value, (ast.List, ast.ListComp, ast.Tuple)) or self._np:
      return n      # in-place extension of a list / array: another program
    load = copy.deepcopy(n.target)
    load.ctx = ast.Load()
    return ast.copy_location(ast.Assign(
        targets=[n.target],
        value=ast.BinOp(left=load, op=n.op, right=n.value)), n)


class _TfAlias(__import__('ast').NodeTransformer):
  """tf.maximum -> tf.math.maximum ... (the same function objects)"""
  NAMES = {'maximum', 'minimum', 'abs', 'reduce_sum', 'reduce_max',
           'reduce_min', 'reduce_mean', 'sign', 'sqrt', 'exp', 'cumsum',
           'equal', 'greater', 'less', 'logical_and', 'logical_or',
           'logical_not', 'square', 'sigmoid', 'not_equal', 'greater_equal',
           'less_equal', 'reduce_prod', 'reduce_all', 'reduce_any', 'floor',
           'round', 'argmax', 'argmin', 'multiply', 'subtract', 'add',
           'divide', 'tanh', 'pow'}

  def visit_Attribute(self, n):
    import ast
    self.generic_visit(n)
    if isinstance(n.value, ast.Name) and n.value.id == 'tf' and \
        n.attr in self.NAMES:
      return ast.copy_location(ast.Attribute(
          value=ast.Attribute(value=n.value, attr='math', ctx=ast.Load()),
          attr=n.attr, ctx=n.ctx), n)
    return n


def _ends_leaving(body):
  import ast
  return bool(body) and isinstance(body[-1], (ast.Return, ast.Raise))


class _EarlyReturn(__import__('ast').NodeTransformer):
  """if c: ...; return  else: B   ->   if c: ...; return   followed by B"""

  def _fix(self, body):
    import ast
    out = []
    for s in body:
      if isinstance(s, ast.If) and s.orelse and _ends_leaving(s.body):
        rest = s.orelse
        s.orelse = []
        out.append(s)
        out.extend(rest)
      else:
        out.append(s)
    return out

  def generic_visit(self, n):
    import ast
    super().generic_visit(n)
    for f in ('body', 'orelse', 'finalbody'):
      b = getattr(n, f, None)
      if isinstance(b, list) and b and isinstance(b[0], ast.stmt):
        setattr(n, f, self._fix(b))
    return n


class _ElseAfterReturn(__import__('ast').NodeTransformer):
  """if c: ...; return   followed by B   ->   if c: ...; return  else: B
  (top level of every function)"""

  def _fix(self, body):
    import ast
    for i, s in enumerate(body):
      if isinstance(s, ast.If) and not s.orelse and s.body and isinstance(
          s.body[-1], ast.Return) and body[i + 1:]:
        s.orelse = self._fix(body[i + 1:])
        return body[:i + 1]
    return body

  def visit_FunctionDef(self, n):
    self.generic_visit(n)
    n.body = self._fix(n.body)
    return n


class _IsinstSplit(__import__('ast').NodeTransformer):
  """isinstance(x, (A, B)) -> isinstance(x, A) or isinstance(x, B)"""

  def visit_Call(self, n):
    import ast, copy
    self.generic_visit(n)
    if isinstance(n.func, ast.Name) and n.func.id == 'isinstance' and len(
        n.args) == 2 and isinstance(n.args[1], ast.Tuple) and len(
            n.args[1].elts) > 1:
      return ast.copy_location(ast.BoolOp(op=ast.Or(), values=[
          ast.Call(func=n.func, args=[copy.deepcopy(n.args[0]), e],
                   keywords=[]) for e in n.args[1].elts]), n)
    return n



class _CmpInvert(__import__('ast').NodeTransformer):
  """if a == b: A else: B  ->  if a != b: B else: A  (every two-armed if /
  conditional expression whose test is one comparison; is / is not, in /
  not in, < / >= likewise)"""

  def _neg(self, t):
    import ast
    NEG = {ast.Eq: ast.NotEq, ast.NotEq: ast.Eq, ast.Is: ast.IsNot,
           ast.IsNot: ast.Is, ast.In: ast.NotIn, ast.NotIn: ast.In,
           ast.Lt: ast.GtE, ast.GtE: ast.Lt, ast.Gt: ast.LtE, ast.LtE: ast.Gt}
    if isinstance(t, ast.Compare) and len(t.ops) == 1 and type(
        t.ops[0]) in NEG:
      t.ops = [NEG[type(t.ops[0])]()]
      return True
    return False

  def visit_If(self, n):
    import ast
    self.generic_visit(n)
    if n.orelse and not (len(n.orelse) == 1 and isinstance(n.orelse[0],
                                                           ast.If)):
      if self._neg(n.test):
        n.body, n.orelse = n.orelse, n.body
    return n

  def visit_IfExp(self, n):
    self.generic_visit(n)
    if self._neg(n.test):
      n.body, n.orelse = n.orelse, n.body
    return n



class _IfExpToIf(__import__('ast').NodeTransformer):
  """x = A if c else B  ->  if c: x = A  else: x = B   (statement level)"""

  def _fix(self, body):
    import ast, copy
    out = []
    for s in body:
      if isinstance(s, ast.Assign) and isinstance(s.value, ast.IfExp):
        v = s.value
        out.append(ast.copy_location(ast.If(
            test=v.test,
            body=[ast.copy_location(ast.Assign(targets=s.targets,
                                               value=v.body), s)],
            orelse=[ast.copy_location(ast.Assign(
                targets=copy.deepcopy(s.targets), value=v.orelse), s)]), s))
      else:
        out.append(s)
    return out

  def generic_visit(self, n):
    import ast
    super().generic_visit(n)
    for f in ('body', 'orelse', 'finalbody'):
      b = getattr(n, f, None)
      if isinstance(b, list) and b and isinstance(b[0], ast.stmt):
        setattr(n, f, self._fix(b))
    return n


class _IfToIfExp(__import__('ast').NodeTransformer):
  """if c: x = A  else: x = B  ->  x = A if c else B"""

  def visit_If(self, n):
    import ast
    self.generic_visit(n)
    if len(n.body) == 1 and len(n.orelse) == 1 and all(
        isinstance(a, ast.Assign) and len(a.targets) == 1
        for a in (n.body[0], n.orelse[0])) and ast.dump(
            n.body[0].targets[0]) == ast.dump(n.orelse[0].targets[0]):
      return ast.copy_location(ast.Assign(
          targets=n.body[0].targets, value=ast.IfExp(
              test=n.test, body=n.body[0].value,
              orelse=n.orelse[0].value)), n)
    return n


class _ChainNest(__import__('ast').NodeTransformer):
  """x = g(x, a); x = f(x, b)  ->  x = f(g(x, a), b)  (adjacent statements,
  f's other arguments do not read x)"""

  def _fix(self, body):
    import ast
    out = []
    for s in body:
      prev = out[-1] if out else None
      if prev is not None and all(
          isinstance(t, ast.Assign) and len(t.targets) == 1 and isinstance(
              t.targets[0], ast.Name) and isinstance(t.value, ast.Call)
          for t in (prev, s)) and prev.targets[0].id == s.targets[0].id:
        x = s.targets[0].id
        c = s.value
        rest = list(c.args[1:]) + [k.value for k in c.keywords] + [c.func]
        if c.args and isinstance(c.args[0], ast.Name) and c.args[0].id == x \
            and not any(isinstance(m, ast.Name) and m.id == x
                        for r in rest for m in ast.walk(r)) and \
            prev.value.args and isinstance(prev.value.args[0], ast.Name) \
            and prev.value.args[0].id == x:
          c.args[0] = prev.value
          out[-1] = s
          continue
      out.append(s)
    return out

  def generic_visit(self, n):
    import ast
    super().generic_visit(n)
    for f in ('body', 'orelse', 'finalbody'):
      b = getattr(n, f, None)
      if isinstance(b, list) and b and isinstance(b[0], ast.stmt):
        setattr(n, f, self._fix(b))
    return n



GLOBAL_NEUTRALS = [('ast.unparse round trip', None),
                   ('logging call at the top of every function, annotated '
                    'parameters', _LogCall),
                   ('two-armed ifs and conditional expressions inverted',
                    _IfInvert),
                   ('keyword arguments reversed', _KwRev),
                   ('== / != operands swapped', _EqSwap),
                   ('unused local at the top of every function', _Noop),
                   ('x op= y expanded to x = x op y', _AugExpand),
                   ('tf.X spelled tf.math.X', _TfAlias),
                   ('else after return removed (early-return form)',
                    _EarlyReturn),
                   ('code after `if ...: return` moved into an else',
                    _ElseAfterReturn),
                   ('isinstance with a tuple split into an or', _IsinstSplit),
                   ('comparison of two-armed conditionals negated, arms '
                    'swapped', _CmpInvert),
                   ('conditional expression assignments as if statements',
                    _IfExpToIf),
                   ('two-armed assignment ifs as conditional expressions',
                    _IfToIfExp),
                   ('consecutive self-updates nested into one call',
                    _ChainNest)]


def run_roundtrip(repo, pid, transformer=None):
  """Global neutral variant: every module re-printed by ast.unparse (all
  formatting, comments and parenthesisation changed), optionally after a
  behaviour-preserving tree transformation."""
  import ast
  d = _scratch(repo)
  try:
    pkg = os.path.join(d, PKG_DIR)
    for fn in os.listdir(pkg):
      if fn.endswith('.py'):
        path = os.path.join(pkg, fn)
        with open(path) as f:
          src = f.read()
        tree = ast.parse(src)
        if transformer is not None:
          tree = ast.fix_missing_locations(transformer().visit(tree))
        with open(path, 'w') as f:
          f.write(ast.unparse(tree) + '\n')
    p = subprocess.run([PY, os.path.join(HERE, 'check.py'), pid, '--repo', d,
                        '--no-evidence'], stdout=subprocess.PIPE,
                       stderr=subprocess.STDOUT, text=True)
    return p.returncode, p.stdout
  finally:
    shutil.rmtree(d, ignore_errors=True)


def audit(pid, repo, verbose=True):
  from concurrent.futures import ThreadPoolExecutor
  ms = [m for m in MUTANTS if m[0] == pid]
  with ThreadPoolExecutor(max_workers=16) as ex:
    results = list(ex.map(lambda m: run_mutant(repo, m), ms))
  bad = 0
  stats = {'applied': 0, 'detected': 0, 'neutral': 0, 'neutral_silent': 0}
  for m, (status, out) in zip(ms, results):
    if status == 'not-applicable':
      print('AUDIT %s skip (text not found): %s' % (pid, m[5]))
      continue
    if m[4] is None:
      stats['neutral'] += 1
      if status == 'silent':
        stats['neutral_silent'] += 1
      else:
        bad += 1
        print('AUDIT-MISS %s neutral variant raised an alarm: %s [%s]' % (
            pid, m[5], status))
    else:
      stats['applied'] += 1
      if status.startswith('detected'):
        stats['detected'] += 1
      else:
        bad += 1
        print('AUDIT-MISS %s mutant not reported by %s: %s [%s]' % (
            pid, m[4], m[5], status))
  with ThreadPoolExecutor(max_workers=4) as ex:
    outs = list(ex.map(lambda nt: run_roundtrip(repo, pid, nt[1]),
                       GLOBAL_NEUTRALS))
  for (name, _), (rc, out) in zip(GLOBAL_NEUTRALS, outs):
    stats['neutral'] += 1
    if rc == 0:
      stats['neutral_silent'] += 1
    else:
      bad += 1
      print('AUDIT-MISS %s global neutral variant "%s" raised an alarm '
            '(rc=%d)' % (pid, name, rc))
  print('AUDIT %s mutants_applied=%d detected=%d neutral_variants=%d '
        'silent=%d' % (pid, stats['applied'], stats['detected'],
                       stats['neutral'], stats['neutral_silent']))
  audit.last_stats = stats
  return bad


def main(pids, repo):
  pids = pids or sorted({m[0] for m in MUTANTS})
  bad = 0
  for pid in pids:
    bad += audit(pid, repo)
  print('SELFTEST %s' % ('ok' if not bad else 'FAILED (%d)' % bad))
  return 1 if bad else 0
