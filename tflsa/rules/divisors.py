"""D3 - guarded normalisation.

Every division whose divisor is a reduction of data (np.sum / np.max /
reduce_sum / a norm / a running remainder of such a sum) is enumerated.  The
divisor is 0 for legitimate degenerate data (all-zero example weights, a
constant prefitting lattice, features without any importance), so each site
must either
  * be structurally guarded by a test of the divisor (or divide with
    divide_no_nan / a tf.where that replaces a small divisor), or
  * appear in the reviewed table below with the fact that makes the divisor
    positive, checked once by reading.
A new unguarded site that is not in the table is a violation, and so is a
table entry whose site vanished (exit 2)."""
import ast

from ..model import AnalysisError, dotted, norm_text, names_read
from ..cfg import structural_guards

REDUCERS = ('np.sum', 'np.max', 'np.min', 'np.mean', 'tf.reduce_sum',
            'tf.reduce_max', 'tf.norm', 'np.linalg.norm')

# (function qualname, normalised divisor text) -> why it cannot be 0
REVIEWED = {
    ('conditional_pwl_calibration.default_keypoint_input_parameters',
     'np.sum(deltas)'):
        'deltas are differences of strictly increasing keypoints (the '
        'function returns None otherwise)',
    ('lattice_lib._project_onto_hyperplane',
     'tf.reduce_sum(hyperplane * hyperplane)'):
        'the hyperplane has at least one non-zero integer coefficient (the '
        'caller returns None for an empty equation)',
    ('pwl_calibration_lib.linear_initializer',
     'tf.reduce_sum(lengths_tensor)'):
        'lengths are gaps of strictly increasing keypoints, rejected '
        'otherwise by verify_hyperparameters',
}


def _is_reduction(prog, fn, e, local_defs, depth=0):
  """e is (a name bound to) a reduction of data, or a running remainder of
  one (`r = np.sum(x)` ... `r -= x[i]`)."""
  if depth > 3:
    return False
  if isinstance(e, ast.Call):
    ext = prog.ext_name(fn.module, e.func) or dotted(e.func) or ''
    return ext in REDUCERS
  if isinstance(e, ast.Name) and e.id in local_defs:
    return any(_is_reduction(prog, fn, v, local_defs, depth + 1)
               for v in local_defs[e.id])
  return False


def sites(prog, fn):
  local_defs = {}
  for st in ast.walk(fn.node):
    if isinstance(st, ast.Assign) and isinstance(st.targets[0], ast.Name):
      local_defs.setdefault(st.targets[0].id, []).append(st.value)
  out = []
  for e in ast.walk(fn.node):
    div = None
    if isinstance(e, ast.BinOp) and isinstance(e.op, (ast.Div, ast.FloorDiv)):
      div = e.right
    elif isinstance(e, ast.AugAssign) and isinstance(e.op, (ast.Div,
                                                            ast.FloorDiv)):
      div = e.value
    if div is None:
      continue
    if _is_reduction(prog, fn, div, local_defs):
      out.append((e, div))
  return out


def _guarded(prog, fn, node, div):
  names = names_read(div)
  dtext = norm_text(div).replace(' ', '')
  for t, pol in structural_guards(fn.node, node) or []:
    tt = norm_text(t).replace(' ', '')
    if dtext in tt:
      return True
    if isinstance(div, ast.Name) and div.id in names_read(t):
      return True
  # `if divisor <= 0: ... divisor = <repaired>` earlier in the function
  if isinstance(div, ast.Name):
    for st in ast.walk(fn.node):
      if isinstance(st, ast.If) and div.id in names_read(st.test) and \
          st.lineno < node.lineno and any(
              isinstance(a, ast.Assign) and dotted(a.targets[0]) == div.id
              for a in ast.walk(st)):
        return True
  # tf.where(norm < eps, 1.0, norm) re-binding of the divisor name
  if isinstance(div, ast.Name):
    for st in ast.walk(fn.node):
      if isinstance(st, ast.Assign) and dotted(st.targets[0]) == div.id and \
          isinstance(st.value, ast.Call):
        ext = prog.ext_name(fn.module, st.value.func) or ''
        if ext.endswith('where') and div.id in names_read(st.value):
          return True
        if ext.endswith(('maximum',)) and div.id in names_read(st.value):
          return True
  return False


def check(prog, res, fns, rule='D3'):
  n = 0
  seen = set()
  for fn in fns:
    idx = {}
    for node, div in sites(prog, fn):
      res.analysed(fn)
      dtext = norm_text(div)
      i = idx.get(dtext, 0)
      idx[dtext] = i + 1
      key = '%s|/%s%s' % (fn.qualname, dtext[:40], '#%d' % (i + 1) if i else '')
      n += 1
      if _guarded(prog, fn, node, div):
        res.ok(rule, key, fn.loc(node), 'the division is guarded by a test of '
               'the divisor')
      elif (fn.qualname, dtext) in REVIEWED:
        seen.add((fn.qualname, dtext))
        res.ok(rule, key, fn.loc(node),
               'reviewed: ' + REVIEWED[(fn.qualname, dtext)])
      else:
        res.violation(rule, key, fn.loc(node),
                      'division by `%s`, a reduction of data that is 0 for '
                      'legitimate degenerate inputs (all-zero weights, a '
                      'constant lattice, features of zero importance): the '
                      'result is NaN / inf and the next int() or index raises; '
                      'no test of the divisor guards the division' % dtext)
  missing = set(REVIEWED) - seen
  qn = {f.qualname for f in fns}
  for q, d in sorted(missing):
    if q in qn:
      raise AnalysisError('D3: reviewed division `%s` in %s vanished; review '
                          'the table' % (d, q))
  return n
