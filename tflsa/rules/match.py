"""Structured comparison of an expression with expected forms.

form(node, *expected_sources) returns
  'ok'    the expression is one of the expected forms (ast equality, so
          formatting and parenthesisation do not matter),
  'slot'  same skeleton (same operators, calls, attribute chains and arity;
          operand order and unary minus are ignored) but a different
          constant, name, argument order or sign: a semantic difference that
          is reported as a violation,
  'shape' a different skeleton: the construct is not recognised; callers
          turn this into ANALYSIS-ERROR (exit 2), never into a violation."""
import ast

from ..model import dotted, canonicalise


def _strip(node):
  return ast.dump(node, annotate_fields=False, include_attributes=False)


def skeleton(node):
  out = []

  def rec(n):
    if isinstance(n, ast.Constant):
      out.append('C')
      return
    if isinstance(n, ast.Name):
      out.append('N')
      return
    if isinstance(n, ast.Attribute):
      d = dotted(n)
      if d and d.split('.')[0] in ('tf', 'np', 'math', 'keras'):
        out.append('A:' + d)
      else:
        out.append('A')
      return
    out.append(type(n).__name__)
    if isinstance(n, ast.BinOp):
      out.append(type(n.op).__name__)
    if isinstance(n, ast.UnaryOp):
      out.append(type(n.op).__name__)
    if isinstance(n, ast.Compare):
      out.extend(type(o).__name__ for o in n.ops)
    if isinstance(n, ast.Call):
      out.append('kw:' + ','.join(sorted(k.arg or '**' for k in n.keywords)))
    for ch in ast.iter_child_nodes(n):
      if isinstance(ch, (ast.expr_context, ast.operator, ast.unaryop,
                         ast.cmpop, ast.boolop)):
        continue
      rec(ch)
  rec(node)
  return tuple(out)


def _bag(sk):
  return sorted(x for x in sk if x not in ('UnaryOp', 'USub'))


def form(node, *expected):
  if node is None:
    return 'shape'
  node = canonicalise(node)
  got = _strip(node)
  sk = skeleton(node)
  slot = False
  for src in expected:
    exp = canonicalise(ast.parse(src, mode='eval')).body
    if _strip(exp) == got:
      return 'ok'
    esk = skeleton(exp)
    if esk == sk or _bag(esk) == _bag(sk):
      # same operators / calls, another constant, name, operand order or
      # sign: a semantic difference
      slot = True
  return 'slot' if slot else 'shape'
