"""S14 - accumulators keep the scope the reference gives them.

A validator that must reject a combination of ITEMS (a feature that is the
main dimension of one trust and the conditional dimension of another; a
repeated pair; a dimension used twice) collects what it has seen in a
container that is created ONCE, before the loop(s) over the items, and tests
it inside or after them.  A refactoring that re-creates the container in the
middle - the initialisation moved into a loop, or the loop split in two with
the initialisation copied in front of each half - makes every test see only
part of the items: combinations across the halves are accepted.

The rule is relative to the reference (tflsa/inventory.json): a local whose
ONLY reference definition is an empty container (`set()`, `[]`, `{}`,
`dict()`, `list()`, `collections.defaultdict(..)`) and that the function
fills (`.add`, `.append`, `.extend`, `.update`, `x[k] = ..`) must, in the
normal form of the current function,
  * be initialised exactly once, and
  * not be initialised inside a loop when the reference initialises it
    outside every loop.
The normal form (helpers inlined, loops over displays of names unrolled)
makes both spellings of the split visible as a second initialisation."""
import ast

from ..model import norm_text

_EMPTY = ('_ = set()', '_ = []', '_ = {}', '_ = dict()', '_ = list()')


def _is_empty_shape(sh):
  return sh in _EMPTY or sh.startswith('_ = collections.defaultdict(')


def _filled(fn_node, name):
  for n in ast.walk(fn_node):
    if isinstance(n, ast.Call) and isinstance(n.func, ast.Attribute) and \
        n.func.attr in ('add', 'append', 'extend', 'update', 'setdefault'):
      v = n.func.value
      while isinstance(v, ast.Subscript):
        v = v.value
      if isinstance(v, ast.Name) and v.id == name:
        return True
    if isinstance(n, ast.Subscript) and isinstance(n.ctx, ast.Store) and \
        isinstance(n.value, ast.Name) and n.value.id == name:
      return True
  return False


def _inits(fn_node, name):
  """[(statement, loop depth)] of the empty-container initialisations"""
  out = []

  def walk(stmts, depth):
    for st in stmts:
      if isinstance(st, ast.Assign) and len(st.targets) == 1 and isinstance(
          st.targets[0], ast.Name) and st.targets[0].id == name:
        sh = '_ = ' + norm_text(st.value)
        if _is_empty_shape(sh):
          out.append((st, depth))
      elif isinstance(st, ast.Assign) and len(st.targets) == 1 and \
          isinstance(st.targets[0], ast.Tuple) and isinstance(
              st.value, ast.Tuple) and len(st.targets[0].elts) == len(
                  st.value.elts):
        # a, b = set(), set()
        for t, v in zip(st.targets[0].elts, st.value.elts):
          if isinstance(t, ast.Name) and t.id == name and _is_empty_shape(
              '_ = ' + norm_text(v)):
            out.append((st, depth))
      if isinstance(st, (ast.For, ast.While)):
        walk(st.body, depth + 1)
        walk(st.orelse, depth)
      elif isinstance(st, ast.If):
        walk(st.body, depth)
        walk(st.orelse, depth)
      elif isinstance(st, (ast.With, ast.Try)):
        walk(getattr(st, 'body', []), depth)
        for h in getattr(st, 'handlers', []):
          walk(h.body, depth)
        walk(getattr(st, 'orelse', []) or [], depth)
        walk(getattr(st, 'finalbody', []) or [], depth)
  walk(fn_node.body, 0)
  return out


def check(prog, res, functions, rule='S14'):
  from .. import inline
  inv = inline.inventory()
  n = 0
  for fn in functions:
    entry = inv.get(fn.module.name, {}).get(fn.qualname.split('.', 1)[1]
                                             if '.' in fn.qualname else '')
    if not entry:
      continue
    defs = entry.get('defs') or {}
    ref_depth = entry.get('init_depth') or {}
    for name, shapes in sorted(defs.items()):
      if len(shapes) != 1 or not _is_empty_shape(shapes[0]):
        continue
      if not _filled(fn.node, name):
        continue
      inits = _inits(fn.node, name)
      if not inits:
        continue          # renamed / restructured away: nothing to say
      n += 1
      key = '%s|%s' % (fn.qualname, name)
      if len(inits) > 1:
        res.violation(rule, key, fn.loc(inits[1][0]),
                      'the accumulator `%s` is created %d times; the '
                      'reference creates it once and tests it across all '
                      'items: combinations that straddle the '
                      're-initialisation are no longer seen' % (
                          name, len(inits)))
        continue
      d0 = ref_depth.get(name)
      if d0 is not None and inits[0][1] > d0:
        res.violation(rule, key, fn.loc(inits[0][0]),
                      'the accumulator `%s` is created inside a loop (depth '
                      '%d); the reference creates it at depth %d and '
                      'accumulates across the iterations' % (
                          name, inits[0][1], d0))
        continue
      res.ok(rule, key, fn.loc(inits[0][0]),
             'accumulator `%s` created once, at the reference scope' % name)
  return n


def init_depths(fn_node):
  """{local: loop depth of its single empty-container initialisation} (for
  the inventory)"""
  out = {}
  names = {n.id for n in ast.walk(fn_node) if isinstance(n, ast.Name) and
           isinstance(n.ctx, ast.Store)}
  for name in names:
    inits = _inits(fn_node, name)
    if len(inits) == 1:
      out[name] = inits[0][1]
  return out
