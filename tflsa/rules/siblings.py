"""CP1 - parallel statements vary consistently.

Code for paired roles (dominant / weak, main / conditional, min / max,
monotonic_dominances / range_dominances ...) is written as two adjacent
statements of identical shape that differ only in identifiers.  A copy of the
first statement in which one occurrence of the varied identifier was NOT
replaced is the classic copy-paste slip (Engler et al.: contradiction between
two sites that state the same belief):

    dom_dim_idx  = range(lattice_sizes[dominant_dim])
    weak_dim_idx = range(lattice_sizes[dominant_dim])      # <- weak_dim

For every pair of adjacent statements (simple or compound) of the same block
whose trees are equal up to identifiers, the identifier words at corresponding
positions define a relation old -> new.  The pair is inconsistent when a word
is replaced at one position (a -> b, b != a) and kept at another (a -> a),
and the first statement does not mention b at all (otherwise both roles
legitimately occur in each statement, as in `lo = f(lo, hi); hi = g(lo, hi)`).
Words are the `_`-separated parts of names, attributes, keyword names and
string constants; a few abbreviations are identified (dom = dominant, cond =
conditional)."""
import ast

from ..model import norm_text

_SYN = {'dom': 'dominant', 'cond': 'conditional'}
# words that name one of two paired roles: kept where its partner was
# substituted is reported at word level; other identifiers only when the
# whole identifier is replaced at two or more positions and kept at another
ROLE_WORDS = {'dominant', 'weak', 'main', 'conditional', 'min', 'max',
              'lower', 'upper', 'left', 'right', 'lhs', 'rhs', 'first',
              'last', 'increasing', 'decreasing', 'minimum', 'maximum',
              'edgeworth', 'trapezoid', 'laplacian', 'torsion', 'l1', 'l2'}


def _tokens(node):
  """identifier tokens in a fixed traversal order, and the shape string"""
  toks = []
  shape = []

  def visit(n):
    if isinstance(n, ast.Name):
      toks.append(n.id)
      shape.append('N')
      return
    if isinstance(n, ast.Attribute):
      shape.append('A(')
      visit(n.value)
      toks.append(n.attr)
      shape.append(')')
      return
    if isinstance(n, ast.Constant):
      if isinstance(n.value, str):
        toks.append(n.value)
        shape.append('S')
      else:
        shape.append('C%r' % (n.value,))
      return
    if isinstance(n, ast.keyword):
      toks.append(n.arg or '**')
      shape.append('K(')
      visit(n.value)
      shape.append(')')
      return
    shape.append(type(n).__name__ + '(')
    for f, v in ast.iter_fields(n):
      if f in ('ctx', 'lineno', 'col_offset', 'end_lineno', 'end_col_offset',
               'type_comment', 'kind'):
        continue
      if isinstance(v, list):
        shape.append('[')
        for x in v:
          if isinstance(x, ast.AST):
            visit(x)
          else:
            shape.append(repr(x))
        shape.append(']')
      elif isinstance(v, ast.AST):
        visit(v)
      elif v is not None:
        shape.append(repr(v))
    shape.append(')')
  visit(node)
  return toks, ''.join(shape)


def _words(tok):
  return [_SYN.get(w.lower(), w.lower()) for w in tok.split('_') if w]


def pair_inconsistency(s1, s2):
  """None, or (word kept, word it is replaced by elsewhere, token position)"""
  t1, sh1 = _tokens(s1)
  t2, sh2 = _tokens(s2)
  if sh1 != sh2 or len(t1) != len(t2) or t1 == t2 or len(t1) < 3:
    return None
  words1 = {w for t in t1 for w in _words(t)} | {t.lower() for t in t1}
  # whole identifiers
  repl = {}
  for a, b in zip(t1, t2):
    if a != b:
      repl.setdefault(a, []).append(b)
  for i, (a, b) in enumerate(zip(t1, t2)):
    if a == b and len(repl.get(a, ())) >= 2 and len(set(repl[a])) == 1 and \
        repl[a][0].lower() not in words1:
      return a, repl[a][0], i
  # role words
  pairs = []
  for a, b in zip(t1, t2):
    wa, wb = _words(a), _words(b)
    if len(wa) == len(wb):
      pairs.extend(zip(wa, wb))
  wrepl = {}
  for a, b in pairs:
    if a != b:
      wrepl.setdefault(a, set()).add(b)
  for i, (a, b) in enumerate(pairs):
    if a == b and a in wrepl and a in ROLE_WORDS:
      new = sorted(wrepl[a])
      if len(new) == 1 and new[0] not in words1 and new[0] in ROLE_WORDS:
        return a, new[0], i
  return None


def check_function(prog, res, fn, rule='CP1', reviewed=None):
  """Returns the number of parallel pairs examined."""
  n = 0
  seen = {}
  for owner in ast.walk(fn.node):
    for f in ('body', 'orelse', 'finalbody'):
      block = getattr(owner, f, None)
      if not (isinstance(block, list) and block and isinstance(
          block[0], ast.stmt)):
        continue
      for s1, s2 in zip(block, block[1:]):
        if type(s1) is not type(s2) or isinstance(
            s1, (ast.FunctionDef, ast.ClassDef, ast.Import, ast.ImportFrom,
                 ast.Pass, ast.Expr)) and not isinstance(s1, ast.Expr):
          continue
        t1, sh1 = _tokens(s1)
        t2, sh2 = _tokens(s2)
        if sh1 != sh2 or t1 == t2 or len(t1) < 3:
          continue
        n += 1
        bad = pair_inconsistency(s1, s2)
        base = '%s|%s' % (fn.qualname, norm_text(s2)[:50])
        idx = seen.get(base, 0)
        seen[base] = idx + 1
        key = base + ('#%d' % (idx + 1) if idx else '')
        if bad is not None and reviewed and (fn.qualname, bad[0],
                                             bad[1]) in reviewed:
          res.ok(rule, key, fn.loc(s2), 'reviewed: %s' % reviewed[
              (fn.qualname, bad[0], bad[1])])
          continue
        res.check(bad is None, rule, key, fn.loc(s2),
                  'parallel to the statement before it, identifiers vary '
                  'consistently',
                  'parallel to `%s`: `%s` becomes `%s` elsewhere in the '
                  'statement but is kept here (`%s`): the copy still refers '
                  'to the other role' % (
                      norm_text(s1)[:60], bad[0] if bad else '',
                      bad[1] if bad else '', norm_text(s2)[:80]))
  return n


_POSITIVE = '''
def f(lattice_sizes, dominant_dim, weak_dim):
  dom_dim_idx = range(lattice_sizes[dominant_dim])
  weak_dim_idx = range(lattice_sizes[dominant_dim])
  return dom_dim_idx, weak_dim_idx
'''
_NEGATIVE = '''
def f(lattice_sizes, dominant_dim, weak_dim, lo, hi):
  dom_dim_idx = range(lattice_sizes[dominant_dim])
  weak_dim_idx = range(lattice_sizes[weak_dim])
  lo = min(lo, hi)
  hi = max(lo, hi)
  return dom_dim_idx, weak_dim_idx
'''


def selfcheck():
  from ..model import AnalysisError
  for src, want in ((_POSITIVE, True), (_NEGATIVE, False)):
    fn = ast.parse(src).body[0]
    found = False
    for s1, s2 in zip(fn.body, fn.body[1:]):
      if pair_inconsistency(s1, s2) is not None:
        found = True
    if found != want:
      raise AnalysisError('CP1 self-check failed (%s example)' % (
          'positive' if want else 'negative'))
