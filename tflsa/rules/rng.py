"""X4 / S8 - RNG discipline: structure is a function of the seed only."""
import ast

from ..model import AnalysisError, dotted, norm_text, walk_no_nested_defs
from ..cfg import CFG, ReachingDefs

UNKNOWN_RNG = ('default_rng', 'Generator', 'SeedSequence', 'get_state',
               'set_state')
FORBIDDEN_EXT = ('time.', 'os.urandom', 'uuid.', 'random.', 'secrets.')
FORBIDDEN_BUILTINS = ('id', 'hash')


def _reads_seed(expr, seed_attrs):
  if expr is None:
    return False
  for n in ast.walk(expr):
    if isinstance(n, ast.Attribute) and n.attr in seed_attrs:
      return True
    if isinstance(n, ast.Name) and n.id in seed_attrs:
      return True
  return False


def check_seed_only(prog, res, qual, rule='X4', seed_attrs=('random_seed',),
                    min_sites=1):
  fn = prog.function(qual)
  res.analysed(fn)
  cfg = CFG(fn.node)
  rd = ReachingDefs(cfg, fn.params)
  seeds = []       # cfg node ids of np.random.seed(<seed>)
  sites = 0
  calls = [c for c in ast.walk(fn.node) if isinstance(c, ast.Call)]
  # pass 1: seeding calls
  for c in calls:
    ext = prog.ext_name(fn.module, c.func)
    if ext == 'np.random.seed':
      nid = cfg.node_containing(c)
      good = bool(c.args or c.keywords) and _reads_seed(
          c.args[0] if c.args else c.keywords[0].value, seed_attrs)
      res.check(good, rule, '%s|seed@%s' % (qual, _k(c)), fn.loc(c),
                'global RNG seeded from %s' % '/'.join(seed_attrs),
                'np.random.seed argument %s does not come from the '
                'configured seed' % norm_text(c)[:60])
      sites += 1
      if good and nid is not None:
        seeds.append(nid)
  # pass 2: draws
  for c in calls:
    ext = prog.ext_name(fn.module, c.func)
    key = '%s|%s' % (qual, _k(c))
    if ext and ext.startswith('np.random.'):
      op = ext.split('.')[-1]
      if op == 'seed':
        continue
      if op in UNKNOWN_RNG:
        raise AnalysisError('%s: RNG idiom %s is not modelled' % (
            fn.loc(c), ext))
      sites += 1
      if op == 'RandomState':
        arg = c.args[0] if c.args else (
            c.keywords[0].value if c.keywords else None)
        res.check(_reads_seed(arg, seed_attrs), rule, key, fn.loc(c),
                  'RandomState built from the configured seed',
                  'RandomState is not built from the configured seed (%s): '
                  'structure differs between builds' % norm_text(c))
      else:
        nid = cfg.node_containing(c)
        good = nid is not None and any(cfg.dominates(s, nid) and s != nid
                                       for s in seeds)
        res.check(good, rule, key, fn.loc(c),
                  'global draw %s dominated by np.random.seed(seed)' % op,
                  'global draw %s is not preceded on every path by '
                  'np.random.seed(<configured seed>)' % ext)
      continue
    if ext and (ext.startswith('tf.random.') or any(
        ext.startswith(p) for p in FORBIDDEN_EXT)):
      sites += 1
      seeded = any(kw.arg == 'seed' and _reads_seed(kw.value, seed_attrs)
                   for kw in c.keywords)
      res.check(seeded, rule, key, fn.loc(c), 'seeded draw',
                'non-deterministic source %s in a structure function' % ext)
      continue
    d = dotted(c.func)
    if d in FORBIDDEN_BUILTINS:
      sites += 1
      res.violation(rule, key, fn.loc(c),
                    'process-dependent builtin %s() in a structure function' % d)
      continue
    # method on a RandomState variable
    if isinstance(c.func, ast.Attribute) and isinstance(c.func.value, ast.Name):
      var = c.func.value.id
      nid = cfg.node_containing(c)
      if nid is None:
        continue
      defs = rd.def_exprs(nid, var)
      is_rs = [v is not None and isinstance(v, ast.Call) and prog.ext_name(
          fn.module, v.func) == 'np.random.RandomState' for _, v in defs]
      if defs and any(is_rs):
        sites += 1
        good = all(is_rs) and all(
            _reads_seed(v.args[0] if v.args else None, seed_attrs)
            for _, v in defs)
        res.check(good, rule, key, fn.loc(c),
                  'draw from the seeded RandomState %s' % var,
                  '%s may be an unseeded RandomState here' % var)
  if sites < min_sites:
    raise AnalysisError('%s: expected at least %d RNG sites, found %d' % (
        qual, min_sites, sites))
  return sites


def _k(call):
  return norm_text(call.func)
