"""V4 - validator <-> implementation shape agreement by symbolic last-dimension
propagation.  Sizes are affine forms over integer symbols; configuration
flags are concrete (all discrete call forms are enumerated); tests that depend
on tensor ranks / unit broadcasting are executed both ways and must agree."""
import ast
import copy

from ..model import AnalysisError, dotted, norm_text, const_value, is_none


class Aff(object):
  """c + sum coef*symbol"""

  def __init__(self, c=0, terms=None):
    self.c = c
    self.t = dict(terms or {})

  def __add__(self, o):
    o = aff(o)
    t = dict(self.t)
    for k, v in o.t.items():
      t[k] = t.get(k, 0) + v
    return Aff(self.c + o.c, {k: v for k, v in t.items() if v})

  def __sub__(self, o):
    o = aff(o)
    return self + Aff(-o.c, {k: -v for k, v in o.t.items()})

  def __eq__(self, o):
    o = aff(o)
    return self.c == o.c and self.t == o.t

  def __hash__(self):
    return hash((self.c, tuple(sorted(self.t.items()))))

  def is_const(self):
    return not self.t

  def __repr__(self):
    s = ' + '.join('%s%s' % ('' if v == 1 else '%d*' % v, k)
                   for k, v in sorted(self.t.items()))
    if self.c or not s:
      s = (s + ' + ' if s else '') + str(self.c)
    return s.replace('+ -', '- ')


def aff(x):
  if isinstance(x, Aff):
    return x
  if isinstance(x, bool):
    return Aff(int(x))
  if isinstance(x, int):
    return Aff(x)
  raise AnalysisError('not an integer size: %r' % (x,))


class T(object):
  """a tensor value: last-dimension size (Aff) or None when rank-reduced /
  scalar-like; `sym` names a tensor-valued parameter."""

  def __init__(self, last):
    self.last = last

  def __repr__(self):
    return 'T[..., %s]' % (self.last,)


UNKNOWN = object()


class Interp(object):
  """Interprets one function body for a concrete configuration `cfg`
  (name -> python value) and symbolic tensor parameters (name -> T)."""

  def __init__(self, prog, fn, cfg, tensors, helpers=None):
    self.prog = prog
    self.fn = fn
    self.cfg = dict(cfg)
    self.env = dict(tensors)
    self.events = []      # (kind, node, data)
    self.raised = None
    self.helpers = helpers or {}

  # -- expressions -------------------------------------------------------
  def val(self, e):
    """python value (config), T (tensor), Aff (size) or UNKNOWN"""
    if isinstance(e, ast.Constant):
      return e.value
    c = const_value(e, default=UNKNOWN)
    if c is not UNKNOWN:
      return c
    if isinstance(e, ast.Name):
      if e.id in self.env:
        return self.env[e.id]
      if e.id in self.cfg:
        return self.cfg[e.id]
      return UNKNOWN
    if isinstance(e, ast.Attribute):
      d = dotted(e)
      if d == 'tf.newaxis':
        return 'newaxis'
      if e.attr == 'shape':
        v = self.val(e.value)
        if isinstance(v, T):
          return ('shape', v)
      return UNKNOWN
    if isinstance(e, ast.Subscript):
      v = self.val(e.value)
      if isinstance(v, tuple) and v and v[0] == 'shape':
        idx = const_value(e.slice)
        if idx == -1:
          return v[1].last if v[1].last is not None else UNKNOWN
        return UNKNOWN
      if isinstance(v, T):
        return self.slice(v, e.slice)
      return UNKNOWN
    if isinstance(e, ast.UnaryOp) and isinstance(e.op, ast.Not):
      t = self.truth(e.operand)
      return UNKNOWN if t is UNKNOWN else (not t)
    if isinstance(e, ast.UnaryOp) and isinstance(e.op, ast.USub):
      v = self.val(e.operand)
      if isinstance(v, T):
        return v
      if isinstance(v, (int, float)):
        return -v
      return UNKNOWN
    if isinstance(e, ast.BinOp):
      l, r = self.val(e.left), self.val(e.right)
      if isinstance(l, T) or isinstance(r, T):
        return self.broadcast(l, r, e)
      if isinstance(l, (Aff, int, bool)) and isinstance(r, (Aff, int, bool)) \
          and not isinstance(l, float) and not isinstance(r, float):
        if isinstance(e.op, ast.Add):
          return aff(l) + aff(r)
        if isinstance(e.op, ast.Sub):
          return aff(l) - aff(r)
      if isinstance(l, (int, float)) and isinstance(r, (int, float)):
        try:
          return eval(compile(ast.Expression(body=ast.BinOp(
              left=ast.Constant(l), op=e.op, right=ast.Constant(r))),
                              '<c>', 'eval'))
        except Exception:
          return UNKNOWN
      return UNKNOWN
    if isinstance(e, (ast.Compare, ast.BoolOp)):
      return self.truth(e)
    if isinstance(e, ast.IfExp):
      t = self.truth(e.test)
      if t is UNKNOWN:
        a, b = self.val(e.body), self.val(e.orelse)
        return a if _same(a, b) else UNKNOWN
      return self.val(e.body if t else e.orelse)
    if isinstance(e, ast.Call):
      return self.call(e)
    if isinstance(e, ast.Tuple):
      return tuple(self.val(x) for x in e.elts)
    if isinstance(e, ast.List):
      return [self.val(x) for x in e.elts]
    return UNKNOWN

  def slice(self, t, sl):
    """tensor[...] -> new last dim"""
    items = sl.elts if isinstance(sl, ast.Tuple) else [sl]
    last = items[-1]
    if len(items) == 1 and not isinstance(sl, ast.Tuple):
      # x[a:b] on the first axis: last dim unchanged
      return T(t.last)
    if any(dotted(i) == 'tf.newaxis' for i in items):
      if isinstance(last, ast.Slice) and last.lower is None and \
          last.upper is None:
        return T(t.last)
      return UNKNOWN
    if isinstance(last, ast.Slice):
      lo = const_value(last.lower) if last.lower is not None else None
      hi = const_value(last.upper) if last.upper is not None else None
      if last.step is not None:
        return UNKNOWN
      if lo is None and hi is None:
        return T(t.last)
      if lo is None and isinstance(hi, int):
        return T(Aff(hi)) if hi >= 0 else T(t.last + hi)
      if hi is None and isinstance(lo, int):
        return T(t.last - lo) if lo >= 0 else T(Aff(-lo))
      return UNKNOWN
    idx = const_value(last)
    if isinstance(idx, int):
      return T(None)     # last axis dropped
    return UNKNOWN

  def broadcast(self, l, r, node):
    sizes = [x.last for x in (l, r) if isinstance(x, T)]
    if len(sizes) == 2 and sizes[0] is not None and sizes[1] is not None:
      a, b = sizes
      if a == b:
        return T(a)
      if a == Aff(1):
        return T(b)
      if b == Aff(1):
        return T(a)
      self.events.append(('broadcast-mismatch', node, (a, b)))
      return T(a)
    for s in sizes:
      if s is not None:
        return T(s)
    return T(None)

  def truth(self, e):
    if isinstance(e, ast.BoolOp):
      vals = [self.truth(v) for v in e.values]
      if isinstance(e.op, ast.And):
        if any(v is False for v in vals):
          return False
        if all(v is True for v in vals):
          return True
        return UNKNOWN
      if any(v is True for v in vals):
        return True
      if all(v is False for v in vals):
        return False
      return UNKNOWN
    if isinstance(e, ast.UnaryOp) and isinstance(e.op, ast.Not):
      t = self.truth(e.operand)
      return UNKNOWN if t is UNKNOWN else (not t)
    if isinstance(e, ast.Compare) and len(e.ops) == 1:
      op = e.ops[0]
      l, r = self.val(e.left), self.val(e.comparators[0])
      if isinstance(op, (ast.Is, ast.IsNot)):
        if isinstance(l, T):
          l = 'tensor'
        if l is UNKNOWN or r is UNKNOWN:
          return UNKNOWN
        res = l is r
        return res if isinstance(op, ast.Is) else (not res)
      if isinstance(l, Aff) or isinstance(r, Aff):
        if isinstance(l, (Aff, int)) and isinstance(r, (Aff, int)) and not \
            isinstance(l, bool) and not isinstance(r, bool):
          d = aff(l) - aff(r)
          if d.is_const():
            return _cmp(d.c, op, 0)
          self.events.append(('symbolic-test', e, d))
        return UNKNOWN
      if l is UNKNOWN or r is UNKNOWN or isinstance(l, T) or isinstance(r, T):
        return UNKNOWN
      try:
        if isinstance(op, ast.In):
          return l in r
        if isinstance(op, ast.NotIn):
          return l not in r
        return _cmp(l, op, r)
      except TypeError:
        return UNKNOWN
    v = self.val(e)
    if v is UNKNOWN or isinstance(v, (T, Aff)):
      return UNKNOWN
    return bool(v)

  def call(self, c):
    ext = self.prog.ext_name(self.fn.module, c.func) or ''
    args = c.args
    kw = {k.arg: k.value for k in c.keywords}
    d = dotted(c.func) or ''
    if d in self.helpers:
      return self.helpers[d](self, c)
    r = self.prog.resolve_call(self.fn, c)
    from ..model import FunctionInfo, call_args
    if isinstance(r, FunctionInfo) and r.cls is None and r.module is \
        self.fn.module and r is not self.fn:
      bound, _, _ = call_args(c, r.all_params)
      sub = Interp(self.prog, r, {}, {}, self.helpers)
      for p in r.all_params:
        if p in bound:
          v = self.val(bound[p])
        elif p in r.defaults:
          v = self.val(r.defaults[p])
        else:
          v = UNKNOWN
        if isinstance(v, T) or v is UNKNOWN:
          sub.env[p] = v
        else:
          sub.cfg[p] = v
      outs = sub.run(r.node.body)
      vals = []
      for o in outs:
        self.events.extend(e for e in o.events if e[0] != 'return')
        for e in o.events:
          if e[0] == 'return':
            vals.append(e[2])
      if vals and all(_same(v, vals[0]) for v in vals):
        return vals[0]
      return UNKNOWN
    if d == 'len':
      v = self.val(args[0])
      return UNKNOWN
    if ext in ('tf.zeros', 'tf.ones', 'tf.fill'):
      shp = self.val(args[0])
      if isinstance(shp, tuple) and shp and shp[0] != 'shape':
        last = shp[-1]
        if isinstance(last, (int, Aff)) and not isinstance(last, bool):
          return T(aff(last))
      if isinstance(shp, tuple) and shp and shp[0] == 'shape':
        return T(shp[1].last)
      return UNKNOWN
    if ext in ('tf.math.divide_no_nan', 'tf.math.divide', 'tf.divide',
               'tf.multiply', 'tf.add', 'tf.subtract', 'tf.maximum',
               'tf.minimum'):
      l, r = self.val(args[0]), self.val(args[1])
      if isinstance(l, T) or isinstance(r, T):
        return self.broadcast(l, r, c)
      return UNKNOWN
    if ext in ('tf.nn.softmax', 'tf.sigmoid', 'tf.math.sigmoid', 'tf.exp',
               'tf.nn.relu6', 'tf.nn.relu', 'tf.abs', 'tf.identity',
               'tf.clip_by_value', 'tf.math.log', 'tf.tanh'):
      v = self.val(args[0])
      return v if isinstance(v, T) else UNKNOWN
    if ext == 'tf.pad':
      v = self.val(args[0])
      pads = kw.get('paddings', args[1] if len(args) > 1 else None)
      if isinstance(v, T) and v.last is not None and isinstance(
          pads, ast.List) and isinstance(pads.elts[-1], ast.List):
        a, b = [const_value(x) for x in pads.elts[-1].elts]
        if isinstance(a, int) and isinstance(b, int):
          return T(v.last + (a + b))
      return UNKNOWN
    if ext == 'tf.cumsum':
      v = self.val(args[0])
      return v if isinstance(v, T) else UNKNOWN
    if ext == 'tf.tile':
      v = self.val(args[0])
      mult = args[1]
      if isinstance(v, T) and isinstance(mult, ast.List) and const_value(
          mult.elts[-1]) == 1:
        return T(v.last)
      if isinstance(v, T) and isinstance(mult, ast.List):
        return T(None)   # tiling the last axis by `units`: rank-2 inputs
      return UNKNOWN
    if ext == 'tf.reshape':
      shp = kw.get('shape', args[1] if len(args) > 1 else None)
      if isinstance(shp, (ast.Tuple, ast.List)):
        last = self.val(shp.elts[-1])
        if isinstance(last, (int, Aff)) and not isinstance(last, bool) and \
            last != -1:
          return T(aff(last))
      return UNKNOWN
    if ext == 'tf.concat':
      ax = const_value(kw.get('axis', args[1] if len(args) > 1 else None))
      parts = args[0]
      if ax == -1 and isinstance(parts, ast.List):
        total = Aff(0)
        for p in parts.elts:
          v = self.val(p)
          if not isinstance(v, T) or v.last is None:
            return UNKNOWN
          total = total + v.last
        return T(total)
      return UNKNOWN
    if ext == 'tf.reduce_sum':
      v = self.val(args[0])
      ax = const_value(kw.get('axis', args[1] if len(args) > 1 else None))
      if isinstance(v, T) and ax == -1:
        self.events.append(('reduce-last', c, v.last))
        return T(None)
      return UNKNOWN
    if ext in ('tf.where', 'tf.equal'):
      return T(None)
    return UNKNOWN

  # -- statements --------------------------------------------------------
  def run(self, stmts):
    """returns list of final interpreter states (branches on unknown shape
    tests are forked)."""
    states = [self]
    for st in stmts:
      nxt = []
      for s in states:
        if s.raised is not None or getattr(s, 'returned', False):
          nxt.append(s)
          continue
        nxt.extend(s.step(st))
      states = nxt
    return states

  def fork(self):
    o = Interp(self.prog, self.fn, self.cfg, self.env, self.helpers)
    o.events = list(self.events)
    o.raised = self.raised
    return o

  def step(self, st):
    if isinstance(st, ast.Expr):
      if isinstance(st.value, ast.Call):
        self.val(st.value)
      return [self]
    if isinstance(st, ast.Assign):
      v = self.val(st.value)
      for t in st.targets:
        if isinstance(t, ast.Name):
          if isinstance(v, T):
            self.env[t.id] = v
            self.cfg.pop(t.id, None)
          elif v is UNKNOWN:
            self.env.pop(t.id, None)
            self.cfg.pop(t.id, None)
            self.env[t.id] = UNKNOWN
          else:
            self.cfg[t.id] = v
            self.env.pop(t.id, None)
      return [self]
    if isinstance(st, ast.If):
      t = self.truth(st.test)
      if t is UNKNOWN:
        a = self.fork()
        b = self.fork()
        return a.run(st.body) + b.run(st.orelse)
      return self.run(st.body if t else st.orelse)
    if isinstance(st, ast.Raise):
      self.raised = st
      return [self]
    if isinstance(st, ast.Return):
      self.returned = True
      self.events.append(('return', st, self.val(st.value) if st.value
                          is not None else None))
      return [self]
    return [self]


def _same(a, b):
  if isinstance(a, T) and isinstance(b, T):
    return a.last == b.last
  return a is b or (type(a) is type(b) and a == b)


def _cmp(l, op, r):
  if isinstance(op, ast.Eq):
    return l == r
  if isinstance(op, ast.NotEq):
    return l != r
  if isinstance(op, ast.Lt):
    return l < r
  if isinstance(op, ast.LtE):
    return l <= r
  if isinstance(op, ast.Gt):
    return l > r
  if isinstance(op, ast.GtE):
    return l >= r
  return UNKNOWN
