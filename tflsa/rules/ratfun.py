"""Multivariate rational functions with Fraction coefficients, compared by
cross-multiplication of normal-form polynomials (no CAS, no solver)."""
import ast
from fractions import Fraction

from ..model import AnalysisError, dotted, norm_text, const_value


class Poly(object):
  """dict: monomial (sorted tuple of (symbol, power)) -> Fraction"""
  __slots__ = ('t',)

  def __init__(self, terms=None):
    self.t = {m: Fraction(c) for m, c in (terms or {}).items() if c != 0}

  @staticmethod
  def const(c):
    return Poly({(): c})

  @staticmethod
  def sym(name):
    return Poly({((name, 1),): 1})

  def __add__(self, o):
    t = dict(self.t)
    for m, c in o.t.items():
      t[m] = t.get(m, 0) + c
    return Poly(t)

  def __neg__(self):
    return Poly({m: -c for m, c in self.t.items()})

  def __sub__(self, o):
    return self + (-o)

  def __mul__(self, o):
    t = {}
    for m1, c1 in self.t.items():
      for m2, c2 in o.t.items():
        d = dict(m1)
        for s, p in m2:
          d[s] = d.get(s, 0) + p
        m = tuple(sorted(d.items()))
        t[m] = t.get(m, 0) + c1 * c2
    return Poly(t)

  def is_zero(self):
    return not self.t

  def __eq__(self, o):
    return self.t == o.t

  def subs(self, name, poly):
    out = Poly()
    for m, c in self.t.items():
      term = Poly.const(c)
      for s, p in m:
        base = poly if s == name else Poly.sym(s)
        for _ in range(p):
          term = term * base
      out = out + term
    return out

  def __repr__(self):
    if not self.t:
      return '0'
    parts = []
    for m, c in sorted(self.t.items()):
      mono = '*'.join(s if p == 1 else '%s^%d' % (s, p) for s, p in m)
      parts.append(('%s*%s' % (c, mono)) if mono and c != 1 else (
          mono or str(c)))
    return ' + '.join(parts).replace('+ -', '- ')


class Rat(object):
  __slots__ = ('n', 'd')

  def __init__(self, n, d=None):
    self.n = n
    self.d = d if d is not None else Poly.const(1)

  @staticmethod
  def const(c):
    return Rat(Poly.const(c))

  @staticmethod
  def sym(name):
    return Rat(Poly.sym(name))

  def __add__(self, o):
    return Rat(self.n * o.d + o.n * self.d, self.d * o.d)

  def __neg__(self):
    return Rat(-self.n, self.d)

  def __sub__(self, o):
    return self + (-o)

  def __mul__(self, o):
    return Rat(self.n * o.n, self.d * o.d)

  def __truediv__(self, o):
    if o.n.is_zero():
      raise AnalysisError('division by the zero polynomial')
    return Rat(self.n * o.d, self.d * o.n)

  def equals(self, o):
    return (self.n * o.d - o.n * self.d).is_zero()

  def subs(self, name, rat):
    # only polynomial substitution is needed here
    if not rat.d == Poly.const(1):
      raise AnalysisError('substitution of a proper rational function')
    return Rat(self.n.subs(name, rat.n), self.d.subs(name, rat.n))

  def __repr__(self):
    if self.d == Poly.const(1):
      return repr(self.n)
    return '(%r) / (%r)' % (self.n, self.d)


def eval_expr(e, env):
  """Evaluates a Python arithmetic expression over Rat values; names are
  looked up in env (name -> Rat)."""
  if isinstance(e, ast.Constant) and isinstance(e.value, (int, float)) and \
      not isinstance(e.value, bool):
    return Rat.const(Fraction(e.value).limit_denominator(10 ** 9))
  if isinstance(e, ast.UnaryOp) and isinstance(e.op, ast.USub):
    return -eval_expr(e.operand, env)
  d = dotted(e)
  if d is not None:
    if d in env:
      return env[d]
    raise AnalysisError('symbol %s is not bound in the rational evaluation' %
                        d)
  if isinstance(e, ast.BinOp):
    l, r = eval_expr(e.left, env), eval_expr(e.right, env)
    if isinstance(e.op, ast.Add):
      return l + r
    if isinstance(e.op, ast.Sub):
      return l - r
    if isinstance(e.op, ast.Mult):
      return l * r
    if isinstance(e.op, ast.Div):
      return l / r
  raise AnalysisError('expression %s is outside the rational subset' %
                      norm_text(e)[:60])
