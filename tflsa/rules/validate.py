"""V rules: validator coverage (V1), total dispatch (V2), synonym handling
(V3), guarded probes (V6), configuration raises at projection time (V7)."""
import ast

from ..model import (AnalysisError, FunctionInfo, orelse_view, ClassInfo, dotted, norm_text,
                     names_read, call_args, const_value, is_none,
                     walk_no_nested_defs)
from ..cfg import CFG, ReachingDefs, structural_guards, _terminates, _path_to


def _always_raises(stmts):
  if not stmts:
    return False
  last = stmts[-1]
  if isinstance(last, ast.Raise):
    return True
  if isinstance(last, ast.If) and last.orelse:
    return _always_raises(last.body) and _always_raises(last.orelse)
  return False


def _var_text(e):
  """Normalised text of the dispatched-on expression (x, x.lower(),
  self.x, cfg.x)."""
  if isinstance(e, ast.Call) and isinstance(e.func, ast.Attribute) and \
      e.func.attr in ('lower', 'upper', 'strip') and not e.args:
    return _var_text(e.func.value)
  return dotted(e)


def _literals(e):
  """Set of str/int/None literals of a literal or literal container."""
  if isinstance(e, ast.Constant):
    return {e.value}
  v = const_value(e, default=AnalysisError)
  if v is not AnalysisError:
    return {v}
  if isinstance(e, (ast.List, ast.Tuple, ast.Set)):
    out = set()
    for x in e.elts:
      s = _literals(x)
      if s is None:
        return None
      out |= s
    return out
  d = dotted(e)
  if d and d.split('.')[-1].isupper():
    return {'<%s>' % d.split('.')[-1]}   # enum member such as bct.CLAMPED
  return None


def _test_literals(test, var):
  """(positive literal set, negative literal set) a test of `var` matches,
  or None when the test is not a literal comparison of var."""
  if isinstance(test, ast.Compare) and len(test.ops) == 1:
    l, op, r = test.left, test.ops[0], test.comparators[0]
    if _var_text(l) == var:
      lits = _literals(r)
    elif _var_text(r) == var and isinstance(op, (ast.Eq, ast.NotEq)):
      lits = _literals(l)
    else:
      return None
    if lits is None:
      return None
    if isinstance(op, (ast.Eq, ast.In, ast.Is)):
      return (lits, set())
    if isinstance(op, (ast.NotEq, ast.NotIn, ast.IsNot)):
      return (set(), lits)
    return None
  if isinstance(test, ast.BoolOp) and isinstance(test.op, ast.Or):
    pos = set()
    for v in test.values:
      r = _test_literals(v, var)
      if r is None or r[1]:
        return None
      pos |= r[0]
    return (pos, set())
  if isinstance(test, ast.BoolOp) and isinstance(test.op, ast.And):
    neg = set()
    for v in test.values:
      r = _test_literals(v, var)
      if r is None or r[0]:
        return None
      neg |= r[1]
    return (set(), neg)
  return None


class Chain(object):

  def __init__(self, var, node):
    self.var = var
    self.node = node
    self.handled = set()
    self.total = False         # everything else raises / is handled by else
    self.else_kind = None      # raise | body | none


def dispatch_chains(fn_node):
  """if/elif chains that compare one expression with literals in >= 1 test.
  Yields Chain objects (only the head If of each chain)."""
  heads = []
  elifs = set()
  orelse_of = orelse_view(fn_node)

  for n in ast.walk(fn_node):
    if isinstance(n, ast.If) and len(n.orelse) == 1 and isinstance(
        n.orelse[0], ast.If):
      elifs.add(id(n.orelse[0]))
  for n in ast.walk(fn_node):
    if isinstance(n, ast.If) and id(n) not in elifs:
      heads.append(n)
  heads.sort(key=lambda n: (n.lineno, n.col_offset))
  consumed = set()
  for h in heads:
    if id(h) in consumed:
      continue
    var = None
    t = h.test
    if isinstance(t, ast.Compare) and len(t.ops) == 1:
      for side in (t.left, t.comparators[0]):
        v = _var_text(side)
        if v and _test_literals(t, v) is not None:
          var = v
          break
    elif isinstance(t, ast.BoolOp):
      for sub in ast.walk(t):
        if isinstance(sub, ast.Compare) and len(sub.ops) == 1:
          v = _var_text(sub.left)
          if v and _test_literals(t, v) is not None:
            var = v
            break
    if var is None:
      continue
    ch = Chain(var, h)
    ch.arms = []
    ch.else_body = []
    cur = h
    ok = True
    remaining_raise = False
    while True:
      r = _test_literals(cur.test, var)
      if r is None:
        ok = False
        break
      pos, neg = r
      if pos:
        if _always_raises(cur.body):
          pass   # rejected spellings
        else:
          ch.handled |= pos
      else:
        # `x != lit` / `x not in lits`
        if _always_raises(cur.body):
          ch.handled |= neg
          remaining_raise = True
        else:
          ch.handled |= {'<other than %s>' % sorted(map(str, neg))}
      ch.arms.append(cur)
      oe = orelse_of(cur)
      if oe and isinstance(oe[0], ast.If) and (
          len(oe) == 1 or not cur.orelse) and _test_literals(
              oe[0].test, var) is not None:
        cur = oe[0]
        consumed.add(id(cur))
        continue
      if not cur.orelse and _always_raises(cur.body):
        # `if x not in (...): raise` followed by the rest of the function is
        # a guard, not a two-armed dispatch
        oe = []
      ch.else_body = oe
      if oe:
        ch.else_kind = 'raise' if _always_raises(oe) else 'body'
      else:
        ch.else_kind = 'none'
      break
    if not ok:
      continue
    ch.total = remaining_raise or ch.else_kind in ('raise', 'body')
    yield ch


def check_dispatch(prog, res, fn, var, rule='V2', allowed_else_body=None,
                   validated=None, key=None):
  """Every literal dispatch on `var` in fn either ends in raise ValueError
  (else_kind raise), or has a plain else that deliberately handles the rest
  (allowed_else_body gives the reason), or handles exactly the set a
  validator accepted earlier (validated = set of literals)."""
  n = 0
  for ch in dispatch_chains(fn.node):
    if ch.var != var:
      continue
    n += 1
    k = key or '%s|%s' % (fn.qualname, var)
    if n > 1:
      k += '#%d' % n
    if ch.else_kind == 'raise' or (ch.total and ch.else_kind != 'body'):
      res.ok(rule, k, fn.loc(ch.node),
             'dispatch on %s handles %s, anything else raises' % (
                 var, sorted(map(str, ch.handled))))
    elif ch.else_kind == 'body' and allowed_else_body:
      res.ok(rule, k, fn.loc(ch.node),
             'dispatch on %s: else branch allowed (%s)' % (
                 var, allowed_else_body))
    elif validated is not None and set(map(str, validated)) <= set(
        map(str, ch.handled)):
      res.ok(rule, k, fn.loc(ch.node),
             'dispatch on %s covers the validated set %s' % (
                 var, sorted(map(str, validated))))
    else:
      res.violation(rule, k, fn.loc(ch.node),
                    'dispatch on %s handles %s and silently ignores any other '
                    'value (no raise, no validated set)' % (
                        var, sorted(map(str, ch.handled))))
  return n


# ---------------------------------------------------------------------------
# V1 - validator coverage
def is_validator(fn):
  return isinstance(fn, FunctionInfo) and fn.cls is None and (
      fn.name.startswith('verify_') or fn.name.startswith('_verify_'))


def validator_calls(prog, fn):
  """[(call, validator FunctionInfo)] in fn."""
  out = []
  for c in ast.walk(fn.node):
    if isinstance(c, ast.Call):
      r = prog.resolve_call(fn, c)
      if is_validator(r):
        out.append((c, r))
  return out


class _Guards(frozenset):
  """own hyper-parameter names read by the structural guards of a call; the
  guard tests themselves are kept for evaluation."""
  tests = ()
  fn = None


def _guard_reads(m, call, own_params):
  from ..cfg import structural_guards
  out = set()
  tests = []
  for t, pol in structural_guards(m.node, call) or []:
    hit = False
    for r in names_read(t):
      name = r[5:] if r.startswith('self.') else r
      if name in own_params:
        out.add(name)
        hit = True
    if hit:
      tests.append((t, pol))
  g = _Guards(out)
  g.tests = tuple(tests)
  g.fn = m
  return g


def _guard_holds_when_set(prog, g, p):
  """True when every guard test holds in each state in which p is given and
  all other hyper-parameters the guards read are left unset."""
  from .guards import Logic, Val, TYPE_STATES, atom_type
  if not g.tests:
    return True
  others = sorted(set(g) - {p})
  typ = atom_type(p)
  if typ == 'opaque':
    return False
  unset = {'bound': 'none', 'list': 'none', 'tuples': 'none', 'sign': 'none',
           'flag': 'false', 'count': 'zero'}
  for st in TYPE_STATES[typ]:
    if st in ('none', 'false', 'empty'):
      continue
    env = {}
    for nm in [p] + others:
      t = atom_type(nm)
      if t == 'opaque':
        return False
      v = Val(t, st if nm == p else unset[t])
      env[nm] = v
      env['self.' + nm] = v
    lg = Logic(prog, g.fn, env)
    for test, pol in g.tests:
      tv = lg.truth(test)
      if tv is None or tv != pol:
        return False
  return True


def validated_params(prog, cls, methods=('__init__', 'build'), depth=0):
  """{validator param: [(where, value expr)]} over all validator calls that
  run when an instance of cls is constructed / built, including validators
  run by the constructors of repo classes that cls builds with forwarded
  arguments.  Values are traced back to cls's own parameter / attribute
  names: result maps *own names* (ctor parameter names) -> evidence."""
  own = {}
  init = cls.find_method('__init__')
  if init is None:
    return own
  own_params = set(init.all_params)
  for mname in methods:
    m = cls.find_method(mname)
    if m is None:
      continue
    for call, v in validator_calls(prog, m):
      bound, _, _ = call_args(call, v.all_params)
      gr = _guard_reads(m, call, own_params)
      for p, val in bound.items():
        for r in names_read(val):
          name = r[5:] if r.startswith('self.') else r
          if name in own_params:
            own.setdefault(name, []).append(
                ('%s->%s(%s=)' % (m.qualname, v.qualname, p), p, gr))
    if depth < 2:
      for c in ast.walk(m.node):
        if not isinstance(c, ast.Call):
          continue
        r = prog.resolve_call(m, c)
        if isinstance(r, ClassInfo) and r is not cls and r.find_method(
            '__init__') is not None:
          sub = validated_params(prog, r, ('__init__',), depth + 1)
          rinit = r.find_method('__init__')
          bound, _, _ = call_args(c, rinit.all_params)
          gr = _guard_reads(m, c, own_params)
          for p, val in bound.items():
            if p in sub:
              for rd in names_read(val):
                name = rd[5:] if rd.startswith('self.') else rd
                if name in own_params:
                  own.setdefault(name, []).append(
                      ('%s->%s(%s=)' % (m.qualname, r.qualname, p), p, gr))
  return own


def check_validator_belief(prog, res, cls, validator, rule='V1', aliases=None,
                           exempt=None):
  """A class that calls `validator` believes its hyperparameters need that
  validation: every constructor parameter of cls that the validator accepts
  (same name or alias) must reach it on the construct/build path."""
  aliases = aliases or {}
  exempt = exempt or {}
  init = cls.find_method('__init__')
  got = validated_params(prog, cls)
  n = 0
  for p in init.all_params:
    vp = aliases.get(p, p)
    if vp not in validator.all_params:
      continue
    n += 1
    key = '%s|%s' % (cls.qualname, p)
    if p in exempt:
      res.ok(rule, key, init.loc(), 'exempt: ' + exempt[p])
      continue
    ev = got.get(p)
    # evidence under a guard that tests OTHER hyper-parameters only validates
    # p in some configurations
    free = [e for e in (ev or []) if e[2] <= {p} or
            _guard_holds_when_set(prog, e[2], p)]
    if ev and not free:
      others = sorted(set().union(*[e[2] for e in ev]) - {p})
      res.violation(rule, key, init.loc(),
                    'constructor parameter %r of %s reaches %s only through '
                    '%s, which runs only when %s is set: with those left at '
                    'their defaults an invalid %s is accepted' % (
                        p, cls.name, validator.qualname, ev[0][0],
                        ' / '.join(others), p))
      continue
    res.check(bool(ev), rule, key, init.loc(),
              'validated via %s' % (free[0][0] if free else ''),
              'constructor parameter %r of %s is accepted by %s but is never '
              'passed to it during construction or build: invalid values are '
              'not rejected up front' % (p, cls.name, validator.qualname))
  return n


def sibling_groups(prog, fn):
  """Groups of repo classes constructed in different branches of one literal
  dispatch chain inside fn."""
  groups = []
  for ch in dispatch_chains(fn.node):
    classes = []
    cur = ch.node
    while True:
      found = []
      for st in cur.body:
        for c in ast.walk(st):
          if isinstance(c, ast.Call):
            r = prog.resolve_call(fn, c)
            if isinstance(r, ClassInfo):
              found.append(r)
      classes.append(found)
      if len(cur.orelse) == 1 and isinstance(cur.orelse[0], ast.If):
        cur = cur.orelse[0]
      else:
        break
    flat = []
    for f in classes:
      for c in f:
        if c not in flat:
          flat.append(c)
    kinds = {c.kind for c in flat}
    if (len(flat) >= 2 and sum(1 for f in classes if f) >= 2
        and len(kinds) == 1 and kinds <= {'Regularizer', 'Initializer',
                                          'Constraint'}):
      groups.append((ch, flat))
  return groups


def check_siblings(prog, res, fn, rule='V1s'):
  """Classes selected by the same dispatch validate the same shared
  constructor parameters."""
  n = 0
  for ch, classes in sibling_groups(prog, fn):
    vals = {c: set(validated_params(prog, c, ('__init__',))) for c in classes}
    shared = None
    for c in classes:
      ps = set(c.find_method('__init__').all_params)
      shared = ps if shared is None else shared & ps
    for c in classes:
      others = set()
      for o in classes:
        if o is not c:
          others |= vals[o]
      for p in sorted(shared & others):
        n += 1
        key = '%s|%s' % (c.qualname, p)
        res.check(p in vals[c], rule, key, c.loc(),
                  '%s validates %s like its siblings' % (c.name, p),
                  '%s does not validate constructor parameter %r although its '
                  'sibling behind the same dispatch on `%s` (%s) does: '
                  'malformed values fail later with an unrelated error or are '
                  'silently truncated' % (
                      c.name, p, ch.var,
                      ', '.join(o.name for o in classes if o is not c)))
  return n


# ---------------------------------------------------------------------------
# V6 - first-element probes
def _flows_from_params(fn, name_or_attr, params, attr_sources):
  if name_or_attr in params:
    return True
  if name_or_attr.startswith('self.') and name_or_attr[5:] in attr_sources:
    return True
  return False


def check_probes(prog, res, fn, ctor_params, rule='V6', skip=()):
  """`p[<int>]` on a value that is (an alias of) a constructor parameter must
  be guarded by a truthiness / length test of p."""
  n = 0
  for sub in ast.walk(fn.node):
    if not isinstance(sub, ast.Subscript):
      continue
    idx = const_value(sub.slice)
    if not isinstance(idx, int) or isinstance(idx, bool):
      continue
    if not isinstance(sub.ctx, ast.Load):
      continue
    base = dotted(sub.value)
    if base is None:
      continue
    pname = base[5:] if base.startswith('self.') else base
    if pname not in ctor_params or pname in skip:
      continue
    # a loop variable of the same name shadows nothing here: require that
    # base is not rebound by an enclosing for-loop target
    gs = structural_guards(fn.node, sub) or []
    guarded = False
    for t, pol in gs:
      if pol and _tests_nonempty(t, base):
        guarded = True
      if (not pol) and _tests_empty(t, base):
        guarded = True
    n += 1
    key = '%s|%s[%d]' % (fn.qualname, base, idx)
    res.check(guarded, rule, key, fn.loc(sub),
              'probe %s[%d] is guarded by an emptiness test' % (base, idx),
              'probe %s[%d] is reached for an empty %s (e.g. () or []): '
              'IndexError instead of acceptance or ValueError; sibling sites '
              'guard the same probe with a truthiness test' % (base, idx, base))
  return n


def _tests_nonempty(t, base):
  if dotted(t) == base:
    return True
  if isinstance(t, ast.BoolOp) and isinstance(t.op, ast.And):
    return any(_tests_nonempty(v, base) for v in t.values)
  if isinstance(t, ast.Compare) and len(t.ops) == 1:
    l = t.left
    if (isinstance(l, ast.Call) and dotted(l.func) == 'len' and l.args
        and dotted(l.args[0]) == base):
      c = const_value(t.comparators[0])
      op = t.ops[0]
      if isinstance(op, ast.Eq) and isinstance(c, int) and c > 0:
        return True
      if isinstance(op, ast.Gt) and isinstance(c, int) and c >= 0:
        return True
      if isinstance(op, ast.GtE) and isinstance(c, int) and c >= 1:
        return True
      if isinstance(op, ast.NotEq) and c == 0:
        return True
  if isinstance(t, ast.Call) and dotted(t.func) == 'len' and t.args and \
      dotted(t.args[0]) == base:
    return True
  return False


def _tests_empty(t, base):
  if isinstance(t, ast.UnaryOp) and isinstance(t.op, ast.Not):
    return _tests_nonempty(t.operand, base)
  if isinstance(t, ast.BoolOp) and isinstance(t.op, ast.Or):
    return any(_tests_empty(v, base) for v in t.values)
  if isinstance(t, ast.Compare) and len(t.ops) == 1:
    l = t.left
    if (isinstance(l, ast.Call) and dotted(l.func) == 'len' and l.args
        and dotted(l.args[0]) == base):
      c = const_value(t.comparators[0])
      op = t.ops[0]
      if isinstance(op, ast.Eq) and c == 0:
        return True
      if isinstance(op, ast.Lt) and isinstance(c, int) and c >= 1:
        return True
  return False


# ---------------------------------------------------------------------------
# V7 - raises reachable from a projection
def call_closure(prog, roots, follow_init=True):
  """{qualname: FunctionInfo} reachable through resolved repo calls."""
  seen = {}
  todo = list(roots)
  while todo:
    f = todo.pop()
    if f is None or f.qualname in seen:
      continue
    seen[f.qualname] = f
    for c in ast.walk(f.node):
      if isinstance(c, ast.Call):
        r = prog.resolve_call(f, c)
        if isinstance(r, ClassInfo):
          r = r.find_method('__init__') if follow_init else None
        if isinstance(r, FunctionInfo):
          todo.append(r)
  return seen


def raise_sites(fn):
  """[(index, Raise node)] in source order, nested defs included."""
  rs = [n for n in ast.walk(fn.node) if isinstance(n, ast.Raise)]
  rs.sort(key=lambda n: (n.lineno, n.col_offset))
  return list(enumerate(rs))


# ---------------------------------------------------------------------------
def check_distinct_pairs(prog, res, fn, rule='V9'):
  """V9: a constraint that names two dimensions (dominant / weak, dim1 / dim2)
  is projected by unstacking the kernel over BOTH axes, which needs them to
  be different.  Every validator loop that unpacks such a pair must reject
  the degenerate pair (a, a): there has to be a raising test that compares
  the two names.  Otherwise (0, 0) is accepted and the first projection
  raises IndexError / ValueError from the unstacking (or silently constrains
  another pair of axes)."""
  import ast as _ast
  res.analysed(fn)
  n = 0
  for loop in _ast.walk(fn.node):
    if not isinstance(loop, _ast.For):
      continue
    pair = None
    # `a, b = constraint` inside the loop, or `for a, b in constraints`
    if isinstance(loop.target, _ast.Tuple) and len(loop.target.elts) == 2 and \
        all(isinstance(t, _ast.Name) for t in loop.target.elts):
      pair = [t.id for t in loop.target.elts]
    for st in loop.body:
      lnames = {t.id for t in _ast.walk(loop.target)
                if isinstance(t, _ast.Name)}
      if isinstance(st, _ast.Assign) and isinstance(
          st.targets[0], _ast.Tuple) and len(st.targets[0].elts) == 2 and \
          dotted(st.value) in lnames and all(
              isinstance(t, _ast.Name) for t in st.targets[0].elts):
        pair = [t.id for t in st.targets[0].elts]
    if not pair or not all('dim' in p for p in pair):
      continue
    compared = False
    for st in _ast.walk(loop):
      if isinstance(st, _ast.If) and any(isinstance(x, _ast.Raise)
                                         for x in st.body):
        for c in _ast.walk(st.test):
          if isinstance(c, _ast.Compare) and len(c.ops) == 1 and isinstance(
              c.ops[0], (_ast.Eq, _ast.NotEq)) and {
                  dotted(c.left), dotted(c.comparators[0])} == set(pair):
            compared = True
    n += 1
    src = norm_text(loop.iter)[:30]
    res.check(compared, rule, '%s|%s' % (fn.qualname, src), fn.loc(loop),
              'the pair (%s, %s) is rejected when both are the same '
              'dimension' % tuple(pair),
              'no test rejects %s == %s for the constraints in `%s`: the pair '
              '(d, d) is accepted and the projection, which unstacks the '
              'kernel over both dimensions, raises IndexError / ValueError '
              'or constrains another pair of axes' % (pair[0], pair[1], src))
  return n


# ---------------------------------------------------------------------------
# V10 - strictness of the bound-order guards
BOUND_ORDER = {
    # validator: (min name, max name, equality rejected?, why)
    'lattice_lib.verify_hyperparameters':
        ('output_min', 'output_max', True,
         'the two-sided bound map divides by (output_max - output_min)'),
    'kronecker_factored_lattice_lib.verify_hyperparameters':
        ('output_min', 'output_max', True,
         'the scale is clipped to (output_max - output_min) / 2 > 0'),
    'rtl_lib.verify_hyperparameters':
        ('output_min', 'output_max', True, 'forwards to the lattice layers'),
    'categorical_calibration_lib.verify_hyperparameters':
        ('output_min', 'output_max', False, 'a constant calibrator is valid'),
    'pwl_calibration_lib.verify_hyperparameters':
        ('output_min', 'output_max', False, 'a constant calibrator is valid'),
    'linear_lib.verify_hyperparameters':
        ('lower', 'upper', False,
         'a zero-width input range is accepted outside range dominances'),
}


def check_bound_order(prog, res, rule='V10'):
  """A validator that compares a lower with an upper bound rejects min > max
  everywhere; whether it also rejects min == max is part of the contract of
  the layer (table above, confirmed by reading): where the projection divides
  by the width, equal bounds must be rejected up front - accepted, the first
  projection returns NaN."""
  n = 0
  for q, (lo, hi, reject_eq, why) in sorted(BOUND_ORDER.items()):
    fn = prog.function(q)
    res.analysed(fn)
    found = []
    for c in ast.walk(fn.node):
      if isinstance(c, ast.Compare) and len(c.ops) == 1 and isinstance(
          c.ops[0], (ast.Lt, ast.LtE, ast.Gt, ast.GtE)):
        l, r = dotted(c.left), dotted(c.comparators[0])
        op = type(c.ops[0])
        if (l, r) == (hi, lo):
          op = {ast.Lt: ast.Gt, ast.LtE: ast.GtE, ast.Gt: ast.Lt,
                ast.GtE: ast.LtE}[op]
          l, r = r, l
        if (l, r) == (lo, hi) and op in (ast.Gt, ast.GtE):
          found.append((c, op is ast.GtE))
    if not found:
      raise AnalysisError('%s: the comparison of %s with %s was not found' % (
          q, lo, hi))
    for i, (c, rejects) in enumerate(found):
      n += 1
      res.check(rejects == reject_eq, rule, '%s|%s-vs-%s%s' % (
          q, lo, hi, '#%d' % (i + 1) if i else ''), fn.loc(c),
                '%s == %s is %s (%s)' % (lo, hi, 'rejected' if reject_eq else
                                         'accepted', why),
                '`%s` %s %s == %s, but %s' % (
                    norm_text(c), 'rejects' if rejects else 'accepts', lo, hi,
                    why))
  return n
