"""V rules: validator coverage (V1), total dispatch (V2), synonym handling
(V3), guarded probes (V6), configuration raises at projection time (V7)."""
import ast

from ..model import (AnalysisError, FunctionInfo, ClassInfo, dotted, norm_text,
                     names_read, call_args, const_value, is_none,
                     walk_no_nested_defs)
from ..cfg import CFG, ReachingDefs, structural_guards, _terminates, _path_to


def _always_raises(stmts):
  if not stmts:
    return False
  last = stmts[-1]
  if isinstance(last, ast.Raise):
    return True
  if isinstance(last, ast.If) and last.orelse:
    return _always_raises(last.body) and _always_raises(last.orelse)
  return False


def _var_text(e):
  """Normalised text of the dispatched-on expression (x, x.lower(),
  self.x, cfg.x)."""
  if isinstance(e, ast.Call) and isinstance(e.func, ast.Attribute) and \
      e.func.attr in ('lower', 'upper', 'strip') and not e.args:
    return _var_text(e.func.value)
  return dotted(e)


def _literals(e):
  """Set of str/int/None literals of a literal or literal container."""
  if isinstance(e, ast.Constant):
    return {e.value}
  v = const_value(e, default=AnalysisError)
  if v is not AnalysisError:
    return {v}
  if isinstance(e, (ast.List, ast.Tuple, ast.Set)):
    out = set()
    for x in e.elts:
      s = _literals(x)
      if s is None:
        return None
      out |= s
    return out
  d = dotted(e)
  if d and d.split('.')[-1].isupper():
    return {'<%s>' % d.split('.')[-1]}   # enum member such as bct.CLAMPED
  return None


def _test_literals(test, var):
  """(positive literal set, negative literal set) a test of `var` matches,
  or None when the test is not a literal comparison of var."""
  if isinstance(test, ast.Compare) and len(test.ops) == 1:
    l, op, r = test.left, test.ops[0], test.comparators[0]
    if _var_text(l) == var:
      lits = _literals(r)
    elif _var_text(r) == var and isinstance(op, (ast.Eq, ast.NotEq)):
      lits = _literals(l)
    else:
      return None
    if lits is None:
      return None
    if isinstance(op, (ast.Eq, ast.In, ast.Is)):
      return (lits, set())
    if isinstance(op, (ast.NotEq, ast.NotIn, ast.IsNot)):
      return (set(), lits)
    return None
  if isinstance(test, ast.BoolOp) and isinstance(test.op, ast.Or):
    pos = set()
    for v in test.values:
      r = _test_literals(v, var)
      if r is None or r[1]:
        return None
      pos |= r[0]
    return (pos, set())
  if isinstance(test, ast.BoolOp) and isinstance(test.op, ast.And):
    neg = set()
    for v in test.values:
      r = _test_literals(v, var)
      if r is None or r[0]:
        return None
      neg |= r[1]
    return (set(), neg)
  return None


class Chain(object):

  def __init__(self, var, node):
    self.var = var
    self.node = node
    self.handled = set()
    self.total = False         # everything else raises / is handled by else
    self.else_kind = None      # raise | body | none


def dispatch_chains(fn_node):
  """if/elif chains that compare one expression with literals in >= 1 test.
  Yields Chain objects (only the head If of each chain)."""
  heads = []
  elifs = set()
  for n in ast.walk(fn_node):
    if isinstance(n, ast.If) and len(n.orelse) == 1 and isinstance(
        n.orelse[0], ast.If):
      elifs.add(id(n.orelse[0]))
  for n in ast.walk(fn_node):
    if isinstance(n, ast.If) and id(n) not in elifs:
      heads.append(n)
  for h in heads:
    var = None
    t = h.test
    if isinstance(t, ast.Compare) and len(t.ops) == 1:
      for side in (t.left, t.comparators[0]):
        v = _var_text(side)
        if v and _test_literals(t, v) is not None:
          var = v
          break
    elif isinstance(t, ast.BoolOp):
      for sub in ast.walk(t):
        if isinstance(sub, ast.Compare) and len(sub.ops) == 1:
          v = _var_text(sub.left)
          if v and _test_literals(t, v) is not None:
            var = v
            break
    if var is None:
      continue
    ch = Chain(var, h)
    cur = h
    ok = True
    remaining_raise = False
    while True:
      r = _test_literals(cur.test, var)
      if r is None:
        ok = False
        break
      pos, neg = r
      if pos:
        if _always_raises(cur.body):
          pass   # rejected spellings
        else:
          ch.handled |= pos
      else:
        # `x != lit` / `x not in lits`
        if _always_raises(cur.body):
          ch.handled |= neg
          remaining_raise = True
        else:
          ch.handled |= {'<other than %s>' % sorted(map(str, neg))}
      if len(cur.orelse) == 1 and isinstance(cur.orelse[0], ast.If):
        cur = cur.orelse[0]
        continue
      if cur.orelse:
        ch.else_kind = 'raise' if _always_raises(cur.orelse) else 'body'
      else:
        ch.else_kind = 'none'
      break
    if not ok:
      continue
    ch.total = remaining_raise or ch.else_kind in ('raise', 'body')
    yield ch


def check_dispatch(prog, res, fn, var, rule='V2', allowed_else_body=None,
                   validated=None, key=None):
  """Every literal dispatch on `var` in fn either ends in raise ValueError
  (else_kind raise), or has a plain else that deliberately handles the rest
  (allowed_else_body gives the reason), or handles exactly the set a
  validator accepted earlier (validated = set of literals)."""
  n = 0
  for ch in dispatch_chains(fn.node):
    if ch.var != var:
      continue
    n += 1
    k = key or '%s|%s' % (fn.qualname, var)
    if n > 1:
      k += '#%d' % n
    if ch.else_kind == 'raise' or (ch.total and ch.else_kind != 'body'):
      res.ok(rule, k, fn.loc(ch.node),
             'dispatch on %s handles %s, anything else raises' % (
                 var, sorted(map(str, ch.handled))))
    elif ch.else_kind == 'body' and allowed_else_body:
      res.ok(rule, k, fn.loc(ch.node),
             'dispatch on %s: else branch allowed (%s)' % (
                 var, allowed_else_body))
    elif validated is not None and set(map(str, validated)) <= set(
        map(str, ch.handled)):
      res.ok(rule, k, fn.loc(ch.node),
             'dispatch on %s covers the validated set %s' % (
                 var, sorted(map(str, validated))))
    else:
      res.violation(rule, k, fn.loc(ch.node),
                    'dispatch on %s handles %s and silently ignores any other '
                    'value (no raise, no validated set)' % (
                        var, sorted(map(str, ch.handled))))
  return n
