"""W rules: forwarding completeness (W1), constrained variables (W2), guard
coverage (W3), must-order (W4)."""
import ast

from ..model import (AnalysisError, FunctionInfo, ClassInfo, dotted, norm_text,
                     names_read, call_args, self_attr_assigns, is_none,
                     walk_no_nested_defs, const_value)
from ..cfg import CFG, ReachingDefs, structural_guards


class FnCtx(object):
  """CFG + reaching definitions of one function, cached."""
  _cache = {}

  def __init__(self, fn):
    self.fn = fn
    self.cfg = CFG(fn.node)
    self.rd = ReachingDefs(self.cfg, fn.params + fn.kwonly)

  @classmethod
  def of(cls, fn):
    k = id(fn.node)
    if k not in cls._cache:
      cls._cache[k] = FnCtx(fn)
    return cls._cache[k]

  def expand_reads(self, expr, at=None, depth=0, seen=None, owners=('self',),
                   keep_locals=False):
    """Names / owner.attrs the value of expr may derive from, following local
    definitions that reach the use."""
    if at is None:
      at = self.cfg.node_containing(expr)
    out = set()
    seen = seen if seen is not None else set()
    for r in owner_reads(expr, owners):
      if '.' in r or r in owners:
        out.add(r)
        continue
      if at is None:
        out.add(r)
        continue
      defs = self.rd.defs_reaching(at, r)
      if not defs:
        out.add(r)   # global / builtin
        continue
      if keep_locals:
        out.add(r)
      for d in defs:
        n = self.cfg.nodes[d]
        if n.kind == 'entry':
          out.add(r)
          continue
        if (d, r) in seen or depth > 12:
          continue
        seen.add((d, r))
        val = None
        st = n.stmt
        if n.kind == 'stmt' and isinstance(st, ast.Assign):
          val = st.value
        elif n.kind == 'stmt' and isinstance(st, ast.AugAssign):
          val = st.value
          out |= self.expand_reads(ast.Name(id=r, ctx=ast.Load()), d,
                                   depth + 1, seen, owners, keep_locals)
        elif n.kind == 'iter':
          val = st.iter
        elif n.kind == 'with':
          for item in st.items:
            val = item.context_expr
        if val is not None:
          out |= self.expand_reads(val, d, depth + 1, seen, owners, keep_locals)
        else:
          out.add(r)
    return out


def owner_reads(expr, owners=('self',)):
  """Name ids read in expr, with `owner.attr` reported as one item for every
  owner name in `owners`."""
  out = set()
  if expr is None:
    return out
  skip = set()
  for n in ast.walk(expr):
    if (isinstance(n, ast.Attribute) and isinstance(n.value, ast.Name)
        and n.value.id in owners):
      out.add('%s.%s' % (n.value.id, n.attr))
      skip.add(id(n.value))
  for n in ast.walk(expr):
    if isinstance(n, ast.Name) and id(n) not in skip:
      out.add(n.id)
  return out


def class_attrs(cls, methods=('__init__', 'build')):
  out = set()
  for m in methods:
    f = cls.find_method(m)
    if f is not None:
      for a, v, st in self_attr_assigns(f):
        out.add(a)
  return out


def calls_to(prog, fn, target, attr_types=None):
  """Call nodes in fn whose resolved callee is `target` (FunctionInfo or
  ClassInfo)."""
  out = []
  for c in ast.walk(fn.node):
    if isinstance(c, ast.Call):
      r = prog.resolve_call(fn, c, attr_types)
      if r is target:
        out.append(c)
  return out


def callee_params(target):
  if isinstance(target, ClassInfo):
    init = target.find_method('__init__')
    if init is None:
      raise AnalysisError('%s has no __init__' % target.qualname)
    return init, init.all_params
  return target, target.all_params


def check_forwarding(prog, res, fn, call, target, rule='W1', aliases=None,
                     owner='self', owner_attrs=None, literal_ok=None,
                     skip=(), label=None, required=()):
  """Every parameter p of `target` for which the owner has a same-named
  (or aliased) attribute must be passed, from that attribute.

  aliases: callee parameter -> owner attribute name(s) (str or tuple).
  literal_ok: {param: reason} parameters that may be a literal at this site.
  required: parameters that must be passed even without matching attribute.
  """
  aliases = aliases or {}
  literal_ok = literal_ok or {}
  sig, params = callee_params(target)
  ctx = FnCtx.of(fn)
  at = ctx.cfg.node_containing(call)
  bound, extras, star = call_args(call, params)
  if star:
    raise AnalysisError('%s: star-arguments at an anchored call site' %
                        fn.loc(call))
  if owner_attrs is None:
    cls = fn.cls or getattr(fn, 'outer_cls', None)
    owner_attrs = class_attrs(cls) if cls is not None else set()
  tname = target.qualname
  site = label or ('%s->%s' % (fn.qualname, tname))
  n = 0
  for p in params:
    if p in skip:
      continue
    exp = aliases.get(p, p)
    exps = exp if isinstance(exp, tuple) else (exp,)
    has = [e for e in exps if e in owner_attrs]
    if not has and p not in required and p not in aliases:
      continue
    n += 1
    key = '%s|%s' % (site, p)
    if p not in bound:
      res.violation(rule, key, fn.loc(call),
                    'argument %r is not passed to %s although the caller '
                    'holds %s.%s; the callee default %s is used' % (
                        p, tname, owner, '/'.join(exps),
                        norm_text(sig.defaults[p]) if p in sig.defaults
                        else '<none>'))
      continue
    val = bound[p]
    reads = ctx.expand_reads(val, at, owners=(owner,) if owner else ())
    want = {'%s.%s' % (owner, e) for e in exps} if owner else set(exps)
    if reads & want:
      res.ok(rule, key, fn.loc(call),
             '%s <- %s' % (p, norm_text(val)[:50]))
    elif p in literal_ok and not any(r.startswith(owner + '.')
                                     for r in reads if owner):
      res.ok(rule, key, fn.loc(call),
             '%s = %s (allowed: %s)' % (p, norm_text(val)[:30], literal_ok[p]))
    else:
      res.violation(rule, key, fn.loc(call),
                    'argument %r of %s is %s, which does not derive from '
                    '%s.%s (cross-wired or constant)' % (
                        p, tname, norm_text(val)[:50], owner, '/'.join(exps)))
  return n


# ---------------------------------------------------------------------------
def find_add_weights(prog, fn):
  """[(call, name expr text, kw dict)] for self.add_weight(...) in fn."""
  out = []
  for c in ast.walk(fn.node):
    if (isinstance(c, ast.Call) and isinstance(c.func, ast.Attribute)
        and c.func.attr == 'add_weight' and dotted(c.func.value) == 'self'):
      kw = {k.arg: k.value for k in c.keywords if k.arg}
      name = c.args[0] if c.args else kw.get('name')
      out.append((c, norm_text(name) if name is not None else '?', kw))
  return out


def constraint_sources(fn, expr):
  """The expressions a `constraint=` argument may evaluate to, following one
  level of local definitions: [(value expr, stmt)]."""
  ctx = FnCtx.of(fn)
  if isinstance(expr, ast.Name):
    at = ctx.cfg.node_containing(expr)
    out = []
    for d, v in ctx.rd.def_exprs(at, expr.id):
      n = ctx.cfg.nodes[d]
      out.append((v, n.stmt))
    return out
  if isinstance(expr, ast.IfExp):
    return [(expr.body, None), (expr.orelse, None)]
  return [(expr, None)]


def check_constrained_weight(prog, res, fn, weight_name, constraint_cls,
                             rule='W2', implications=None,
                             covered_elsewhere=None, state_filter=None):
  """The add_weight of `weight_name` passes constraint=<instance of
  constraint_cls> on every configuration in which that constraint acts."""
  from . import guards
  sites = [s for s in find_add_weights(prog, fn) if weight_name in s[1]]
  if len(sites) != 1:
    raise AnalysisError('%s: expected exactly one add_weight of %s, found %d' %
                        (fn.qualname, weight_name, len(sites)))
  call, name, kw = sites[0]
  key = '%s|%s' % (fn.qualname, weight_name)
  cexpr = kw.get('constraint')
  if cexpr is None or is_none(cexpr):
    res.violation(rule, key, fn.loc(call),
                  'variable %s is created without constraint= ; the optimizer '
                  'never re-applies %s' % (weight_name, constraint_cls.name))
    return
  srcs = constraint_sources(fn, cexpr)
  inst = None
  for v, st in srcs:
    if v is None:
      continue
    for c in ast.walk(v):
      if isinstance(c, ast.Call) and prog.resolve_call(fn, c) is constraint_cls:
        inst = c
  if inst is None:
    res.violation(rule, key, fn.loc(call),
                  'constraint= of %s is %s, never an instance of %s' % (
                      weight_name, norm_text(cexpr)[:40], constraint_cls.name))
    return
  res.ok(rule, key, fn.loc(call), 'constraint=%s may hold %s(...)' % (
      norm_text(cexpr)[:30], constraint_cls.name))
  guards.check_guard(prog, res, fn, inst, constraint_cls, rule=rule,
                     key=key + '|guard', implications=implications,
                     covered_elsewhere=covered_elsewhere,
                     precondition=structural_guards(fn.node, call) or [],
                     state_filter=state_filter)


# ---------------------------------------------------------------------------
def check_exact_store(prog, res, fn, var, projector, rule='R1'):
  """R1 - the strict projection is stored, not re-derived by cancellation.

  `self.<var>` must receive `self.<projector>(self.<var>)` through
  `.assign(P(v))`.  The algebraically equal `.assign_add(P(v) - v)` computes
  the difference in the precision of the OLD value: float32 `P(v) - v` is
  rounded to ulp(|v|), so v + (P(v) - v) lands on a grid of that spacing and
  equal plateau values of the projection come back unequal (e.g. old
  [7, -1e8, 100] with projection [3.5, 3.5, 100] is stored as [3.5, 0, 100]).
  Returns 'assign' / 'assign_add' / None."""
  import ast as _ast
  res.analysed(fn)
  v = 'self.%s' % var
  p = 'self.%s' % projector
  kind = None
  site = None
  for a in _ast.walk(fn.node):
    if not (isinstance(a, _ast.Call) and isinstance(a.func, _ast.Attribute)
            and a.func.attr in ('assign', 'assign_add', 'assign_sub')
            and dotted(a.func.value) == v and a.args):
      continue
    inner = [c for c in _ast.walk(a.args[0]) if isinstance(c, _ast.Call)
             and dotted(c.func) == p and c.args and dotted(c.args[0]) == v]
    if not inner:
      continue
    site = a
    arg = a.args[0]
    if a.func.attr == 'assign' and arg is inner[0]:
      kind = 'assign'
    elif a.func.attr == 'assign_add' and isinstance(arg, _ast.BinOp) and \
        isinstance(arg.op, _ast.Sub) and arg.left is inner[0] and \
        dotted(arg.right) == v:
      kind = 'assign_add'
    else:
      kind = 'other'
  key = '%s|%s' % (fn.qualname, var)
  if kind is None:
    res.violation('W1', key, fn.loc(),
                  '%s does not apply %s to %s and store the result' % (
                      fn.name, p, v))
    return None
  res.ok('W1', key, fn.loc(site), '%s(%s) is written back to %s' % (p, v, v))
  res.check(kind == 'assign', rule, key, fn.loc(site),
            '%s.assign(%s(%s)): the projection itself is stored' % (v, p, v),
            '%s is updated by %s: the stored value is v + (P(v) - v) with the '
            'difference rounded at the magnitude of the old value, so a '
            'kernel far from the feasible set is stored off the projection '
            '(plateaus of the projection become unequal, bounds are missed '
            'by up to ulp(|v|)); use %s.assign(%s(%s))' % (
                v, '%s(%s(%s) - %s)' % (site.func.attr, p, v, v)
                if kind == 'assign_add' else norm_text(site)[:60], v, p, v))
  return kind
