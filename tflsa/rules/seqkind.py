"""T3 - sequence-kind agreement.

Many hyper-parameters are documented as "list or tuple" (lattice_sizes,
monotonicities, per-dimension l1 / l2 amounts).  `tuple + [x]` and
`[x] + tuple` raise TypeError, so a documented-tuple parameter may only be
concatenated with a list display after it was turned into a list.  The sites
sit in branches that run only for units > 1 or for the simplex scheme, which
is why they survive the tests.

The rule is a reaching-definitions check on the CFG: at every `a + b` where
one operand is a list display / list comprehension / `[x] * n` and the other
is (a kind-preserving slice of) a name, every definition of the name reaching
the statement is classified:
  list     - list display, comprehension, list(...), sorted(...), a list
             concatenation, `[x] * n`, a repo canonicalize_* helper
  maybe    - the parameter itself when its docstring entry admits a tuple, a
             slice / `or` / conditional of maybe-values
  opaque   - anything else (not an obligation)
A `maybe` definition reaching the concatenation is a violation."""
import ast
import re

from ..model import AnalysisError, dotted, norm_text
from ..cfg import CFG, ReachingDefs, enclosing_stmt

_ARG_RE = re.compile(r'^(\s+)(\*{0,2}\w+):\s?(.*)$')


def documented_kinds(fn_node):
  """{param: doc text} from a Google style `Args:` section."""
  doc = ast.get_docstring(fn_node, clean=False) or ''
  out = {}
  lines = doc.split('\n')
  i = 0
  in_args = False
  base = None
  cur = None
  while i < len(lines):
    ln = lines[i]
    st = ln.strip()
    if st in ('Args:', 'Arguments:'):
      in_args = True
      base = None
      cur = None
    elif in_args:
      if st and re.match(r'^[A-Z][A-Za-z ]+:$', st) and (
          base is None or len(ln) - len(ln.lstrip()) < base):
        in_args = False
        cur = None
      else:
        m = _ARG_RE.match(ln)
        ind = len(ln) - len(ln.lstrip())
        if m and (base is None or ind == base):
          base = ind if base is None else base
          cur = m.group(2).lstrip('*')
          out[cur] = m.group(3)
        elif cur is not None and st:
          out[cur] += ' ' + st
    i += 1
  return out


def may_be_tuple(doc_text):
  d = doc_text or ''
  if re.search(r'\b(iterable|sequence)\b', d, re.I):
    return True
  return bool(re.search(r'\btuples?\b', d, re.I)) and bool(
      re.search(r'\blists?\b', d, re.I))


def _is_list_display(e):
  if isinstance(e, (ast.List, ast.ListComp)):
    return True
  if isinstance(e, ast.BinOp) and isinstance(e.op, ast.Mult):
    return _is_list_display(e.left) or _is_list_display(e.right)
  return False


def _base_name(e):
  """name under kind-preserving slices: x, x[a:b], x[::-1][:-1]"""
  while isinstance(e, ast.Subscript) and isinstance(e.slice, ast.Slice):
    e = e.value
  if isinstance(e, ast.Name):
    return e.id
  return None


class _Kinds(object):

  def __init__(self, prog, fn, cls_attr_docs=None):
    self.prog = prog
    self.fn = fn
    self.docs = documented_kinds(fn.node)
    # "X hyperparameter of `Lattice` layer": the kind is documented on the
    # layer's constructor
    if prog is not None and hasattr(prog, 'all_classes'):
      for p, d in list(self.docs.items()):
        m = re.search(r'hyperparameter of\s+`?(?:tfl\.layers\.)?(\w+)`?', d)
        if m:
          for c in prog.all_classes():
            if c.name == m.group(1) and c.find_method('__init__') is not None:
              cd = documented_kinds(c.find_method('__init__').node)
              if p in cd:
                self.docs[p] = cd[p]
    self.cfg = CFG(fn.node)
    self.rd = ReachingDefs(self.cfg, params=fn.all_params)
    self._memo = {}

  def kind_of_expr(self, e, nid, depth=0):
    if depth > 6:
      return 'opaque'
    if _is_list_display(e):
      return 'list'
    if isinstance(e, ast.Call):
      f = dotted(e.func) or ''
      last = f.split('.')[-1]
      if last in ('list', 'sorted') or last.startswith('canonicalize_'):
        return 'list'
      return 'opaque'
    if isinstance(e, ast.BinOp) and isinstance(e.op, ast.Add):
      if _is_list_display(e.left) or _is_list_display(e.right):
        return 'list'          # succeeded => both were lists
      return 'opaque'
    if isinstance(e, ast.BoolOp) and isinstance(e.op, ast.Or):
      ks = [self.kind_of_expr(v, nid, depth + 1) for v in e.values]
      return 'maybe' if 'maybe' in ks else (
          'list' if all(k == 'list' for k in ks) else 'opaque')
    if isinstance(e, ast.IfExp):
      ks = [self.kind_of_expr(v, nid, depth + 1) for v in (e.body, e.orelse)]
      return 'maybe' if 'maybe' in ks else (
          'list' if all(k == 'list' for k in ks) else 'opaque')
    b = _base_name(e)
    if b is not None:
      return self.kind_of_name(b, nid, depth + 1)
    return 'opaque'

  def kind_of_name(self, name, nid, depth=0):
    key = (name, nid)
    if key in self._memo:
      return self._memo[key]
    self._memo[key] = 'opaque'       # cycle guard
    kinds = set()
    for d, val in self.rd.def_exprs(nid, name):
      if d == self.cfg.entry.id:
        kinds.add('maybe' if may_be_tuple(self.docs.get(name)) else 'opaque')
      elif val is None:
        kinds.add('opaque')
      else:
        kinds.add(self.kind_of_expr(val, d, depth + 1))
    k = 'maybe' if 'maybe' in kinds else (
        'list' if kinds and kinds <= {'list'} else 'opaque')
    self._memo[key] = k
    return k


def check_function(prog, res, fn, rule='T3'):
  """Returns the number of concatenation sites examined."""
  if fn.node.args.vararg is None and not fn.all_params:
    return 0
  try:
    ks = _Kinds(prog, fn)
  except AnalysisError:
    raise
  n = 0
  seen = {}
  for e in ast.walk(fn.node):
    if not (isinstance(e, ast.BinOp) and isinstance(e.op, ast.Add)):
      continue
    for disp, other in ((e.left, e.right), (e.right, e.left)):
      # `(x or [])` is a list only when x is omitted: it is x otherwise
      if isinstance(other, ast.BoolOp) and isinstance(other.op, ast.Or) and \
          other.values and _base_name(other.values[0]) is not None and any(
              _is_list_display(v) for v in other.values[1:]):
        disp_like = _is_list_display(disp) or (
            isinstance(disp, ast.BoolOp) and isinstance(disp.op, ast.Or) and
            any(_is_list_display(v) for v in disp.values[1:]))
        if disp_like:
          other = other.values[0]
          disp = ast.List(elts=[], ctx=ast.Load())
      if not _is_list_display(disp):
        continue
      b = _base_name(other)
      if b is None:
        if isinstance(other, ast.Call) and (dotted(other.func) or '') in (
            'list', 'sorted') and other.args and _base_name(
                other.args[0]) is not None:
          # normalised at the site itself
          b = _base_name(other.args[0])
          n += 1
          idx = seen.get(b, 0)
          seen[b] = idx + 1
          res.check(True, rule, '%s|%s%s' % (
              fn.qualname, b, '#%d' % (idx + 1) if idx else ''), fn.loc(e),
                    '`%s` is wrapped in list() at `%s`' % (
                        b, norm_text(e)[:40]), '')
          break
        continue
      st = enclosing_stmt(fn.node, e)
      node = ks.cfg.node_of(st) if st is not None else None
      if node is None:
        continue
      k = ks.kind_of_name(b, node)
      if k == 'opaque':
        continue
      n += 1
      idx = seen.get(b, 0)
      seen[b] = idx + 1
      key = '%s|%s%s' % (fn.qualname, b, '#%d' % (idx + 1) if idx else '')
      res.check(k == 'list', rule, key, fn.loc(e),
                '`%s` is a list on every path to `%s`' % (
                    b, norm_text(e)[:40]),
                '`%s` is documented as "%s" and reaches `%s` without being '
                'turned into a list: a tuple raises TypeError (can only '
                'concatenate tuple to tuple)' % (
                    b, (ks.docs.get(b) or '')[:48], norm_text(e)[:48]))
      break
  return n


_POSITIVE = '''
def f(sizes, amounts, units):
  """x.

  Args:
    sizes: List or tuple of integers.
    amounts: list of floats.
    units: int.
  """
  if units > 1:
    sizes = sizes + [units]
    amounts = amounts + [0.0]
  strides = [1] + sizes[::-1][:-1]
  return sizes, strides


def g(sizes):
  """x.

  Args:
    sizes: List or tuple of integers.
  """
  sizes = list(sizes)
  return sizes + [1]
'''


def selfcheck(prog_cls=None):
  """the embedded example must give exactly two violations (in f) and one
  discharged site (in g)."""
  from .. import report
  tree = ast.parse(_POSITIVE)

  class _Fn(object):
    def __init__(self, node):
      self.node = node
      self.qualname = node.name
      self.all_params = [a.arg for a in node.args.args]

    def loc(self, n=None):
      return 'embedded:%d' % getattr(n, 'lineno', 0)

  class _Res(object):
    def __init__(self):
      self.v = []
      self.o = []

    def check(self, cond, rule, key, loc, ok, bad):
      (self.o if cond else self.v).append(key)

  r = _Res()
  for node in tree.body:
    check_function(None, r, _Fn(node))
  if len(r.v) != 2 or len(r.o) != 1:
    raise AnalysisError('T3 self-check: embedded example gave %d violations '
                        'and %d discharged sites (expected 2 and 1): %s %s' % (
                            len(r.v), len(r.o), r.v, r.o))
