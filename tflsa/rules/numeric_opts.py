"""N0 - numeric-or-None hyperparameters are never tested by truthiness:
0 / 0.0 is a legitimate bound, clip value, default value or missing value, so
`if output_min:` silently treats it as "not given".  The repo's own idiom is
`x is not None` (every existing site); this rule has zero expected reports
and keeps an embedded positive example."""
import ast

from ..model import AnalysisError, dotted

NUMERIC_OPTS = (
    'output_min', 'output_max', 'clip_min', 'clip_max', 'default_value',
    'missing_input_value', 'missing_output_value', 'init_min', 'init_max',
    'default_input_value', 'pwl_calibration_clip_min',
    'pwl_calibration_clip_max', 'lower_bound', 'upper_bound',
    'keypoint_output_min', 'keypoint_output_max', 'keypoint_input_min',
    'keypoint_input_max', 'lower', 'upper', 'input_scaling_init',
    'clip_value_min', 'clip_value_max',
)


def truth_positions(fn_node):
  """expressions evaluated for their truth value."""
  for n in ast.walk(fn_node):
    if isinstance(n, (ast.If, ast.While, ast.IfExp)):
      yield n.test
    elif isinstance(n, ast.Assert):
      yield n.test
    elif isinstance(n, ast.comprehension):
      for c in n.ifs:
        yield c
    elif isinstance(n, ast.BoolOp):
      for v in n.values:
        yield v
    elif isinstance(n, ast.UnaryOp) and isinstance(n.op, ast.Not):
      yield n.operand


# lists whose ELEMENTS are numeric-or-None (per-input bounds)
NUMERIC_LISTS = ('input_min', 'input_max', 'lower_bounds', 'upper_bounds',
                 'input_keypoints', 'keypoints')


def element_vars(fn_node, lists=NUMERIC_LISTS):
  """loop / comprehension variables that range over the elements of a
  numeric-or-None list (`for val in input_min or [...]`)."""
  out = set()
  for n in ast.walk(fn_node):
    if isinstance(n, (ast.For, ast.comprehension)) and isinstance(
        n.target, ast.Name):
      for x in ast.walk(n.iter):
        d = dotted(x)
        if d and d.split('.')[-1] in lists and not isinstance(
            getattr(x, 'ctx', None), ast.Store):
          # `zip(a, b)` style iteration binds tuples, not elements
          if not (isinstance(n.iter, ast.Call) and dotted(n.iter.func) in (
              'zip', 'enumerate')):
            out.add(n.target.id)
  return out


def guarded_range_tests(fn_node):
  """`x and x < c`: the truth test meant as "is given" also swallows the
  value 0, so the range test never sees it."""
  out = []
  for n in ast.walk(fn_node):
    if isinstance(n, ast.BoolOp) and isinstance(n.op, ast.And):
      plain = {dotted(v): v for v in n.values if dotted(v)}
      for v in n.values:
        if isinstance(v, ast.Compare) and len(v.ops) == 1 and isinstance(
            v.ops[0], (ast.Lt, ast.LtE, ast.Gt, ast.GtE)):
          for side, other in ((v.left, v.comparators[0]),
                              (v.comparators[0], v.left)):
            d = dotted(side)
            c = other.value if isinstance(other, ast.Constant) else None
            if d in plain and isinstance(c, (int, float)) and not isinstance(
                c, bool):
              # does the comparison reject 0 ?  then 0 slips through
              op = v.ops[0]
              zero_left = side is v.left
              rejects0 = {
                  ast.Lt: (0 < c) if zero_left else (c < 0),
                  ast.LtE: (0 <= c) if zero_left else (c <= 0),
                  ast.Gt: (0 > c) if zero_left else (c > 0),
                  ast.GtE: (0 >= c) if zero_left else (c >= 0)}[type(op)]
              if rejects0:
                out.append((plain[d], d))
  return out


def find_truth_tests(fn_node, names=NUMERIC_OPTS):
  out = []
  elems = element_vars(fn_node)
  out.extend(guarded_range_tests(fn_node))
  for e in truth_positions(fn_node):
    d = dotted(e)
    if d and (d.split('.')[-1] in names or d in elems):
      out.append((e, d))
  return out


_POSITIVE = '''
def f(values, default_value=None, output_min=None):
  if default_value:
    values = values[values != default_value]
  x = 1 if not output_min else 2
  lows = [v or -1.0 for v in input_min or [None]]
  if units and units < 1:
    raise ValueError(units)
  return values
'''


def selfcheck():
  hits = find_truth_tests(ast.parse(_POSITIVE))
  if len(hits) != 4:
    raise AnalysisError('N0 self-check: embedded positive example matched %d '
                        'sites instead of 4' % len(hits))


def check(prog, res, fns, rule='N0'):
  """one obligation per function: no truthiness test of a numeric option."""
  selfcheck()
  n = 0
  for fn in fns:
    res.analysed(fn)
    hits = find_truth_tests(fn.node)
    n += 1
    if not hits:
      res.ok(rule, fn.qualname, fn.loc(),
             'no numeric-or-None hyperparameter is tested by truthiness')
    for e, d in hits:
      res.violation(rule, '%s|%s' % (fn.qualname, d), fn.loc(e),
                    '`%s` is tested by truthiness: the legitimate value 0 / '
                    '0.0 is treated as "not given" (the repo idiom is '
                    '`%s is not None`)' % (d, d))
  return n
