"""T4 - hashable dictionary keys / set members.

Constraint descriptions (trusts, dominances, joint monotonicities) are
documented as lists of tuples, but get_config() -> JSON -> from_config() (and
every Keras save / load) returns them as lists of LISTS.  A constraint that is
used as part of a dict key or as a set member must therefore be turned into a
tuple first; otherwise a reloaded layer raises `TypeError: unhashable type`
at its first projection.

Every element of a dict-subscript key tuple and every element source of a
`set(...)` is classified on the CFG with reaching definitions:
  hashable  - constants, tuple(...) / str / int calls, tuple displays of
              hashables, loop variables over range(...), over literal
              sequences of constants / tuples, over itertools.product(...),
              over a list built by `[tuple(c) for c in ...]`
  maybe     - loop variables over a parameter (or a plain copy of it) whose
              elements are caller-supplied sequences
  opaque    - anything else (not an obligation)"""
import ast

from ..model import AnalysisError, dotted, norm_text
from ..cfg import CFG, ReachingDefs, enclosing_stmt


def _loops_binding(fn_node, name):
  out = []
  for n in ast.walk(fn_node):
    if isinstance(n, (ast.For, ast.comprehension)):
      for t in ast.walk(n.target):
        if isinstance(t, ast.Name) and t.id == name:
          out.append(n)
  return out


class _Ctx(object):

  def __init__(self, prog, fn, scope):
    self.prog = prog
    self.fn = fn
    self.scope = scope          # innermost def containing the site
    self.cfgs = {}
    self.params = set(fn.all_params)

  def rd(self, node):
    k = id(node)
    if k not in self.cfgs:
      cfg = CFG(node)
      ps = [a.arg for a in node.args.args + node.args.kwonlyargs]
      self.cfgs[k] = (cfg, ReachingDefs(cfg, params=ps))
    return self.cfgs[k]

  def seq_elem_kind(self, it, depth=0):
    """kind of the ELEMENTS of an iterable expression"""
    if depth > 6:
      return 'opaque'
    if isinstance(it, ast.Call):
      f = dotted(it.func) or ''
      if f == 'range' or f.endswith('itertools.product') or f == 'enumerate' \
          or f.endswith('.product') or f == 'zip':
        return 'hashable'
      if f in ('sorted', 'list', 'tuple', 'reversed', 'set',
               'frozenset') and it.args:
        return self.seq_elem_kind(it.args[0], depth + 1)
      return 'opaque'
    if isinstance(it, (ast.List, ast.Tuple)):
      ks = [self.expr_kind(e, depth + 1) for e in it.elts]
      return 'hashable' if all(k == 'hashable' for k in ks) else 'opaque'
    if isinstance(it, (ast.ListComp, ast.GeneratorExp, ast.SetComp)):
      return self.expr_kind(it.elt, depth + 1, comp=it)
    if isinstance(it, ast.BoolOp) and isinstance(it.op, ast.Or):
      ks = [self.seq_elem_kind(v, depth + 1) for v in it.values]
      if 'maybe' in ks:
        return 'maybe'
      return 'hashable' if all(k == 'hashable' for k in ks) else 'opaque'
    d = dotted(it)
    if d is None:
      return 'opaque'
    # definitions of the iterable name: the enclosing function first, then
    # the outer function (closures such as body() read outer locals)
    kinds = set()
    for node in (self.scope, self.fn.node):
      assigned = [st for st in ast.walk(node) if isinstance(st, ast.Assign)
                  and any(dotted(t) == d for t in st.targets)]
      is_param = d in [a.arg for a in node.args.args + node.args.kwonlyargs]
      if assigned or is_param:
        for st in assigned:
          kinds.add(self.seq_elem_kind(st.value, depth + 1)
                    if not (isinstance(st.value, ast.List) and
                            not st.value.elts) else 'hashable')
        if is_param:
          # only parameters documented as sequences OF sequences
          from .seqkind import documented_kinds
          import re as _re
          doc = documented_kinds(node).get(d, '') if isinstance(
              node, ast.FunctionDef) else ''
          if _re.search(r'element\s+tuples?|of\s+tuples|tuples\s+of|pairs',
                        doc, _re.I):
            kinds.add('param')
          else:
            kinds.add('opaque')
        break
    if not kinds:
      return 'opaque'
    if 'param' in kinds:
      # unconditional normalising re-assignment at top level kills the param
      top = [st for st in self.fn.node.body if isinstance(st, ast.Assign)
             and any(dotted(t) == d for t in st.targets)]
      if top and all(self.seq_elem_kind(st.value, depth + 1) == 'hashable'
                     for st in top):
        kinds.discard('param')
      else:
        return 'maybe'
    if 'maybe' in kinds:
      return 'maybe'
    return 'hashable' if kinds <= {'hashable'} else 'opaque'

  def expr_kind(self, e, depth=0, comp=None):
    if depth > 8:
      return 'opaque'
    if isinstance(e, ast.Constant):
      return 'hashable'
    if isinstance(e, ast.Tuple):
      ks = [self.expr_kind(x, depth + 1, comp) for x in e.elts]
      if 'maybe' in ks:
        return 'maybe'
      return 'hashable' if all(k == 'hashable' for k in ks) else 'opaque'
    if isinstance(e, ast.Call):
      f = dotted(e.func) or ''
      if f in ('tuple', 'str', 'int', 'float', 'frozenset', 'len', 'bool'):
        return 'hashable'
      return 'opaque'
    if isinstance(e, ast.Name):
      loops = _loops_binding(self.scope, e.id) or _loops_binding(
          self.fn.node, e.id)
      # the loop that lexically encloses the use binds it
      enclosing = [lp for lp in loops if isinstance(lp, ast.For) and any(
          x is e for x in ast.walk(lp))]
      if enclosing:
        loops = enclosing[-1:]
      assigns = [st for st in ast.walk(self.scope) if isinstance(st, ast.Assign)
                 and any(isinstance(t, ast.Name) and t.id == e.id
                         for t in st.targets)]
      kinds = set()
      for lp in loops:
        if isinstance(lp.target, ast.Name):
          kinds.add(self.seq_elem_kind(lp.iter, depth + 1))
        else:
          kinds.add('hashable' if self.seq_elem_kind(lp.iter, depth + 1) !=
                    'maybe' else 'opaque')   # unpacked scalars
      for st in assigns:
        kinds.add(self.expr_kind(st.value, depth + 1))
      if not kinds:
        return 'opaque'
      if 'maybe' in kinds:
        return 'maybe'
      return 'hashable' if kinds <= {'hashable'} else 'opaque'
    return 'opaque'


def _scope_of(fn, node):
  best = fn.node
  for d in ast.walk(fn.node):
    if isinstance(d, (ast.FunctionDef, ast.Lambda)) and d is not fn.node:
      if any(x is node for x in ast.walk(d)):
        if isinstance(d, ast.FunctionDef):
          best = d
  return best


def check_function(prog, res, fn, rule='T4'):
  n = 0
  seen = {}
  for s in ast.walk(fn.node):
    elems = []
    what = None
    key = s.slice if isinstance(s, ast.Subscript) else None
    if isinstance(key, ast.Name) and isinstance(s.value, ast.Name):
      # a key built once into a local: d[key] with key = ('FAMILY', c, g)
      cands = [st for st in ast.walk(fn.node) if isinstance(st, ast.Assign)
               and len(st.targets) == 1 and isinstance(
                   st.targets[0], ast.Name) and st.targets[0].id == key.id
               and st.lineno <= s.lineno]
      if cands:
        key = max(cands, key=lambda st: st.lineno).value
    if isinstance(s, ast.Subscript) and isinstance(key, ast.Tuple) and \
        isinstance(s.value, ast.Name) and any(
            isinstance(x, ast.Constant) and isinstance(x.value, str)
            for x in key.elts):
      elems = [x for x in key.elts if not isinstance(x, ast.Constant)]
      what = 'key of %s[...]' % s.value.id
    elif isinstance(s, ast.Call) and dotted(s.func) == 'set' and s.args:
      ctx = _Ctx(prog, fn, _scope_of(fn, s))
      k = ctx.seq_elem_kind(s.args[0])
      if k in ('hashable', 'maybe'):
        key = '%s|set(%s)' % (fn.qualname, norm_text(s.args[0])[:30])
        idx = seen.get(key, 0)
        seen[key] = idx + 1
        if not idx:
          n += 1
          res.check(k == 'hashable', rule, key, fn.loc(s),
                    'the members are tuples / scalars',
                    'the members of `%s` are caller-supplied constraint '
                    'sequences that may be lists (every config round trip '
                    'turns tuples into lists): TypeError unhashable type' %
                    norm_text(s)[:50])
      continue
    if isinstance(s, ast.Compare) and len(s.ops) == 1 and isinstance(
        s.ops[0], (ast.In, ast.NotIn)) and isinstance(s.left, ast.Tuple):
      # (a, b, c) in constraints: a tuple never equals a list, so the
      # members must be tuples (constraints reloaded from JSON are lists)
      ctx = _Ctx(prog, fn, _scope_of(fn, s))
      k = ctx.seq_elem_kind(s.comparators[0])
      if k in ('hashable', 'maybe'):
        key = '%s|%s in %s' % (fn.qualname, norm_text(s.left)[:30],
                               norm_text(s.comparators[0])[:30])
        idx = seen.get(key, 0)
        seen[key] = idx + 1
        if not idx:
          n += 1
          res.check(k == 'hashable', rule, key, fn.loc(s),
                    'the tuple is looked up among tuples',
                    '`%s` looks a tuple up in a caller-supplied constraint '
                    'list whose elements may be lists (every config round '
                    'trip turns tuples into lists; (1, 2) != [1, 2]): the '
                    'lookup silently fails for a reloaded layer' %
                    norm_text(s)[:70])
      continue
    if not elems:
      continue
    ctx = _Ctx(prog, fn, _scope_of(fn, s))
    for e in elems:
      k = ctx.expr_kind(e)
      if k == 'opaque':
        continue
      src = ''
      if isinstance(e, ast.Name):
        enc = [lp for lp in _loops_binding(ctx.scope, e.id)
               if isinstance(lp, ast.For) and any(x is e
                                                  for x in ast.walk(lp))]
        if enc:
          src = '<-' + norm_text(enc[-1].iter)[:30]
      key = '%s|%s:%s%s' % (fn.qualname, what, norm_text(e)[:30], src)
      idx = seen.get(key, 0)
      seen[key] = idx + 1
      if idx:
        continue
      n += 1
      res.check(k == 'hashable', rule, key, fn.loc(s),
                '`%s` is hashable on every path' % norm_text(e)[:30],
                '`%s` is an element of a caller-supplied constraint list and '
                'is used as part of the %s without being turned into a tuple: '
                'constraints that went through get_config() / JSON are lists '
                'and raise TypeError: unhashable type at the first '
                'projection' % (norm_text(e)[:30], what))
  return n
