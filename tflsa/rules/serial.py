"""S rules - get_config / __init__ / from_config / registry agreement (C11)."""
import ast

from ..model import (AnalysisError, ClassInfo, FunctionInfo, dotted, norm_text,
                     names_read, self_attr_assigns, walk_no_nested_defs,
                     call_args, is_none)
from ..cfg import CFG, ReachingDefs, structural_guards

SERIAL_KINDS = ('Layer', 'Model', 'Constraint', 'Initializer', 'Regularizer')


class ConfigModel(object):
  """What get_config returns: key -> [(value expr, guard or None, node)]."""

  def __init__(self):
    self.keys = {}
    self.merges_super = False
    self.super_first = False


def _is_super_get_config(expr):
  """super(...).get_config()  optionally followed by .copy()."""
  if (isinstance(expr, ast.Call) and isinstance(expr.func, ast.Attribute)
      and expr.func.attr == 'copy' and not expr.args):
    expr = expr.func.value
  if (isinstance(expr, ast.Call) and isinstance(expr.func, ast.Attribute)
      and expr.func.attr == 'get_config'
      and isinstance(expr.func.value, ast.Call)
      and dotted(expr.func.value.func) == 'super'):
    return True
  return False


def _dict_items(expr):
  """Items of a dict literal or dict(k=v) call; None if not one."""
  if isinstance(expr, ast.Dict):
    out = []
    for k, v in zip(expr.keys, expr.values):
      if k is None or not isinstance(k, ast.Constant) or not isinstance(
          k.value, str):
        return None
      out.append((k.value, v, k))
    return out
  if (isinstance(expr, ast.Call) and dotted(expr.func) == 'dict'
      and not expr.args):
    out = []
    for kw in expr.keywords:
      if kw.arg is None:
        return None
      out.append((kw.arg, kw.value, kw))
    return out
  return None


def extract_config(fn):
  """Abstractly evaluates a get_config body built from the idioms the repo
  (and Keras code in general) uses.  Anything else is analysis-broken."""
  cm = ConfigModel()
  var = [None]

  locals_ = {}      # helper locals of get_config: name -> expression

  class _Sub(ast.NodeTransformer):
    def visit_Name(self, n):
      if isinstance(n.ctx, ast.Load) and n.id in locals_:
        import copy
        return copy.deepcopy(locals_[n.id])
      return n

  def subst(e):
    import copy
    return _Sub().visit(copy.deepcopy(e)) if locals_ else e

  def add_items(items, guard):
    for k, v, node in items:
      cm.keys.setdefault(k, []).append((subst(v), guard, node))

  def do_block(stmts, guard):
    for st in stmts:
      if isinstance(st, ast.Expr) and isinstance(st.value, ast.Constant):
        continue  # docstring
      if isinstance(st, ast.Return):
        v = st.value
        items = _dict_items(v)
        if items is not None:
          add_items(items, guard)
        elif isinstance(v, ast.Name) and v.id == var[0]:
          pass
        elif _is_dict_merge_return(v, cm, var[0]):
          pass
        else:
          raise AnalysisError('%s: unmodelled return in get_config: %s' % (
              fn.loc(st), norm_text(st)))
        continue
      if isinstance(st, ast.Assign) and len(st.targets) == 1:
        t = st.targets[0]
        if isinstance(t, ast.Name):
          items = _dict_items(st.value)
          if items is not None:
            var[0] = t.id
            add_items(items, guard)
            continue
          if _is_super_get_config(st.value):
            var[0] = t.id
            cm.merges_super = True
            cm.super_first = True
            continue
          if t.id != var[0]:
            # helper local, e.g. base_config = super().get_config()
            if _contains_super_get_config(st.value):
              cm.merges_super = True
              cm._base_var = t.id
              continue
            # a local bound to a literal that nothing else in get_config reads
            if isinstance(st.value, ast.Constant) and not any(
                isinstance(x, ast.Name) and x.id == t.id and x is not t
                for x in ast.walk(fn.node)):
              continue
        if (isinstance(t, ast.Subscript) and isinstance(t.value, ast.Name)
            and t.value.id == var[0]
            and isinstance(t.slice, ast.Constant)
            and isinstance(t.slice.value, str)):
          add_items([(t.slice.value, st.value, t)], guard)
          continue
      if isinstance(st, ast.Expr) and isinstance(st.value, ast.Call):
        c = st.value
        if (isinstance(c.func, ast.Attribute) and c.func.attr == 'update'
            and isinstance(c.func.value, ast.Name)
            and c.func.value.id == var[0] and len(c.args) == 1):
          a = c.args[0]
          items = _dict_items(a)
          if items is not None:
            add_items(items, guard)
            continue
          if _is_super_get_config(a) or (
              isinstance(a, ast.Name) and a.id == getattr(cm, '_base_var', 0)):
            cm.merges_super = True
            continue
      if isinstance(st, ast.If):
        do_block(st.body, _and(guard, st.test, True))
        do_block(st.orelse, _and(guard, st.test, False))
        continue
      if isinstance(st, ast.Expr) and isinstance(st.value, ast.Call) and \
          var[0] not in names_read(st.value) and (dotted(
              st.value.func) or '').split('.')[0] in ('logging', 'warnings',
                                                      'print'):
        continue        # a message: does not touch the config
      # helper locals: `x = <expr>` and lists filled by a loop.  What the
      # config stores under a key is read through them.
      if isinstance(st, ast.Assign) and len(st.targets) == 1 and isinstance(
          st.targets[0], ast.Name) and st.targets[0].id != var[0] and \
          var[0] not in names_read(st.value):
        locals_[st.targets[0].id] = subst(st.value)
        continue
      if isinstance(st, ast.For) and var[0] not in names_read(st) and not \
          st.orelse:
        grown = False
        for c in ast.walk(st):
          if isinstance(c, ast.Call) and isinstance(c.func, ast.Attribute) \
              and c.func.attr in ('append', 'extend') and isinstance(
                  c.func.value, ast.Name) and c.func.value.id in locals_ \
              and c.args:
            x = c.func.value.id
            locals_[x] = ast.Tuple(elts=[locals_[x], subst(c.args[0]),
                                         subst(st.iter)], ctx=ast.Load())
            grown = True
        if grown:
          continue
      raise AnalysisError('%s: unmodelled statement in get_config: %s' % (
          fn.loc(st), norm_text(st)[:100]))

  do_block(fn.node.body, None)
  return cm


def _contains_super_get_config(expr):
  for n in ast.walk(expr):
    if _is_super_get_config(n):
      return True
  return False


def _is_dict_merge_return(v, cm, var):
  """return dict(list(base.items()) + list(config.items()))"""
  if isinstance(v, ast.Call) and dotted(v.func) == 'dict' and len(v.args) == 1:
    names = {n.id for n in ast.walk(v.args[0]) if isinstance(n, ast.Name)}
    if var in names and getattr(cm, '_base_var', None) in names:
      return True
  return False


def _and(guard, test, pol):
  g = list(guard) if guard else []
  g.append((test, pol))
  return g


def guard_text(guard):
  if not guard:
    return ''
  return ' and '.join(('' if p else 'not ') + '(' + norm_text(t) + ')'
                      for t, p in guard)


# ---------------------------------------------------------------------------
class FromConfigModel(object):

  def __init__(self):
    self.explicit = {}     # param -> expr
    self.star_config = False
    self.popped = set()
    self.got = set()
    self.nested = False    # goes through deserialize_nested_configs
    self.ctor_call = None


def extract_from_config(prog, fn, cls):
  """Models a custom from_config: which keys it consumes and which
  constructor parameters it passes."""
  fm = FromConfigModel()
  cfg_name = fn.all_params[0] if fn.all_params else 'config'
  ctor = None
  for c in ast.walk(fn.node):
    if not isinstance(c, ast.Call):
      continue
    d = dotted(c.func)
    if d in ('cls', cls.name):
      ctor = c
    if (isinstance(c.func, ast.Attribute) and isinstance(c.func.value, ast.Name)
        and c.func.value.id == cfg_name and c.args
        and isinstance(c.args[0], ast.Constant)):
      if c.func.attr == 'pop':
        fm.popped.add(c.args[0].value)
      elif c.func.attr == 'get':
        fm.got.add(c.args[0].value)
    if d and d.endswith('deserialize_nested_configs'):
      fm.nested = True
  if ctor is None:
    raise AnalysisError('%s: from_config constructs no instance of %s' % (
        fn.loc(), cls.name))
  fm.ctor_call = ctor
  init = cls.find_method('__init__')
  bound, extras, star = call_args(ctor, init.all_params)
  fm.explicit = bound
  for kw in ctor.keywords:
    if kw.arg is None:
      fm.star_config = True
  return fm


# ---------------------------------------------------------------------------
def param_flow(fn, cfg, rd):
  """For a function: local name -> set of parameters it may derive from
  (transitive, flow-insensitive over reaching definitions)."""
  params = set(fn.all_params)
  deps = {p: {p} for p in params}
  changed = True
  assigns = []
  for n in cfg.nodes:
    st = n.stmt
    if n.kind == 'stmt' and isinstance(st, ast.Assign):
      for t in st.targets:
        for tn in ast.walk(t):
          if isinstance(tn, ast.Name):
            assigns.append((tn.id, st.value))
    elif n.kind == 'iter':
      for tn in ast.walk(st.target):
        if isinstance(tn, ast.Name):
          assigns.append((tn.id, st.iter))
  while changed:
    changed = False
    for name, val in assigns:
      cur = deps.setdefault(name, set())
      new = set()
      for r in names_read(val):
        new |= deps.get(r, set())
      if not new <= cur:
        cur |= new
        changed = True
  return deps


def attr_param_deps(init):
  """{attribute: set of constructor parameters it is computed from}"""
  cfg = CFG(init.node)
  rd = ReachingDefs(cfg, init.all_params)
  deps = param_flow(init, cfg, rd)
  attr_deps = {}
  assigns = self_attr_assigns(init)
  for _ in range(3):
    for attr, val, st in assigns:
      if val is None:
        continue
      s = attr_deps.setdefault(attr, set())
      for r in names_read(val):
        if r.startswith('self.'):
          s |= attr_deps.get(r[5:], set())
        else:
          s |= deps.get(r, set())
  return attr_deps


def check_attr_provenance(res, cls, init, key, rule='S4', conditional=False,
                          attr_name=None):
  """self.<key> is assigned in __init__ on all paths from parameter <key>
  (wrapping / canonicalising allowed; a branch guarded by a test on the
  parameter may assign a derived default)."""
  cfg = CFG(init.node)
  rd = ReachingDefs(cfg, init.all_params)
  deps = param_flow(init, cfg, rd)
  # attributes also carry parameter provenance (self.a = a; self.b = f(self.a))
  attr_deps = {}
  assigns = self_attr_assigns(init)
  for _ in range(3):
    for attr, val, st in assigns:
      if val is None:
        continue
      s = attr_deps.setdefault(attr, set())
      for r in names_read(val):
        if r.startswith('self.'):
          s |= attr_deps.get(r[5:], set())
        else:
          s |= deps.get(r, set())
  mine = [(a, v, st) for a, v, st in assigns if a == (attr_name or key)]
  k = '%s|%s' % (cls.qualname, key)
  if not mine:
    # maybe assigned through setattr-free base class; look at in-repo bases
    res.violation(rule, k, init.loc(),
                  'get_config reads self.%s but __init__ never assigns it' % key)
    return
  nodes = set()
  for a, v, st in mine:
    try:
      nodes.add(cfg.node_of(st))
    except AnalysisError:
      pass
  if not conditional and not cfg.must_pass_through(nodes):
    res.violation(rule, k, init.loc(mine[0][2]),
                  'self.%s is not assigned on every path through __init__' % key)
    return
  bad = []
  depends = {}
  for a, v, st in mine:
    reads = set()
    for r in names_read(v):
      if r.startswith('self.'):
        reads |= attr_deps.get(r[5:], set())
      else:
        reads |= deps.get(r, set())
    if key in reads:
      depends[id(st)] = True
      continue
    gs = structural_guards(init.node, st) or []
    gdeps = set()
    for t, pol in gs:
      for r in names_read(t):
        if r.startswith('self.'):
          gdeps |= attr_deps.get(r[5:], set())
        else:
          gdeps |= deps.get(r, set())
    if key in gdeps:
      depends[id(st)] = True
      continue
    # self.x = []; followed by self.x.append(...) fed by the parameter
    if _appended_from_param(init, key, deps):
      continue
    bad.append(st)
  # `self.x = <constant default>` followed by an assignment of self.x that
  # does depend on the parameter (under a guard on it): default + override
  if bad and depends and all(
      isinstance(st.value, (ast.Constant, ast.List, ast.Tuple, ast.Dict)) and
      not names_read(st.value) for st in bad):
    bad = []
  if bad:
    res.violation(rule, k, init.loc(bad[0]),
                  'self.%s = %s does not depend on constructor parameter %s' % (
                      key, norm_text(bad[0].value)[:60], key))
  else:
    res.ok(rule, k, init.loc(mine[0][2]),
           'self.%s assigned from parameter on all paths' % key)


def _appended_from_param(init, key, deps):
  for c in ast.walk(init.node):
    if (isinstance(c, ast.Call) and isinstance(c.func, ast.Attribute)
        and c.func.attr in ('append', 'extend')
        and dotted(c.func.value) == 'self.' + key):
      for a in c.args:
        for r in names_read(a):
          if key in deps.get(r, set()):
            return True
  return False


# ---------------------------------------------------------------------------
def registry(prog):
  """name -> resolved object for the dict literal in get_custom_objects."""
  fn = prog.function('premade.get_custom_objects')
  reg = {}
  lit = None
  for n in ast.walk(fn.node):
    if isinstance(n, ast.Dict) and len(n.keys) > 3:
      lit = n
      break
  if lit is None:
    raise AnalysisError('premade.get_custom_objects: registry literal not found')
  for k, v in zip(lit.keys, lit.values):
    if not isinstance(k, ast.Constant):
      raise AnalysisError('premade.get_custom_objects: non-literal key')
    r = prog.resolve_dotted(fn.module, dotted(v) or '')
    reg[k.value] = (r, k)
  return reg, fn


def local_scopes(prog):
  """module name -> {registered name -> ClassInfo} from
  keras.utils.custom_object_scope({...}) literals."""
  out = {}
  for m in prog.modules.values():
    for n in ast.walk(m.tree):
      if (isinstance(n, ast.Call) and (dotted(n.func) or '').endswith(
          'custom_object_scope') and n.args and isinstance(n.args[0], ast.Dict)):
        for k, v in zip(n.args[0].keys, n.args[0].values):
          if isinstance(k, ast.Constant):
            r = prog.resolve_dotted(m, dotted(v) or '')
            out.setdefault(m.name, {}).setdefault(k.value, []).append(r)
  return out


# ---------------------------------------------------------------------------
MUTATORS = ('append', 'extend', 'insert', 'remove', 'pop', 'sort', 'reverse',
            'clear', 'update', 'add', 'discard', 'setdefault', 'popitem')


def param_mutations(fn):
  """In-place mutations of a parameter object that is still the caller's
  object (its reaching definition is the function entry):
  [(param, node, kind)]."""
  from .wiring import FnCtx
  ctx = FnCtx.of(fn)
  params = set(fn.all_params)
  out = []

  def still_callers(name, node):
    at = ctx.cfg.node_containing(node)
    if at is None:
      return False
    defs = ctx.rd.defs_reaching(at, name)
    return ctx.cfg.entry.id in defs

  for n in ast.walk(fn.node):
    if isinstance(n, ast.AugAssign) and isinstance(n.target, ast.Name) and \
        n.target.id in params:
      # x += [..] mutates lists in place; numbers/tensors are rebound
      if isinstance(n.value, (ast.List, ast.ListComp, ast.Tuple)) or (
          isinstance(n.value, ast.BinOp) and isinstance(n.value.left,
                                                         ast.List)):
        if still_callers(n.target.id, n.value):
          out.append((n.target.id, n, 'augmented assignment of a list'))
    elif isinstance(n, ast.Call) and isinstance(n.func, ast.Attribute) and \
        n.func.attr in MUTATORS and isinstance(n.func.value, ast.Name) and \
        n.func.value.id in params:
      if still_callers(n.func.value.id, n):
        out.append((n.func.value.id, n, '.%s()' % n.func.attr))
    elif isinstance(n, (ast.Assign, ast.AugAssign)):
      ts = n.targets if isinstance(n, ast.Assign) else [n.target]
      for t in ts:
        if isinstance(t, ast.Subscript) and isinstance(t.value, ast.Name) \
            and t.value.id in params and still_callers(t.value.id, n.value):
          out.append((t.value.id, n, 'item assignment'))
  return out


def attr_mutations(fn, attrs):
  """Assignments / in-place mutations of self.<attr> for attr in attrs."""
  out = []
  for n in ast.walk(fn.node):
    if isinstance(n, (ast.Assign, ast.AugAssign)):
      ts = n.targets if isinstance(n, ast.Assign) else [n.target]
      for t in ts:
        for x in ast.walk(t):
          d = dotted(x) if isinstance(x, ast.Attribute) else None
          if d and d.startswith('self.') and d[5:] in attrs and isinstance(
              x.ctx, ast.Store):
            out.append((d[5:], n, 'assignment'))
          if isinstance(x, ast.Subscript) and isinstance(x.ctx, ast.Store):
            d = dotted(x.value)
            if d and d.startswith('self.') and d[5:] in attrs:
              out.append((d[5:], n, 'item assignment'))
    elif isinstance(n, ast.Call) and isinstance(n.func, ast.Attribute) and \
        n.func.attr in MUTATORS:
      d = dotted(n.func.value)
      if d and d.startswith('self.') and d[5:] in attrs:
        out.append((d[5:], n, '.%s()' % n.func.attr))
  return out


# ---------------------------------------------------------------------------
def check_config_not_mutated(prog, res, rule='S12'):
  """S12: from_config / deserialize helpers receive the caller's config dict
  (Keras passes the same dict it keeps in the model config) and must not
  mutate it: `config.pop(..)`, `config[k] = ..`, `del config[k]`,
  `config.update(..)` are only allowed after `config` was re-bound to a copy
  (decided with reaching definitions)."""
  import ast as _ast
  from ..cfg import CFG, ReachingDefs, enclosing_stmt
  n = 0
  for fn in prog.all_functions():
    if fn.cls is None or 'config' not in fn.all_params:
      continue
    if not (fn.name == 'from_config' or fn.name.startswith('deserialize')):
      continue
    res.analysed(fn)
    cfg = CFG(fn.node)
    rd = ReachingDefs(cfg, params=fn.all_params)
    muts = []
    for x in _ast.walk(fn.node):
      site = None
      if isinstance(x, _ast.Call) and isinstance(x.func, _ast.Attribute) and \
          dotted(x.func.value) == 'config' and x.func.attr in (
              'pop', 'update', 'clear', 'setdefault', 'popitem'):
        site = x
      elif isinstance(x, _ast.Subscript) and dotted(x.value) == 'config' and \
          isinstance(x.ctx, (_ast.Store, _ast.Del)):
        site = x
      if site is None:
        continue
      st = enclosing_stmt(fn.node, site)
      nid = cfg.node_of(st) if st is not None else None
      if nid is None:
        continue
      defs = rd.defs_reaching(nid, 'config')
      if cfg.entry.id in defs:
        muts.append(site)
    n += 1
    key = '%s|config-untouched' % fn.qualname
    res.check(not muts, rule, key, fn.loc(muts[0] if muts else None),
              'the caller\'s config dict is not mutated',
              '`%s` mutates the config dict passed by the caller (no copy is '
              'made first): a second from_config on the same dict, or '
              'comparing configs afterwards, fails (KeyError / missing key)'
              % (norm_text(muts[0])[:50] if muts else ''))
  return n
