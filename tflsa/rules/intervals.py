"""I1 - sign / interval / monotonicity abstract interpretation of the CDF
code (CDF.call and conditional_cdf.cdf_fn) over all discrete configurations.

Abstract value: closed interval [lo, hi] (floats, +-inf) and the dependence on
the input tensor: const | inc (non-decreasing) | dec | any.  An op outside
the transfer table makes the obligation undischarged -> ANALYSIS-ERROR
(exit 2), never a pass."""
import ast
import itertools
import math

from ..model import AnalysisError, dotted, norm_text, const_value, is_none

INF = float('inf')


class V(object):

  def __init__(self, lo, hi, mono, tag=None):
    self.lo, self.hi, self.mono, self.tag = lo, hi, mono, tag

  def __repr__(self):
    return '[%g, %g] %s' % (self.lo, self.hi, self.mono)


def _neg(m):
  return {'inc': 'dec', 'dec': 'inc'}.get(m, m)


def _join(a, b):
  if a == 'const':
    return b
  if b == 'const':
    return a
  return a if a == b else 'any'


def _mul(a, b):
  cands = []
  for x in (a.lo, a.hi):
    for y in (b.lo, b.hi):
      if (x == 0 and abs(y) == INF) or (y == 0 and abs(x) == INF):
        cands.append(0.0)
      else:
        cands.append(x * y)
  lo, hi = min(cands), max(cands)
  if a.mono == 'const' and b.mono == 'const':
    mono = 'const'
  elif a.mono == 'const':
    mono = b.mono if a.lo >= 0 else (_neg(b.mono) if a.hi <= 0 else 'any')
  elif b.mono == 'const':
    mono = a.mono if b.lo >= 0 else (_neg(a.mono) if b.hi <= 0 else 'any')
  else:
    mono = 'any'
  return V(lo, hi, mono)


class CdfInterp(object):

  def __init__(self, prog, fn, cfg, env):
    self.prog, self.fn = prog, fn
    self.cfg = dict(cfg)     # python-valued configuration
    self.env = dict(env)     # name -> V
    self.defs = {}           # name -> defining expr (for pattern lookups)
    self.eps = None

  def ext(self, c):
    return self.prog.ext_name(self.fn.module, c.func) if isinstance(
        c, ast.Call) else None

  def cval(self, e):
    """concrete configuration value or raises KeyError"""
    if isinstance(e, ast.Constant):
      return e.value
    d = dotted(e)
    if d in self.cfg:
      return self.cfg[d]
    c = const_value(e, default=KeyError)
    if c is not KeyError:
      return c
    raise KeyError(d)

  def test(self, t):
    if isinstance(t, ast.UnaryOp) and isinstance(t.op, ast.Not):
      v = self.test(t.operand)
      return None if v is None else (not v)
    if isinstance(t, ast.BoolOp):
      vs = [self.test(v) for v in t.values]
      if isinstance(t.op, ast.And):
        return False if any(v is False for v in vs) else (
            None if any(v is None for v in vs) else True)
      return True if any(v is True for v in vs) else (
          None if any(v is None for v in vs) else False)
    d = dotted(t)
    if d is not None and d in self.cfg and isinstance(self.cfg[d], bool):
      return self.cfg[d]
    if isinstance(t, ast.Compare) and len(t.ops) == 1:
      try:
        l, r = self.cval(t.left), self.cval(t.comparators[0])
      except KeyError:
        return None
      op = t.ops[0]
      if isinstance(op, ast.Eq):
        return l == r
      if isinstance(op, ast.NotEq):
        return l != r
      if isinstance(op, ast.Is):
        return l is r
      if isinstance(op, ast.IsNot):
        return l is not r
    return None

  def val(self, e):
    if isinstance(e, ast.Constant) and isinstance(e.value, (int, float)):
      return V(float(e.value), float(e.value), 'const')
    d = dotted(e)
    if d is not None:
      if d in self.env:
        return self.env[d]
      if d in self.cfg and isinstance(self.cfg[d], (int, float)) and not \
          isinstance(self.cfg[d], bool):
        return V(float(self.cfg[d]), float(self.cfg[d]), 'const')
      raise AnalysisError('%s: value of %s is not modelled' % (
          self.fn.loc(e), d))
    if isinstance(e, ast.Subscript):
      return self.val(e.value)
    if isinstance(e, ast.UnaryOp) and isinstance(e.op, ast.USub):
      v = self.val(e.operand)
      return V(-v.hi, -v.lo, _neg(v.mono))
    if isinstance(e, ast.BinOp):
      if isinstance(e.op, ast.Div):
        a = self.val(e.left)
        # sum over the reduced axis divided by its length = mean
        if a.tag == 'sum' and isinstance(e.right, ast.Name):
          dn = self.defs.get(e.right.id)
          if dn is not None and 'input_dim' in norm_text(dn) and \
              'sparsity_factor' in norm_text(dn) and '//' in norm_text(dn):
            return V(a.lo, a.hi, a.mono)
          raise AnalysisError('%s: reduce_sum divided by %s, which is not '
                              'recognisably the reduced axis length' % (
                                  self.fn.loc(e), norm_text(e.right)))
        b = self.val(e.right)
        if b.mono == 'const' and b.lo == b.hi and b.lo > 0:
          return V(a.lo / b.lo, a.hi / b.lo, a.mono)
        raise AnalysisError('%s: division by a non-constant' % self.fn.loc(e))
      a, b = self.val(e.left), self.val(e.right)
      if isinstance(e.op, ast.Add):
        return V(a.lo + b.lo, a.hi + b.hi, _join(a.mono, b.mono))
      if isinstance(e.op, ast.Sub):
        return V(a.lo - b.hi, a.hi - b.lo, _join(a.mono, _neg(b.mono)))
      if isinstance(e.op, ast.Mult):
        return _mul(a, b)
      raise AnalysisError('%s: operator %s not modelled' % (
          self.fn.loc(e), type(e.op).__name__))
    if isinstance(e, ast.Call):
      x = self.ext(e)
      kw = {k.arg: k.value for k in e.keywords}
      if x in ('tf.nn.relu6',):
        v = self.val(e.args[0])
        return V(min(max(v.lo, 0.0), 6.0), min(max(v.hi, 0.0), 6.0), v.mono)
      if x in ('tf.nn.relu',):
        v = self.val(e.args[0])
        return V(max(v.lo, 0.0), max(v.hi, 0.0), v.mono)
      if x in ('tf.nn.sigmoid', 'tf.sigmoid', 'tf.math.sigmoid'):
        v = self.val(e.args[0])
        return V(0.0, 1.0, v.mono)
      if x in ('tf.reduce_mean', 'tf.reshape', 'tf.identity', 'tf.squeeze',
               'tf.expand_dims', 'tf.transpose', 'tf.cast'):
        v = self.val(e.args[0])
        if x == 'tf.reduce_mean':
          ax = const_value(kw.get('axis', e.args[1] if len(e.args) > 1 else
                                  None))
          if ax in (0, None):
            raise AnalysisError('%s: reduce_mean over the batch axis' %
                                self.fn.loc(e))
        return V(v.lo, v.hi, v.mono)
      if x == 'tf.reduce_sum':
        v = self.val(e.args[0])
        ax = const_value(kw.get('axis', e.args[1] if len(e.args) > 1 else
                                None))
        if ax in (0, None):
          raise AnalysisError('%s: reduce_sum over the batch axis' %
                              self.fn.loc(e))
        return V(v.lo, v.hi, v.mono, tag='sum')
      if x in ('tf.math.log', 'tf.log'):
        v = self.val(e.args[0])
        if v.lo <= 0:
          raise AnalysisError('%s: log of a value that may be <= 0 (%s)' % (
              self.fn.loc(e), v))
        arg = e.args[0]
        if isinstance(arg, ast.BinOp) and isinstance(arg.op, ast.Add):
          c = const_value(arg.right)
          if isinstance(c, float):
            self.eps = c
        return V(math.log(v.lo), math.log(v.hi), v.mono, tag=v.tag)
      if x in ('tf.math.exp', 'tf.exp'):
        v = self.val(e.args[0])
        return V(math.exp(v.lo) if v.lo > -INF else 0.0,
                 math.exp(v.hi) if v.hi < INF else INF, v.mono)
      if x in ('tf.ones_like',):
        return V(1.0, 1.0, 'const')
      if x in ('int', 'float') or dotted(e.func) in ('int', 'float'):
        return self.val(e.args[0])
      raise AnalysisError('%s: op %s is outside the I1 transfer table' % (
          self.fn.loc(e), x or norm_text(e.func)))
    if isinstance(e, ast.Constant) and (e.value is None or isinstance(
        e.value, (str, bytes))):
      return V(-INF, INF, None)        # not a number: carries no information
    raise AnalysisError('%s: expression %s not modelled' % (
        self.fn.loc(e), type(e).__name__))

  def run(self, stmts):
    for st in stmts:
      if isinstance(st, ast.Expr):
        continue
      if isinstance(st, ast.Assign) and isinstance(st.targets[0], ast.Name):
        name = st.targets[0].id
        self.defs[name] = st.value
        if name in ('input_dim', 'num_terms'):
          continue
        self.env[name] = self.val(st.value)
        continue
      if isinstance(st, ast.AugAssign) and isinstance(st.target, ast.Name):
        cur = self.env[st.target.id]
        rhs = self.val(st.value)
        if isinstance(st.op, ast.Mult):
          self.env[st.target.id] = _mul(cur, rhs)
          continue
        # x op= y is x = x op y for the values modelled here
        e = ast.copy_location(ast.BinOp(
            left=ast.copy_location(ast.Name(id=st.target.id, ctx=ast.Load()),
                                   st.target),
            op=st.op, right=st.value), st)
        self.env[st.target.id] = self.val(e)
        continue
      if isinstance(st, ast.If):
        t = self.test(st.test)
        if t is None:
          raise AnalysisError('%s: test %s not decided by the '
                              'configuration' % (self.fn.loc(st),
                                                 norm_text(st.test)[:50]))
        r = self.run(st.body if t else st.orelse)
        if r is not None:
          return r
        continue
      if isinstance(st, ast.Pass):
        continue
      if isinstance(st, ast.Raise):
        return 'raise'
      if isinstance(st, ast.Return):
        v = st.value
        if isinstance(v, ast.Tuple):
          v = v.elts[0]
        return self.val(v)
      raise AnalysisError('%s: statement %s not modelled' % (
          self.fn.loc(st), type(st).__name__))
    return None


def check_cdf(prog, res, rule='I1'):
  n = 0
  # ---- CDF.call
  call = prog.function('cdf_layer.CDF.call')
  res.analysed(call)
  for act, red, sp in itertools.product(('relu6', 'sigmoid'),
                                        ('mean', 'geometric_mean', 'none'),
                                        (1, 2)):
    cfg = {'self.activation': act, 'self.reduction': red,
           'self.sparsity_factor': sp, 'self.units': 2}
    env = {'inputs': V(-INF, INF, 'inc'),
           'self.kernel': V(-INF, INF, 'const'),
           'self.input_scaling': V(0.0, INF, 'const')}
    it = CdfInterp(prog, call, cfg, env)
    out = it.run(call.node.body)
    n += _judge(res, rule, call, 'act=%s,red=%s,sparsity=%d' % (act, red, sp),
                out, red, it.eps)
  # ---- cdf_fn
  fn = prog.function('conditional_cdf.cdf_fn')
  res.analysed(fn)
  for act, red, sp, sc, mult in itertools.product(
      ('relu6', 'sigmoid'), ('mean', 'geometric_mean', 'none'), (1, 2),
      (None, 'given'), (None, 1.0)):
    if sc is None and mult is not None:
      continue
    cfg = {'activation': act, 'reduction': red, 'sparsity_factor': sp,
           'units': 2, 'scaling_exp_transform_multiplier': mult,
           'return_derived_parameters': False}
    env = {'inputs': V(-INF, INF, 'inc'),
           'location_parameters': V(-INF, INF, 'const')}
    if sc is None:
      cfg['scaling_parameters'] = None
    else:
      # free-form when the exp transform is used; non-negative by the
      # caller's promise otherwise (as the property states)
      env['scaling_parameters'] = V(-INF, INF, 'const') if mult is not None \
          else V(0.0, INF, 'const')
      cfg['scaling_parameters'] = 'tensor'
    it = CdfInterp(prog, fn, cfg, env)
    body = [s for s in fn.node.body if not (isinstance(s, ast.Expr))]
    out = it.run(body)
    n += _judge(res, rule, fn, 'act=%s,red=%s,sparsity=%d,scaling=%s,exp=%s' %
                (act, red, sp, sc, mult), out, red, it.eps)
  # ---- NonNeg exactly when input_scaling_monotonicity
  build = prog.function('cdf_layer.CDF.build')
  res.analysed(build)
  sites = 0
  for c in ast.walk(build.node):
    if isinstance(c, ast.Call) and isinstance(c.func, ast.Attribute) and \
        c.func.attr == 'add_weight' and c.args and const_value(
            c.args[0]) == 'input_scaling':
      sites += 1
      kw = {k.arg: k.value for k in c.keywords}
      v = kw.get('constraint')
      good = (isinstance(v, ast.IfExp) and dotted(v.test) ==
              'self.input_scaling_monotonicity' and isinstance(
                  v.body, ast.Call) and (prog.ext_name(
                      build.module, v.body.func) or '').endswith('NonNeg')
              and is_none(v.orelse))
      res.check(good, rule, '%s|NonNeg#%d' % (build.qualname, sites),
                build.loc(c),
                'learned input scaling carries NonNeg exactly when '
                'input_scaling_monotonicity',
                'the learned input scaling is not constrained with NonNeg() '
                'under input_scaling_monotonicity: a negative scaling makes '
                'the CDF decreasing')
      n += 1
  if sites != 2:
    raise AnalysisError('CDF.build: expected 2 learned input_scaling '
                        'variables, found %d' % sites)
  res.exhaustive = True
  return n


def _judge(res, rule, fn, label, out, red, eps):
  key = '%s|%s' % (fn.qualname, label)
  if out == 'raise' or out is None:
    res.violation(rule, key, fn.loc(),
                  'configuration %s raises / returns nothing although the '
                  'validator accepts it' % label)
    return 1
  if red == 'geometric_mean':
    if eps is None:
      raise AnalysisError('%s: stabilising epsilon of the geometric mean not '
                          'found' % fn.qualname)
    lo, hi = eps, 1.0 + eps
  else:
    lo, hi = 0.0, 1.0
  tol = 1e-12
  in_range = out.lo >= lo - tol and out.hi <= hi + tol
  res.check(in_range and out.mono == 'inc', rule, key, fn.loc(),
            'output in [%g, %g], non-decreasing in the input' % (out.lo,
                                                                 out.hi),
            'for %s the output is %s; required: within [%g, %g] and '
            'non-decreasing in every input' % (label, out, lo, hi))
  return 1
