"""A5 / L3 - stencil coverage: a loop `for v in range(a, size - c)` whose body
indexes an unstacked weight grid with v + k must (i) index the axis whose size
is `size`, and (ii) cover that axis completely: a + min(k) == 0 and
(size - c - 1) + max(k) == size - 1."""
import ast

from ..model import AnalysisError, dotted, norm_text, const_value, names_read


def _affine_in(expr, var):
  """expr == var + k  ->  k ; None when expr is not of that form."""
  if dotted(expr) == var:
    return 0
  if isinstance(expr, ast.BinOp) and isinstance(expr.op, (ast.Add, ast.Sub)):
    if dotted(expr.left) == var:
      k = const_value(expr.right)
      if isinstance(k, int):
        return k if isinstance(expr.op, ast.Add) else -k
    if isinstance(expr.op, ast.Add) and dotted(expr.right) == var:
      k = const_value(expr.left)
      if isinstance(k, int):
        return k
  return None


def _resolve_local(fn_node, name, before_line, want_stmt=False):
  """single preceding definition `name = expr` in fn (by line order)."""
  # positions are (line, column): statements of an inlined helper all sit on
  # the line of the call, at increasing columns
  if isinstance(before_line, tuple):
    before = before_line
  else:
    before = (before_line, -1)
  best = None
  for st in ast.walk(fn_node):
    if isinstance(st, ast.Assign) and len(st.targets) == 1 and dotted(
        st.targets[0]) == name and (st.lineno, st.col_offset) < before:
      if best is None or (st.lineno, st.col_offset) > (best.lineno,
                                                       best.col_offset):
        best = st
  if want_stmt:
    return best
  return best.value if best is not None else None


def size_form(fn_node, expr, line, depth=0):
  """(size symbol text, c) for `size - c`; size symbol is normalised text of
  lattice_sizes[<dim>] / len(<x>) ; None when not recognised."""
  if isinstance(expr, ast.BinOp) and isinstance(expr.op, ast.Sub):
    c = const_value(expr.right)
    inner = size_form(fn_node, expr.left, line, depth)
    if isinstance(c, int) and inner is not None:
      return (inner[0], inner[1] + c)
    return None
  if isinstance(expr, ast.Subscript) and dotted(expr.value) in (
      'lattice_sizes',):
    idx = expr.slice
    if isinstance(idx, ast.Name) and depth < 3:
      pass
    return ('lattice_sizes[%s]' % norm_text(expr.slice), 0)
  if isinstance(expr, ast.Call) and dotted(expr.func) == 'len' and expr.args:
    return ('len(%s)' % norm_text(expr.args[0]), 0)
  if isinstance(expr, ast.Name) and depth < 3:
    v = _resolve_local(fn_node, expr.id, line)
    if v is not None:
      return size_form(fn_node, v, line, depth + 1)
  return None


def container_axes(prog, fn, fn_node, name, line):
  """sizes of the leading index positions of list-of-tensors `name`."""
  st = _resolve_local(fn_node, name, line, want_stmt=True)
  v = st.value if st is not None else None
  # skip symmetric re-orderings of the same list
  guard = 0
  while isinstance(v, ast.Call) and getattr(
      prog.resolve_call(fn, v), 'name', '') == \
      '_reverse_second_list_dimension' and guard < 4:
    st = _resolve_local(fn_node, name, (st.lineno, st.col_offset),
                        want_stmt=True)
    v = st.value if st is not None else None
    guard += 1
  if not isinstance(v, ast.Call):
    return None
  r = prog.resolve_call(fn, v)
  if getattr(r, 'name', None) == '_unstack_nd':
    dims = v.args[1] if len(v.args) >= 2 else {
        k.arg: k.value for k in v.keywords}.get('dims')
    if isinstance(dims, (ast.List, ast.Tuple)):
      return ['lattice_sizes[%s]' % norm_text(d) for d in dims.elts]
  ext = prog.ext_name(fn.module, v.func)
  if ext == 'tf.unstack':
    return ['len(%s)' % name]
  return None


def check_stencils(prog, res, fn, rule='A5', containers=('weights_layers',
                                                       'keypoints', 'layers'),
                   require_step=None):
  n = 0
  for loop in ast.walk(fn.node):
    # for i, j in zip(range(a), range(b)): the variables index two different
    # axes of a vertex container -> only the diagonal of the a x b grid is
    # visited (the grid needs nested loops / itertools.product)
    if isinstance(loop, ast.For) and isinstance(loop.iter, ast.Call) and \
        dotted(loop.iter.func) == 'zip' and isinstance(
            loop.target, ast.Tuple) and all(
                isinstance(a, ast.Call) and dotted(a.func) == 'range'
                for a in loop.iter.args) and len(loop.iter.args) > 1:
      vars_ = [t.id for t in loop.target.elts if isinstance(t, ast.Name)]
      axes_of = {}
      for sub in ast.walk(loop):
        if not isinstance(sub, ast.Subscript):
          continue
        chain = []
        cur = sub
        while isinstance(cur, ast.Subscript):
          chain.append(cur.slice)
          cur = cur.value
        if dotted(cur) not in containers:
          continue
        chain.reverse()
        for pos, e in enumerate(chain):
          for v in vars_:
            if _affine_in(e, v) is not None:
              axes_of.setdefault(v, set()).add(pos)
      used = [v for v in vars_ if axes_of.get(v)]
      if len(used) > 1 and len({min(axes_of[v]) for v in used}) > 1:
        n += 1
        res.violation(rule, '%s|for %s in %s|grid' % (
            fn.qualname, ','.join(vars_), norm_text(loop.iter)[:40]),
                      fn.loc(loop),
                      'the indices %s are paired by zip() but index different '
                      'axes of the vertex container: only the diagonal of the '
                      'grid is visited, every other pair of rows is never '
                      'checked' % used)
      continue
    if not (isinstance(loop, ast.For) and isinstance(loop.iter, ast.Call)
            and dotted(loop.iter.func) == 'range'
            and isinstance(loop.target, ast.Name)):
      continue
    var = loop.target.id
    args = loop.iter.args
    if len(args) == 1:
      start, stop, step = 0, args[0], 1
    elif len(args) >= 2:
      start, stop = const_value(args[0]), args[1]
      step = const_value(args[2]) if len(args) > 2 else 1
    else:
      continue
    uses = []    # (container, axis position, k, node)
    for sub in ast.walk(loop):
      if not isinstance(sub, ast.Subscript):
        continue
      # collect the subscript chain  C[e0][e1]...
      chain = []
      cur = sub
      while isinstance(cur, ast.Subscript):
        chain.append(cur.slice)
        cur = cur.value
      base = dotted(cur)
      if base not in containers:
        continue
      chain.reverse()
      # only the outermost chain node (avoid counting prefixes twice)
      for pos, e in enumerate(chain):
        if pos != len(chain) - 1 and False:
          pass
      k = _affine_in(chain[-1], var)
      if k is not None:
        uses.append((base, len(chain) - 1, k, sub))
    if not uses:
      continue
    descending = False
    if step == -1 and len(args) == 3 and const_value(args[1]) == -1:
      # range(size - c, -1, -1): indices size-c .. 0
      descending = True
      stop = args[0]
      start = 0
    if not isinstance(start, int) or not isinstance(step, int):
      raise AnalysisError('%s: loop over %s has non-literal start/step' % (
          fn.loc(loop), var))
    sf = size_form(fn.node, stop, loop.lineno)
    if descending and sf is not None:
      sf = (sf[0], sf[1] - 1)     # last index size-c  ==  stop-form size-(c-1)
      step = 1
    key = '%s|for %s in %s' % (fn.qualname, var, norm_text(loop.iter)[:40])
    if sf is None:
      raise AnalysisError('%s: cannot resolve the bound of loop `%s`' % (
          fn.loc(loop), norm_text(loop.iter)))
    size, c = sf
    ks = sorted({u[2] for u in uses})
    n += 1
    # (i) axis agreement
    bad_axis = None
    for base, pos, k, node in uses:
      axes = container_axes(prog, fn, fn.node, base,
                            (node.lineno, node.col_offset))
      if axes is None:
        raise AnalysisError('%s: cannot resolve the layout of %s' % (
            fn.loc(node), base))
      if pos >= len(axes):
        continue    # index into the remaining tensor axes
      ax_size = axes[pos]
      if ax_size != size and not (ax_size.startswith('len(') and
                                  size.startswith('len(')):
        bad_axis = (base, pos, ax_size)
    res.check(bad_axis is None, rule, key + '|axis', fn.loc(loop),
              'loop over %s indexes the axis of that size' % size,
              'loop variable %s ranges over %s but indexes axis %d of %s, '
              'whose size is %s' % ((var, size) + (bad_axis[1], bad_axis[0],
                                                   bad_axis[2])
                                    if bad_axis else (var, size, 0, '', '')))
    # (ii) coverage (unit step) / parity partition (step 2 handled by L3)
    if step == 1:
      lo = start + ks[0]
      hi_gap = -c + ks[-1]     # (size - c - 1 + kmax) - (size - 1)
      res.check(lo == 0 and hi_gap == 0, rule, key + '|coverage',
                fn.loc(loop),
                'indices %s + %s cover 0 .. %s-1 exactly' % (var, ks, size),
                'loop `%s` with index offsets %s covers %d .. %s%+d instead '
                'of 0 .. %s-1: %s is never checked' % (
                    norm_text(loop.iter), ks, lo, size, hi_gap - 1, size,
                    'the last row/column' if hi_gap < 0 else
                    'the first row/column' if lo > 0 else
                    'an out-of-range index'))
    elif require_step is not None:
      res.check(step == require_step, rule, key + '|step', fn.loc(loop),
                'stride %d' % step, 'stride %s, expected %s' % (step,
                                                               require_step))
  return n
