"""E3 - axis and effect discipline.

X2 (batch independence): in every evaluation function the tensors derived
from the input parameter carry the batch axis at position 0.  No reduction,
scan, sort or normalisation may run over that axis, every reshape keeps a
leading -1, and in a matmul the batched tensor is the left operand without
transpose_a.  The analysis is a forward taint analysis that follows calls into
repo functions (memoised by function and tainted parameter set).

X1 (unit independence): in the projection libraries no reduction / scan /
sort runs over the units axis of the documented kernel layout."""
import ast

from ..model import (AnalysisError, FunctionInfo, ClassInfo, dotted, norm_text,
                     names_read, call_args, const_value, is_none)

REDUCERS = {'reduce_max', 'reduce_min', 'reduce_sum', 'reduce_mean',
            'reduce_prod', 'reduce_all', 'reduce_any', 'reduce_logsumexp',
            'reduce_std', 'reduce_variance', 'count_nonzero',
            'reduce_euclidean_norm'}
SCANS_DEFAULT0 = {'cumsum', 'cumprod', 'unstack', 'reverse', 'roll'}
LAST_DEFAULT = {'sort', 'argsort', 'softmax', 'log_softmax', 'top_k'}
NORMS = {'norm'}
ELEMENTWISE_OK = None   # everything else: taint propagates, no obligation


def axis_literal(fn, expr):
  """int literal, 'none' (explicit None / omitted -> caller decides), or the
  text of a non-literal axis expression."""
  if expr is None:
    return 'omitted'
  if is_none(expr):
    return 'none'
  v = const_value(expr, default=AnalysisError)
  if v is not AnalysisError and isinstance(v, int) and not isinstance(v, bool):
    return v
  if isinstance(expr, (ast.List, ast.Tuple)):
    vals = [const_value(e, default=AnalysisError) for e in expr.elts]
    if all(isinstance(x, int) for x in vals):
      return tuple(vals)
  return 'expr:' + norm_text(expr)[:40]


class Site(object):
  __slots__ = ('fn', 'node', 'op', 'axis', 'operand', 'kind', 'chain')

  def __init__(self, fn, node, op, axis, operand, kind, chain):
    self.fn, self.node, self.op = fn, node, op
    self.axis, self.operand, self.kind, self.chain = axis, operand, kind, chain


class BatchTaint(object):

  def __init__(self, prog):
    self.prog = prog
    self.sites = []
    self.unknown = []
    self._done = set()

  # -- taint of names ------------------------------------------------------
  def analyse(self, fn, tainted_params, chain=()):
    key = (fn.qualname, tuple(sorted(tainted_params)))
    if key in self._done or len(chain) > 8:
      return
    self._done.add(key)
    chain = chain + (fn.qualname,)
    tainted = set(tainted_params)
    assigns = []
    for n in ast.walk(fn.node):
      if isinstance(n, ast.Assign):
        for t in n.targets:
          assigns.append((t, n.value))
      elif isinstance(n, ast.AugAssign):
        assigns.append((n.target, n.value))
      elif isinstance(n, (ast.For, ast.comprehension)):
        assigns.append((n.target, n.iter))
      elif isinstance(n, ast.withitem) and n.optional_vars is not None:
        assigns.append((n.optional_vars, n.context_expr))
    changed = True
    while changed:
      changed = False
      for t, v in assigns:
        if self.is_tainted(fn, v, tainted):
          for x in ast.walk(t):
            if isinstance(x, ast.Name) and x.id not in tainted:
              tainted.add(x.id)
              changed = True
            elif isinstance(x, ast.Attribute) and dotted(x) and dotted(
                x) not in tainted and dotted(x).startswith('self.'):
              tainted.add(dotted(x))
              changed = True
    # sites
    for c in ast.walk(fn.node):
      if isinstance(c, ast.Call):
        self.visit_call(fn, c, tainted, chain)

  def is_tainted(self, fn, expr, tainted):
    if expr is None:
      return False
    for n in ast.walk(expr):
      if isinstance(n, ast.Name) and n.id in tainted:
        # x.shape / len(x) / x.dtype are configuration, not data
        return self._data_use(expr, n)
      if isinstance(n, ast.Attribute) and dotted(n) in tainted:
        return True
    return False

  def _data_use(self, root, name_node):
    """False when every use of the tainted name inside root is a shape /
    dtype / rank query."""
    from ..cfg import _path_to
    for n in ast.walk(root):
      if isinstance(n, ast.Name) and n.id == name_node.id:
        path = _path_to(root, n) if n is not root else []
        meta = False
        for parent, field, idx, child in reversed(path or []):
          if isinstance(parent, ast.Attribute) and parent.attr in (
              'shape', 'dtype', 'get_shape', 'name'):
            meta = True
            break
          if isinstance(parent, ast.Call) and dotted(parent.func) in (
              'len', 'isinstance', 'type', 'tf.shape', 'tf.rank', 'tf.size',
              'tf.ones_like', 'tf.zeros_like'):
            meta = True
            break
        if not meta:
          return True
    return False

  # -- sites -----------------------------------------------------------------
  def visit_call(self, fn, c, tainted, chain):
    ext = self.prog.ext_name(fn.module, c.func)
    kw = {k.arg: k.value for k in c.keywords if k.arg}
    if ext and ext.split('.')[0] in ('tf', 'np'):
      op = ext.split('.')[-1]
      args = c.args
      x = args[0] if args else kw.get('input_tensor', kw.get('tensor', kw.get(
          'values', kw.get('x', kw.get('a')))))
      if op in REDUCERS or op in SCANS_DEFAULT0 or op in LAST_DEFAULT or \
          op in NORMS:
        if not self.is_tainted(fn, x, tainted):
          return
        ax = kw.get('axis', args[1] if len(args) > 1 and op in REDUCERS | {
            'cumsum', 'cumprod', 'unstack', 'norm'} else None)
        if op == 'norm':
          ax = kw.get('axis')
        self.sites.append(Site(fn, c, op, axis_literal(fn, ax), x, 'reduce',
                               chain))
        return
      if op == 'reshape':
        if not self.is_tainted(fn, x, tainted):
          return
        shp = kw.get('shape', args[1] if len(args) > 1 else None)
        self.sites.append(Site(fn, c, op, shp, x, 'reshape', chain))
        return
      if op in ('matmul', 'tensordot', 'einsum'):
        a = args[0] if args else kw.get('a')
        b = args[1] if len(args) > 1 else kw.get('b')
        ta, tb = self.is_tainted(fn, a, tainted), self.is_tainted(
            fn, b, tainted)
        if ta or tb:
          self.sites.append(Site(fn, c, op, (ta, tb, kw), a, 'matmul', chain))
        return
      if op in ('transpose',):
        if self.is_tainted(fn, x, tainted):
          perm = kw.get('perm', args[1] if len(args) > 1 else None)
          self.sites.append(Site(fn, c, op, perm, x, 'transpose', chain))
        return
      if op in ('concat', 'stack'):
        parts = args[0] if args else kw.get('values')
        if self.is_tainted(fn, parts, tainted):
          ax = kw.get('axis', args[1] if len(args) > 1 else None)
          self.sites.append(Site(fn, c, op, axis_literal(fn, ax), parts,
                                 'concat', chain))
        return
      if op in ('gather', 'gather_nd', 'split', 'boolean_mask', 'unique',
                'dynamic_partition', 'segment_sum', 'scatter_nd'):
        if self.is_tainted(fn, x, tainted):
          ax = kw.get('axis', None)
          self.sites.append(Site(fn, c, op, axis_literal(fn, ax), x,
                                 'index', chain))
        return
      return
    # repo callee: propagate
    r = self.prog.resolve_call(fn, c)
    if isinstance(r, ClassInfo):
      return
    if isinstance(r, FunctionInfo):
      params = r.all_params
      bound, extras, _ = call_args(c, params)
      tp = {p for p, v in bound.items() if self.is_tainted(fn, v, tainted)}
      if tp:
        self.analyse(r, tp, chain)
      return
    # self._layer(...) style calls on attributes: unknown callee with
    # tainted argument
    if isinstance(c.func, ast.Attribute) and any(
        self.is_tainted(fn, a, tainted) for a in c.args):
      d = dotted(c.func) or norm_text(c.func)
      if d.startswith('self.') or d.split('.')[-1] in ('map_flat_values',):
        self.unknown.append((fn, c, d))


def check_batch_independence(prog, res, entries, rule='X2', allow=None):
  """entries: [(function qualname, [tainted parameter names])]"""
  allow = allow or {}
  bt = BatchTaint(prog)
  for q, params in entries:
    fn = prog.function(q)
    res.analysed(fn)
    bt.analyse(fn, set(params))
  n = 0
  for s in bt.sites:
    fn = s.fn
    res.analysed(fn)
    key = '%s|%s(%s)' % (fn.qualname, s.op, norm_text(s.operand)[:36])
    loc = fn.loc(s.node)
    n += 1
    if (fn.qualname, s.op) in allow:
      res.ok(rule, key, loc, 'allowed: ' + allow[(fn.qualname, s.op)])
      continue
    if s.kind == 'reduce':
      ax = s.axis
      if ax == 'omitted':
        if s.op in LAST_DEFAULT:
          res.ok(rule, key, loc, '%s over its default last axis' % s.op)
        else:
          res.violation(rule, key, loc,
                        '%s on a batched tensor without axis= runs over %s: '
                        'rows of the batch are mixed' % (
                            s.op, 'ALL axes' if s.op in REDUCERS or
                            s.op == 'norm' else 'axis 0 (the batch axis)'))
      elif ax == 'none':
        res.violation(rule, key, loc,
                      '%s(axis=None) on a batched tensor reduces the batch '
                      'axis' % s.op)
      elif isinstance(ax, int):
        res.check(ax != 0, rule, key, loc, '%s over axis %d' % (s.op, ax),
                  '%s over axis 0 of a batched tensor: the result of one '
                  'example depends on the other examples in the batch' % s.op)
      elif isinstance(ax, tuple):
        res.check(0 not in ax, rule, key, loc, '%s over axes %s' % (s.op, ax),
                  '%s over axes %s includes the batch axis' % (s.op, ax))
      else:
        # symbolic axis: resolve closures / parameters one level
        lit = _resolve_symbolic_axis(prog, fn, s, bt)
        if lit is None:
          raise AnalysisError('%s: axis %s of %s on a batched tensor is not a '
                              'literal' % (loc, ax, s.op))
        res.check(all(l != 0 for l in lit), rule, key, loc,
                  '%s over axis %s (resolved at the call sites)' % (s.op, lit),
                  '%s over axis 0 of a batched tensor (axis resolved from %s)'
                  % (s.op, lit))
    elif s.kind == 'reshape':
      shp = s.axis
      first = _first_dim(fn, shp)
      res.check(first == -1, rule, key, loc,
                'reshape keeps the leading batch axis (-1)',
                'reshape of a batched tensor to %s does not keep a leading -1: '
                'rows of the batch are re-cut' % (norm_text(shp)[:50] if shp
                                                 is not None else '?'))
    elif s.kind == 'matmul':
      ta, tb, kw = s.axis
      bad = (tb and not ta) or const_value(kw.get('transpose_a'), False) or \
          const_value(kw.get('adjoint_a'), False)
      if ta and tb:
        bad = False    # batched x batched: rank >= 3 batch matmul
      res.check(not bad and s.op == 'matmul', rule, key, loc,
                'batched operand on the left, contraction over its last axis',
                '%s contracts over the batch axis (batched operand on the '
                'right or transposed)' % s.op)
    elif s.kind == 'transpose':
      perm = s.axis
      first = _first_dim(fn, perm)
      res.check(first == 0, rule, key, loc, 'transpose keeps axis 0 first',
                'transpose moves the batch axis of a batched tensor (perm=%s)'
                % (norm_text(perm) if perm is not None else 'reversed'))
    elif s.kind == 'concat':
      ax = s.axis
      res.check(isinstance(ax, int) and ax != 0, rule, key, loc,
                '%s along axis %s' % (s.op, ax),
                '%s of batched tensors along axis %s changes / interleaves '
                'the batch' % (s.op, ax))
    elif s.kind == 'index':
      ax = s.axis
      if s.op in ('split',):
        res.check(isinstance(ax, int) and ax != 0, rule, key, loc,
                  'split along axis %s' % (ax,),
                  'split of a batched tensor along %s cuts the batch' % (
                      'its default axis 0' if ax == 'omitted' else
                      'axis %s' % (ax,)))
      elif s.op in ('gather',):
        res.check(isinstance(ax, int) and ax != 0, rule, key, loc,
                  'gather along axis %s' % ax,
                  'gather on a batched tensor along axis %s selects / '
                  'permutes rows of the batch' % ax)
      else:
        raise AnalysisError('%s: %s on a batched tensor is not modelled' % (
            loc, s.op))
  res.extra['batched_sites'] = n
  res.extra['opaque_batched_callees'] = [
      '%s: %s' % (f.loc(c), d) for f, c, d in bt.unknown]
  return n, bt


def _first_dim(fn, shp):
  if shp is None:
    return None
  if isinstance(shp, (ast.List, ast.Tuple)) and shp.elts:
    return const_value(shp.elts[0])
  if isinstance(shp, ast.BinOp) and isinstance(shp.op, ast.Add):
    return _first_dim(fn, shp.left)
  if isinstance(shp, ast.Subscript) and isinstance(shp.slice, ast.Slice) and \
      shp.slice.lower is None and isinstance(shp.value, ast.Name):
    fake = ast.Name(id=shp.value.id, ctx=ast.Load())
    fake.lineno = shp.lineno
    return _first_dim(fn, fake)
  if isinstance(shp, ast.Name):
    # single preceding definition
    best = None
    for st in ast.walk(fn.node):
      if isinstance(st, ast.Assign) and dotted(st.targets[0]) == shp.id and \
          st.lineno < shp.lineno:
        if best is None or st.lineno > best.lineno:
          best = st
    if best is not None:
      return _first_dim(fn, best.value)
  return None


def _resolve_symbolic_axis(prog, fn, site, bt):
  """axis given as a name: a parameter (resolve at every call site) or a
  closure variable of the enclosing function."""
  text = site.axis[5:] if isinstance(site.axis, str) else None
  if text is None:
    return None
  owner = fn
  # closure: walk up parents
  cands = []
  f = fn
  while f is not None:
    if text in f.all_params:
      cands.append(f)
      break
    f = f.parent
  if not cands:
    return None
  target = cands[0]
  out = []
  for g in prog.all_functions():
    for c in ast.walk(g.node):
      if isinstance(c, ast.Call) and prog.resolve_call(g, c) is target:
        bound, _, _ = call_args(c, target.all_params)
        v = bound.get(text)
        lit = const_value(v, default=None) if v is not None else None
        if not isinstance(lit, int):
          return None
        out.append(lit)
  return out or None
