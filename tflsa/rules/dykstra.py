"""L4 - Dykstra bookkeeping: every group projection reads last_change[K],
projects the rolled-back value, and writes last_change[K] = new - rolled_back
with the identical key K; K names every enclosing loop variable that
distinguishes constraint instances; keys of different families differ."""
import ast

from ..model import AnalysisError, dotted, norm_text, names_read, const_value


def _is_change_dict(name):
  return name is not None and name.startswith('last') and name.endswith(
      'change')


def _key_text(sub):
  return norm_text(sub.slice)


def _enclosing_loops(root, target):
  """For-loop targets enclosing `target` inside root (outermost first)."""
  from ..cfg import _path_to
  path = _path_to(root, target) or []
  loops = []
  for parent, field, idx, child in path:
    if isinstance(parent, ast.For) and field == 'body':
      loops.append(parent)
  return loops


def check_bookkeeping(prog, res, fn, body_node, rule='L4', label=None):
  """body_node: the FunctionDef of the per-iteration body."""
  label = label or fn.qualname
  writes = []
  for st in ast.walk(body_node):
    if isinstance(st, ast.Assign) and len(st.targets) == 1 and isinstance(
        st.targets[0], ast.Subscript) and _is_change_dict(
            dotted(st.targets[0].value)):
      writes.append(st)
  writes.sort(key=lambda s: s.lineno)
  families = {}
  n = 0
  for w in writes:
    d = dotted(w.targets[0].value)
    key = _key_text(w.targets[0])
    val = w.value
    n += 1
    okey = '%s|%s[%s]' % (label, d, key[:50])
    if not (isinstance(val, ast.BinOp) and isinstance(val.op, ast.Sub)
            and isinstance(val.left, ast.Name)
            and isinstance(val.right, ast.Name)):
      res.violation(rule, okey, fn.loc(w),
                    'last change is not recorded as <new> - <rolled back>: %s'
                    % norm_text(val)[:60])
      continue
    new, rolled = val.left.id, val.right.id
    # statements of the same block before the write
    from ..cfg import _path_to
    path = _path_to(body_node, w)
    parent, field, idx, _ = path[-1]
    block = getattr(parent, field)
    before = block[:idx]
    rb_def = None
    proj = None
    for st in before:
      for a in ast.walk(st):
        if isinstance(a, ast.Assign) and dotted(a.targets[0]) == rolled:
          rb_def = a
      if isinstance(st, ast.Assign) and new in [
          dotted(t) for t in (st.targets[0].elts if isinstance(
              st.targets[0], ast.Tuple) else [st.targets[0]])]:
        if isinstance(st.value, ast.Call):
          proj = st
    if rb_def is None:
      # the rolled-back value may be defined one block up (if/else form)
      for st in ast.walk(body_node):
        if isinstance(st, ast.Assign) and dotted(st.targets[0]) == rolled \
            and st.lineno < w.lineno:
          rb_def = st if rb_def is None or st.lineno > rb_def.lineno else rb_def
    if proj is None and rb_def is not None:
      # projection nested in an if/else of the same block
      cands = []
      for st in before:
        for a in ast.walk(st):
          if isinstance(a, ast.Assign) and isinstance(a.value, ast.Call) and \
              a.lineno > rb_def.lineno and new in [
                  dotted(t) for t in (a.targets[0].elts if isinstance(
                      a.targets[0], ast.Tuple) else [a.targets[0]])]:
            cands.append(a)
      if cands and all(rolled in names_read(a.value) for a in cands):
        proj = cands[0]
        # every alternative must consume the rolled-back value
        for a in cands[1:]:
          args = list(a.value.args) + [k.value for k in a.value.keywords]
          if not any(dotted(x) == rolled for x in args) or any(
              dotted(x) == new for x in args):
            proj = None
    # idiom: projected = f(weights=rolled); if projected is not None:
    # weights = projected; last_change[key] = weights - rolled
    if proj is None and rb_def is not None:
      for st in ast.walk(body_node):
        if isinstance(st, ast.Assign) and isinstance(st.value, ast.Call) and \
            rb_def.lineno < st.lineno < w.lineno and rolled in names_read(
                st.value):
          alias = dotted(st.targets[0])
          if any(isinstance(b, ast.Assign) and dotted(b.targets[0]) == new
                 and dotted(b.value) == alias for b in before):
            proj = st
    if rb_def is None or proj is None:
      res.violation(rule, okey, fn.loc(w),
                    'cannot find the roll-back (%s) or the projection (%s) '
                    'that precede this write' % (rolled, new))
      continue
    # roll-back reads the same dict with the same key
    rsub = None
    for s in ast.walk(rb_def.value):
      if isinstance(s, ast.Subscript) and dotted(s.value) == d:
        rsub = s
    rb_ok = False
    if rsub is not None and isinstance(rb_def.value, ast.BinOp) and \
        isinstance(rb_def.value.op, ast.Sub) and dotted(
            rb_def.value.left) == new:
      rb_ok = _key_text(rsub) == key
    elif rsub is None:
      # key built once into a local: last_change[projection_key]
      rb_ok = False
    # `if key in last_change: rolled = w - last_change[key] else: rolled = w`
    if not rb_ok:
      prev = max([x.lineno for x in writes if x.lineno < w.lineno
                  and dotted(x.targets[0].value) == d] or [0])
      for st in ast.walk(body_node):
        if isinstance(st, ast.Assign) and dotted(st.targets[0]) == rolled and \
            prev < st.lineno < w.lineno and \
            isinstance(st.value, ast.BinOp) and isinstance(
                st.value.op, ast.Sub) and dotted(st.value.left) == new:
          for s in ast.walk(st.value.right):
            if isinstance(s, ast.Subscript) and dotted(s.value) == d and \
                _key_text(s) == key:
              rb_ok = True
    # projection consumes the rolled-back value
    args = list(proj.value.args) + [k.value for k in proj.value.keywords]
    proj_ok = any(dotted(a) == rolled for a in args) and not any(
        dotted(a) == new for a in args)
    res.check(rb_ok and proj_ok, rule, okey, fn.loc(w),
              'roll back %s[%s], project the rolled-back value, record '
              'new - rolled_back under the same key' % (d, key[:40]),
              'Dykstra bookkeeping for key %s is inconsistent: %s' % (
                  key[:50],
                  'the projection does not receive the rolled-back value'
                  if not proj_ok else
                  'the roll-back does not read %s with the same key' % d))
    # key mentions every distinguishing loop variable
    loops = _enclosing_loops(body_node, w)
    missing = []
    key_names = names_read(w.targets[0].slice)
    # a key held in a local: expand it
    def key_def(name):
      """the definition of a key local that reaches this write: the nearest
      one above it"""
      cands = [st for st in ast.walk(body_node)
               if isinstance(st, ast.Assign) and dotted(st.targets[0]) == name
               and st.lineno <= w.lineno]
      return max(cands, key=lambda st: st.lineno) if cands else None
    if isinstance(w.targets[0].slice, ast.Name):
      kd = key_def(w.targets[0].slice.id)
      if kd is not None:
        key_names |= names_read(kd.value)
    for lp in loops:
      for tn in ast.walk(lp.target):
        if isinstance(tn, ast.Name) and tn.id != '_':
          # a loop variable is distinguishing unless it is derived into
          # another variable that is in the key
          if tn.id not in key_names and not _derived_in_key(
              body_node, tn.id, key_names):
            missing.append(tn.id)
    n += 1
    res.check(not missing, rule, okey + '|loop-vars', fn.loc(w),
              'key names every enclosing loop variable',
              'key %s omits the loop variable(s) %s: different constraint '
              'instances share one roll-back slot' % (key[:50], missing))
    fam = None
    sl = w.targets[0].slice
    if isinstance(sl, ast.Tuple) and sl.elts and isinstance(
        sl.elts[0], ast.Constant):
      fam = sl.elts[0].value
    elif isinstance(sl, ast.Constant):
      fam = sl.value
    elif isinstance(sl, ast.Name):
      st = key_def(sl.id)
      if st is not None and isinstance(st.value, ast.Tuple) and isinstance(
          st.value.elts[0], ast.Constant):
        fam = st.value.elts[0].value
    callee = norm_text(proj.value.func)
    families.setdefault((d, fam), set()).add(callee)
  for (d, fam), callees in sorted(families.items(), key=str):
    n += 1
    res.check(fam is not None and len(callees) == 1, rule,
              '%s|family:%s:%s' % (label, d, fam), fn.loc(body_node),
              'key family %r belongs to one projection (%s)' % (
                  fam, ', '.join(sorted(callees))),
              'key family %r of %s is shared by the projections %s: their '
              'roll-backs overwrite each other' % (fam, d, sorted(callees)))
  return n


def _derived_in_key(body_node, var, key_names):
  """var only feeds values that are in the key (e.g. `dimensions =
  tuple(constraint[0])` with dimensions in the key)."""
  for st in ast.walk(body_node):
    if isinstance(st, ast.Assign):
      tnames = {x.id for t in st.targets for x in ast.walk(t)
                if isinstance(x, ast.Name)}
      if tnames & key_names and var in names_read(st.value):
        # a constraint unpacked into several dimension identifiers is only
        # identified by ALL of them: ('TRAPEZOID', cond_dim, group) is shared
        # by every trust with that conditional feature
        dims = {t for t in tnames if 'dim' in t.lower()}
        if isinstance(st.targets[0], ast.Tuple) and dotted(
            st.value) == var and not dims <= key_names:
          return False
        return True
  return False
