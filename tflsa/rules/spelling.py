"""Concrete evaluation of configuration predicates over the finite set of
spellings of a synonym family (used by V3 and W6).

The predicate source is never executed: a small evaluator interprets the
test expressions (==, !=, in, not in, truthiness, isinstance, .lower(),
and/or/not, np.iterable, utils.canonicalize_*) with the dispatched-on
expression bound to each spelling in turn."""
import ast

from ..model import dotted, const_value, norm_text

UNKNOWN = '?'

PAIRS = [(0, 1), (1, 2)]     # a categorical list-of-pairs monotonicity

FAMILIES = {
    'monotonicity': {
        'none': [0, 'none'], 'increasing': [1, 'increasing'],
        'decreasing': [-1, 'decreasing']},
    'unimodality': {
        'none': [0, 'none'], 'valley': [1, 'valley'], 'peak': [-1, 'peak']},
    'convexity': {
        'none': [0, 'none'], 'convex': [1, 'convex'],
        'concave': [-1, 'concave']},
    'direction': {'positive': [1, 'positive'], 'negative': [-1, 'negative']},
}
CANON = {'monotonicity': {'none': 0, 'increasing': 1, 'decreasing': -1},
         'unimodality': {'none': 0, 'valley': 1, 'peak': -1},
         'convexity': {'none': 0, 'convex': 1, 'concave': -1},
         'direction': {'positive': 1, 'negative': -1}}


class Ev(object):

  def __init__(self, var_text, value, family=None):
    self.var = var_text
    self.value = value
    self.family = family

  def val(self, e):
    """concrete value or UNKNOWN"""
    if dotted(e) == self.var:
      return self.value
    if isinstance(e, ast.Subscript) and norm_text(e) == self.var:
      return self.value
    if isinstance(e, ast.Constant):
      return e.value
    c = const_value(e, default=UNKNOWN)
    if c is not UNKNOWN:
      return c
    if isinstance(e, (ast.List, ast.Tuple, ast.Set)):
      out = []
      for x in e.elts:
        v = self.val(x)
        if v is UNKNOWN:
          return UNKNOWN
        out.append(v)
      return out
    if isinstance(e, ast.Call):
      f = e.func
      if isinstance(f, ast.Attribute) and f.attr in ('lower', 'upper',
                                                     'strip') and not e.args:
        v = self.val(f.value)
        if isinstance(v, str):
          return getattr(v, f.attr)()
        return UNKNOWN
      d = dotted(f) or ''
      last = d.split('.')[-1]
      if last == 'isinstance' and len(e.args) == 2:
        v = self.val(e.args[0])
        if v is UNKNOWN:
          return UNKNOWN
        types = e.args[1].elts if isinstance(e.args[1], ast.Tuple) else [
            e.args[1]]
        res = False
        for t in types:
          tn = (dotted(t) or '').split('.')[-1]
          if tn in ('str', 'string_types'):
            res = res or isinstance(v, str)
          elif tn == 'list':
            res = res or isinstance(v, list)
          elif tn == 'tuple':
            res = res or isinstance(v, tuple)
          elif tn == 'int':
            res = res or (isinstance(v, int) and not isinstance(v, bool))
          elif tn == 'float':
            res = res or isinstance(v, float)
          else:
            return UNKNOWN
        return res
      if last == 'iterable' and len(e.args) == 1:
        v = self.val(e.args[0])
        if v is UNKNOWN:
          return UNKNOWN
        return isinstance(v, (list, tuple, str))
      if last.startswith('canonicalize_') and e.args:
        v = self.val(e.args[0])
        if v is UNKNOWN or self.family is None:
          return UNKNOWN
        for cls, spellings in FAMILIES[self.family].items():
          if v in spellings and not isinstance(v, list):
            return CANON[self.family][cls]
        return UNKNOWN
      if last == 'len' and len(e.args) == 1:
        v = self.val(e.args[0])
        if isinstance(v, (list, tuple, str)):
          return len(v)
        return UNKNOWN
      return UNKNOWN
    if isinstance(e, (ast.BoolOp, ast.Compare)) or (
        isinstance(e, ast.UnaryOp) and isinstance(e.op, ast.Not)):
      return self.truth(e)
    return UNKNOWN

  def truth(self, e):
    if isinstance(e, ast.BoolOp):
      vals = [self.truth(v) for v in e.values]
      # Kleene logic (the operands are side-effect free configuration tests)
      if isinstance(e.op, ast.And):
        if any(v is False for v in vals):
          return False
        if all(v is True for v in vals):
          return True
        return UNKNOWN
      if any(v is True for v in vals):
        return True
      if all(v is False for v in vals):
        return False
      return UNKNOWN
    if isinstance(e, ast.UnaryOp) and isinstance(e.op, ast.Not):
      t = self.truth(e.operand)
      return UNKNOWN if t is UNKNOWN else (not t)
    if isinstance(e, ast.Compare) and len(e.ops) == 1:
      l = self.val(e.left)
      r = self.val(e.comparators[0])
      if l is UNKNOWN or r is UNKNOWN:
        return UNKNOWN
      op = e.ops[0]
      try:
        if isinstance(op, ast.Eq):
          return l == r
        if isinstance(op, ast.NotEq):
          return l != r
        if isinstance(op, ast.In):
          return l in r
        if isinstance(op, ast.NotIn):
          return l not in r
        if isinstance(op, ast.Is):
          return l is r
        if isinstance(op, ast.IsNot):
          return l is not r
        if isinstance(op, ast.Gt):
          return l > r
        if isinstance(op, ast.Lt):
          return l < r
        if isinstance(op, ast.GtE):
          return l >= r
        if isinstance(op, ast.LtE):
          return l <= r
      except TypeError:
        return 'raises'
      return UNKNOWN
    v = self.val(e)
    if v is UNKNOWN:
      return UNKNOWN
    return bool(v)


def chain_signature(head_if, var_text, value, family=None, arms=None):
  """Which branch of the if/elif chain runs for this spelling:
  ('T', k) branch k taken, ('else',), or a string with '?' when undecided.
  arms: the Ifs of the chain (model.orelse_view(...).chain(head)[0]); by
  default the syntactic elif chain."""
  ev = Ev(var_text, value, family)
  if arms is None:
    arms = [head_if]
    while len(arms[-1].orelse) == 1 and isinstance(arms[-1].orelse[0],
                                                   ast.If):
      arms.append(arms[-1].orelse[0])
  sig = []
  # branches whose bodies are identical count as the same outcome
  rep = {}
  bodies = ['\n'.join(ast.dump(s) for s in a.body) for a in arms]
  for i, b in enumerate(bodies):
    rep[i] = bodies.index(b) if b else i
  for k, cur in enumerate(arms):
    t = ev.truth(cur.test)
    if t is True:
      return tuple(sig) + (('T', rep.get(k, k)),)
    if t is UNKNOWN or t == 'raises':
      sig.append(('?', k, t))
  return tuple(sig) + (('else',),)


def reads_var(expr, var_text):
  for n in ast.walk(expr):
    if dotted(n) == var_text:
      return True
    if isinstance(n, ast.Subscript) and norm_text(n) == var_text:
      return True
  return False


# ---------------------------------------------------------------------------
def check_case_agreement(prog, res, modules, rule='V3c'):
  """A string hyper-parameter that a validator accepts case-insensitively
  (`x.lower() == 'lit'`) must be compared case-insensitively (or after
  canonicalisation) wherever the same module dispatches on it: a raw
  `x == 'lit'` makes an accepted spelling such as 'Valley' take the other
  branch.  Families are keyed by (module, variable name, literal)."""
  import ast as _ast
  from ..model import dotted, norm_text
  n = 0
  # families are collected over all the modules first: the validator of a
  # layer's hyper-parameter lives in the *_lib module, raw comparisons may
  # sit in the layer module
  fam = {}
  for mname in modules:
    mod = prog.module(mname)
    fns = [f for f in mod.all_functions() if f.parent is None]
    for f in fns:
      for c in _ast.walk(f.node):
        if isinstance(c, _ast.Compare) and len(c.ops) == 1 and isinstance(
            c.ops[0], (_ast.Eq, _ast.NotEq)):
          for a, b in ((c.left, c.comparators[0]), (c.comparators[0], c.left)):
            if isinstance(a, _ast.Call) and isinstance(
                a.func, _ast.Attribute) and a.func.attr == 'lower' and \
                isinstance(b, _ast.Constant) and isinstance(b.value, str):
              v = dotted(a.func.value)
              if v:
                fam.setdefault((v.split('.')[-1], b.value), f.qualname)
  for mname in modules:
    mod = prog.module(mname)
    fns = [f for f in mod.all_functions() if f.parent is None]
    for f in fns:
      idx = {}
      for c in _ast.walk(f.node):
        if isinstance(c, _ast.Compare) and len(c.ops) == 1 and isinstance(
            c.ops[0], (_ast.Eq, _ast.NotEq)):
          for a, b in ((c.left, c.comparators[0]), (c.comparators[0], c.left)):
            v = dotted(a)
            if v and isinstance(b, _ast.Constant) and isinstance(
                b.value, str) and (v.split('.')[-1], b.value) in fam:
              k = (v.split('.')[-1], b.value)
              i = idx.get(k, 0)
              idx[k] = i + 1
              n += 1
              res.violation(
                  rule, '%s|%s==%s%s' % (f.qualname, k[0], k[1],
                                         '#%d' % (i + 1) if i else ''),
                  f.loc(c),
                  '`%s` compares %s with %r case-sensitively although %s '
                  'accepts it case-insensitively (.lower()): an accepted '
                  'spelling such as %r silently takes the other branch' % (
                      norm_text(c), k[0], k[1], fam[k], k[1].capitalize()))
  for k, where in sorted(fam.items()):
    n += 1
    res.ok(rule, 'family:%s=%s' % (k[0], k[1]), where,
           'validated case-insensitively in %s; no raw comparison in %s' % (
               where, ', '.join(modules)))
  return n
