"""A1-A3: every tf.Assert condition is a scalar, universal aggregate whose
eps relaxes the test, and every covered constraint kind owns an assert."""
import ast

from ..model import (AnalysisError, FunctionInfo, dotted, norm_text,
                     names_read, call_args, const_value, is_none)
from ..cfg import CFG, ReachingDefs, structural_guards, _path_to

TENSOR_PARAMS = ('weights', 'outputs', 'scale', 'w', 'kernel')

# ops whose result keeps the operand's abstract value
PASS_THROUGH = ('cast', 'identity', 'convert_to_tensor', 'stop_gradient',
                'to_float', 'sign_preserving')


class AV(object):
  """Abstract value of an expression inside an assert function."""

  def __init__(self, kind, pol=None, dims=None, scalar=False, nonneg=False,
               universal=None, elems=None, why=''):
    self.kind = kind        # agg|tensor|bool|count|py|list|tuple|unknown
    self.pol = pol          # min|max for agg
    self.dims = dims        # list of one|lead|many, None = unknown rank
    self.scalar = scalar
    self.nonneg = nonneg
    self.universal = universal  # for bool: True / False / None(no aggregate)
    self.elems = elems      # element AV for list, list of AV for tuple
    self.why = why

  def copy(self, **kw):
    o = AV(self.kind, self.pol, list(self.dims) if self.dims is not None
           else None, self.scalar, self.nonneg, self.universal, self.elems,
           self.why)
    for k, v in kw.items():
      setattr(o, k, v)
    return o

  def __repr__(self):
    return 'AV(%s pol=%s dims=%s scalar=%s univ=%s%s)' % (
        self.kind, self.pol, self.dims, self.scalar, self.universal,
        ' ' + self.why if self.why else '')


def PY():
  return AV('py', scalar=True)


def UNKNOWN(why):
  return AV('unknown', why=why)


def _flip(pol):
  return {'min': 'max', 'max': 'min'}.get(pol)


class AssertEvaluator(object):

  def __init__(self, prog, fn):
    self.prog = prog
    self.fn = fn
    self.cfg = CFG(fn.node)
    self.rd = ReachingDefs(self.cfg, fn.params)
    self.lead_used = False
    self._depth = 0

  # -- names -------------------------------------------------------------
  def eval_name(self, name, at):
    defs = self.rd.defs_reaching(at, name)
    if not defs:
      if name in self.fn.module.constants or name in (
          'True', 'False', 'None'):
        return PY()
      # closure / module level
      return PY()
    vals = []
    for d in sorted(defs):
      n = self.cfg.nodes[d]
      if n.kind == 'entry':
        vals.append(AV('tensor') if name in TENSOR_PARAMS else PY())
      elif n.kind == 'iter':
        elem = self.iter_element(n.stmt.iter, d)
        vals.append(self.destructure(n.stmt.target, elem, name))
      elif n.kind == 'stmt' and isinstance(n.stmt, ast.Assign):
        v = None
        for t in n.stmt.targets:
          if isinstance(t, ast.Name) and t.id == name:
            v = self.eval(n.stmt.value, d)
          elif isinstance(t, (ast.Tuple, ast.List)):
            rhs = self.eval(n.stmt.value, d)
            v = self.destructure(t, rhs, name)
        vals.append(v if v is not None else UNKNOWN('assign form'))
      elif n.kind == 'stmt' and isinstance(n.stmt, ast.AugAssign):
        # x op= e : tensor stays tensor, py stays py
        prev = self.eval_name(name, d)
        other = self.eval(n.stmt.value, d)
        vals.append(self.binop(prev, n.stmt.op, other))
      else:
        vals.append(UNKNOWN('definition kind %s' % n.kind))
    return self.join(vals)

  def join(self, vals):
    if len(vals) == 1:
      return vals[0]
    kinds = {v.kind for v in vals}
    if kinds == {'py'}:
      return PY()
    if kinds <= {'tensor', 'py'}:
      ds = [v.dims for v in vals if v.kind == 'tensor']
      same = all(d == ds[0] for d in ds)
      return AV('tensor', dims=ds[0] if same else None)
    if len(kinds) == 1 and all(repr(v) == repr(vals[0]) for v in vals):
      return vals[0]
    return UNKNOWN('join of %s' % sorted(kinds))

  def iter_element(self, it, at):
    if isinstance(it, ast.Call):
      d = dotted(it.func)
      if d == 'enumerate' and it.args:
        return AV('tuple', elems=[PY(), self.iter_element(it.args[0], at)])
      if d == 'zip':
        return AV('tuple', elems=[self.iter_element(a, at) for a in it.args])
      if d in ('range', 'reversed', 'sorted', 'list'):
        if d == 'range':
          return PY()
        return self.iter_element(it.args[0], at)
    if isinstance(it, ast.BoolOp):
      return self.iter_element(it.values[0], at)
    v = self.eval(it, at)
    if v.kind == 'list':
      return v.elems
    if v.kind == 'py':
      return PY()   # list of configuration tuples
    if v.kind == 'tensor':
      return AV('tensor', dims=v.dims[1:] if v.dims else None)
    return UNKNOWN('iteration over %s' % v.kind)

  def destructure(self, target, val, name):
    if isinstance(target, ast.Name):
      return val if target.id == name else None
    if isinstance(target, (ast.Tuple, ast.List)):
      for i, t in enumerate(target.elts):
        if val.kind == 'tuple' and i < len(val.elems):
          sub = val.elems[i]
        elif val.kind == 'py':
          sub = PY()
        else:
          sub = UNKNOWN('destructuring %s' % val.kind)
        r = self.destructure(t, sub, name)
        if r is not None:
          return r
    return None

  # -- expressions -------------------------------------------------------
  def eval(self, e, at):
    self._depth += 1
    try:
      if self._depth > 60:
        return UNKNOWN('recursion')
      return self._eval(e, at)
    finally:
      self._depth -= 1

  def _eval(self, e, at):
    if isinstance(e, ast.Constant):
      return PY()
    if isinstance(e, ast.Name):
      return self.eval_name(e.id, at)
    if isinstance(e, ast.UnaryOp):
      v = self.eval(e.operand, at)
      if isinstance(e.op, ast.USub) and v.kind == 'agg':
        return v.copy(pol=_flip(v.pol), nonneg=False)
      if isinstance(e.op, ast.USub):
        return v.copy(nonneg=False)
      return v
    if isinstance(e, ast.BinOp):
      return self.binop(self.eval(e.left, at), e.op, self.eval(e.right, at), e)
    if isinstance(e, ast.Compare) and len(e.ops) == 1:
      return self.compare(e, at)
    if isinstance(e, (ast.List, ast.Tuple)):
      vs = [self.eval(x, at) for x in e.elts]
      if all(v.kind == 'py' for v in vs):
        return PY()
      return AV('list', elems=self.join(vs) if vs else PY())
    if isinstance(e, ast.Subscript):
      v = self.eval(e.value, at)
      if v.kind == 'list':
        if isinstance(e.slice, ast.Slice):
          return v
        return v.elems
      if v.kind == 'tuple':
        i = const_value(e.slice)
        if isinstance(i, int) and i < len(v.elems):
          return v.elems[i]
        return UNKNOWN('tuple index')
      if v.kind == 'py':
        return PY()
      if v.kind in ('tensor', 'agg'):
        if isinstance(e.slice, ast.Slice):
          return AV('tensor', dims=v.dims)
        return AV('tensor', dims=v.dims[1:] if v.dims else None)
      return UNKNOWN('subscript of %s' % v.kind)
    if isinstance(e, ast.Attribute):
      d = dotted(e)
      if d and self.prog.ext_name(self.fn.module, e):
        return PY()
      v = self.eval(e.value, at)
      if e.attr in ('shape', 'dtype'):
        return PY()
      return v if v.kind != 'tensor' else PY()
    if isinstance(e, ast.IfExp):
      return self.join([self.eval(e.body, at), self.eval(e.orelse, at)])
    if isinstance(e, ast.Call):
      return self.call(e, at)
    if isinstance(e, (ast.ListComp, ast.GeneratorExp)):
      return PY()
    if isinstance(e, ast.BoolOp):
      vs = [self.eval(x, at) for x in e.values]
      return self.join(vs) if all(v.kind == 'py' for v in vs) else UNKNOWN(
          'python bool-op on tensors')
    return UNKNOWN(type(e).__name__)

  def binop(self, a, op, b, node=None):
    if a.kind == 'py' and b.kind == 'py':
      return PY()
    if a.kind == 'unknown' or b.kind == 'unknown':
      return a if a.kind == 'unknown' else b
    if a.kind == 'count' and b.kind in ('count', 'py') and isinstance(
        op, ast.Add):
      return a
    if b.kind == 'count' and a.kind == 'py' and isinstance(op, ast.Add):
      return b
    if a.kind == 'agg' and b.kind == 'py':
      if isinstance(op, (ast.Add, ast.Sub)):
        return a.copy(nonneg=False)
      if isinstance(op, (ast.Mult, ast.Div)) and node is not None:
        s = _literal_sign(node.right)
        if s > 0:
          return a
        if s < 0:
          return a.copy(pol=_flip(a.pol), nonneg=False)
      return AV('tensor', dims=a.dims, scalar=a.scalar,
                why='aggregate scaled by a value of unknown sign')
    if b.kind == 'agg' and a.kind == 'py':
      if isinstance(op, ast.Add):
        return b.copy(nonneg=False)
      if isinstance(op, ast.Sub):
        return b.copy(pol=_flip(b.pol), nonneg=False)
      if isinstance(op, ast.Mult) and node is not None:
        s = _literal_sign(node.left)
        if s > 0:
          return b
        if s < 0:
          return b.copy(pol=_flip(b.pol), nonneg=False)
      return AV('tensor', dims=b.dims, scalar=b.scalar,
                why='aggregate scaled by a value of unknown sign')
    # tensor (x) anything
    dims = None
    sc = False
    for v in (a, b):
      if v.kind in ('tensor', 'agg') and v.dims is not None:
        dims = v.dims if dims is None or len(v.dims) >= len(dims) else dims
    if a.kind in ('tensor', 'agg') and b.kind in ('tensor', 'agg'):
      if a.dims is None or b.dims is None:
        dims = None
      sc = a.scalar and b.scalar
    elif a.kind in ('tensor', 'agg'):
      sc = a.scalar
    elif b.kind in ('tensor', 'agg'):
      sc = b.scalar
    return AV('tensor', dims=dims, scalar=sc)

  def compare(self, e, at):
    l = self.eval(e.left, at)
    r = self.eval(e.comparators[0], at)
    op = e.ops[0]
    if l.kind == 'py' and r.kind == 'py':
      return PY()
    # orient: aggregate on the left
    flipped = False
    if r.kind in ('agg', 'count') and l.kind == 'py':
      l, r = r, l
      flipped = True
    ge = isinstance(op, (ast.Gt, ast.GtE))
    le = isinstance(op, (ast.Lt, ast.LtE))
    if flipped:
      ge, le = le, ge
    if l.kind == 'count' and r.kind == 'py':
      c = const_value(e.comparators[0] if not flipped else e.left)
      good = ((le and isinstance(op, (ast.LtE, ast.GtE)) and c == 0) or
              (isinstance(op, ast.Eq) and c == 0) or
              (le and isinstance(op, (ast.Lt, ast.Gt)) and c == 1))
      return AV('bool', scalar=l.scalar, universal=bool(good), dims=l.dims,
                why='count of offenders %s' % norm_text(e))
    if l.kind == 'agg' and r.kind == 'py':
      if l.pol == 'min':
        good = ge
      elif l.pol == 'max':
        good = le
      else:
        good = False
      return AV('bool', scalar=l.scalar, dims=l.dims, universal=bool(good),
                why='%s-aggregate compared with %s' % (
                    l.pol, type(op).__name__))
    for side in (l, r):
      if side.kind == 'tensor' and side.why == 'abs-of-aggregate:full':
        return AV('bool', scalar=side.scalar, dims=side.dims, universal=False,
                  why='two-sided test of an aggregate over ALL axes: it only '
                      'constrains the single extreme element, not every unit')
    if l.kind in ('tensor', 'agg') or r.kind in ('tensor', 'agg'):
      dims = None
      sc = False
      if l.kind in ('tensor', 'agg') and r.kind == 'py':
        dims, sc = l.dims, l.scalar
      elif r.kind in ('tensor', 'agg') and l.kind == 'py':
        dims, sc = r.dims, r.scalar
      if l.kind == 'agg' and r.kind == 'agg':
        return UNKNOWN('two aggregates compared')
      return AV('bool', scalar=sc, dims=dims, universal=None,
                why='elementwise comparison')
    return UNKNOWN('comparison of %s and %s (%s)' % (l.kind, r.kind,
                                                      l.why or r.why))

  def call(self, c, at):
    ext = self.prog.ext_name(self.fn.module, c.func)
    d = dotted(c.func)
    args = c.args
    kw = {k.arg: k.value for k in c.keywords if k.arg}
    if ext and ext.startswith('tf.'):
      op = ext.split('.')[-1]
      x = self.eval(args[0], at) if args else (
          self.eval(kw['input_tensor'], at) if 'input_tensor' in kw else None)
      axis = kw.get('axis', args[1] if len(args) > 1 and op.startswith(
          'reduce_') else None)
      keep = const_value(kw.get('keepdims'), False)
      if op in ('reduce_min', 'reduce_max'):
        pol = op[-3:]
        if x.kind == 'agg' and x.pol != pol:
          return UNKNOWN('min of max / max of min')
        if x.kind not in ('tensor', 'agg'):
          return UNKNOWN('reduce of %s' % x.kind)
        dims, scalar = self._reduce_dims(x, axis, keep)
        return AV('agg', pol=pol, dims=dims, scalar=scalar, nonneg=x.nonneg)
      if op == 'reduce_prod':
        if x.kind == 'agg' and x.nonneg:
          dims, scalar = self._reduce_dims(x, axis, keep)
          return x.copy(dims=dims, scalar=scalar)
        dims, scalar = self._reduce_dims(x, axis, keep)
        return AV('tensor', dims=dims, scalar=scalar)
      if op in ('reduce_sum', 'reduce_mean', 'count_nonzero'):
        dims, scalar = self._reduce_dims(x, axis, keep)
        if x.kind == 'bool' and x.universal is None:
          return AV('count', dims=dims, scalar=scalar)
        return AV('tensor', dims=dims, scalar=scalar)
      if op in ('reduce_all', 'reduce_any'):
        if x.kind != 'bool':
          return UNKNOWN('%s of %s' % (op, x.kind))
        dims, scalar = self._reduce_dims(x, axis, keep)
        if op == 'reduce_any':
          return AV('bool', scalar=scalar, dims=dims, universal=False,
                    why='reduce_any is existential')
        return AV('bool', scalar=scalar, dims=dims,
                  universal=True if x.universal is None else x.universal,
                  why='reduce_all(' + x.why + ')')
      if op == 'abs':
        if x.kind == 'agg' or (x.kind == 'tensor' and x.why.startswith(
            'offset aggregate')):
          # |aggregate - c|: a two-sided test of an aggregate.  Its upper
          # half bounds a min from above / a max from below, which is
          # existential over every axis the aggregate reduced.
          full = x.scalar
          return AV('tensor', dims=x.dims, scalar=x.scalar, nonneg=True,
                    why='abs-of-aggregate:%s' % ('full' if full else
                                                 'partial'))
        if x.kind in ('tensor', 'agg'):
          return AV('tensor', dims=x.dims, scalar=x.scalar, nonneg=True)
        return x
      if op in ('cast', 'identity', 'convert_to_tensor', 'to_float'):
        return x
      if op in ('logical_or', 'logical_and'):
        y = self.eval(args[1], at)
        if x.kind == 'bool' and y.kind == 'bool':
          u = None
          if x.universal is False or y.universal is False:
            u = False
          elif x.universal or y.universal:
            u = True
          return AV('bool', scalar=x.scalar and y.scalar,
                    dims=x.dims if x.dims == y.dims else None, universal=u,
                    why='%s of (%s) and (%s)' % (op, x.why, y.why))
        return UNKNOWN('%s of %s,%s' % (op, x.kind, y.kind))
      if op == 'logical_not':
        return UNKNOWN('logical_not in an assert condition')
      if op == 'reshape':
        shp = kw.get('shape', args[1] if len(args) > 1 else None)
        dims = None
        if isinstance(shp, (ast.List, ast.Tuple)):
          dims = []
          for el in shp.elts:
            v = const_value(el)
            if v == -1:
              dims.append('lead')
            elif v == 1:
              dims.append('one')
            else:
              dims.append('many')
        return AV('tensor', dims=dims)
      if op == 'unstack':
        ax = const_value(kw.get('axis', args[1] if len(args) > 1 else None), 0)
        if x.kind not in ('tensor', 'agg'):
          return UNKNOWN('unstack of %s' % x.kind)
        dims = None
        if x.dims is not None and isinstance(ax, int) and -len(
            x.dims) <= ax < len(x.dims):
          dims = list(x.dims)
          del dims[ax]
        elem = x.copy(dims=dims, scalar=(dims == []))
        return AV('list', elems=elem)
      if op == 'squeeze':
        if x.kind not in ('tensor', 'agg'):
          return UNKNOWN('squeeze of %s' % x.kind)
        if x.dims is None:
          return x.copy(scalar=False)
        rest = [t for t in x.dims if t != 'one']
        if not rest:
          return x.copy(dims=[], scalar=True)
        if all(t == 'lead' for t in rest):
          self.lead_used = True
          return x.copy(dims=[], scalar=True)
        return x.copy(dims=rest, scalar=False)
      if op == 'expand_dims':
        if x.kind in ('tensor', 'agg'):
          return AV('tensor', dims=None)
        return x
      if op in ('sign', 'constant', 'gather_nd', 'gather', 'transpose',
                'zeros_like', 'ones_like', 'maximum', 'minimum', 'stack',
                'concat', 'where', 'square', 'sqrt'):
        return AV('tensor', dims=None, nonneg=op in ('square', 'sqrt'))
      if op == 'norm':
        if 'axis' in kw and not is_none(kw['axis']):
          return AV('tensor', dims=None, nonneg=True)
        return AV('tensor', dims=[], scalar=True, nonneg=True)
      if op in ('size', 'rank', 'shape'):
        return PY()
      return UNKNOWN('tf op %s' % ext)
    if ext and (ext.startswith('np.') or ext.startswith('math.')):
      return PY()
    r = self.prog.resolve_call(self.fn, c)
    if isinstance(r, FunctionInfo) and r.name == '_unstack_nd':
      return AV('list', elems=AV('list', elems=AV('tensor')))
    if d in ('len', 'int', 'float', 'range', 'any', 'all', 'abs', 'max',
             'min', 'sum', 'list', 'tuple', 'sorted', 'zip', 'enumerate',
             'bool', 'str', 'isinstance'):
      return PY()
    if isinstance(c.func, ast.Attribute):
      base = self.eval(c.func.value, at)
      if base.kind in ('tensor', 'agg') and c.func.attr in (
          'get_shape', 'as_list', 'numpy'):
        return PY()
      if base.kind == 'py':
        return PY()
    return UNKNOWN('call %s' % norm_text(c.func))

  @staticmethod
  def _reduce_dims(x, axis, keep):
    if axis is None or is_none(axis):
      if keep and x.dims is not None:
        return ['one'] * len(x.dims), False
      return [], True
    ax = const_value(axis)
    if x.dims is None or not isinstance(ax, int) or not (
        -len(x.dims) <= ax < len(x.dims)):
      return None, False
    dims = list(x.dims)
    if keep:
      dims[ax] = 'one'
    else:
      del dims[ax]
    return dims, dims == []


def _literal_sign(node):
  v = const_value(node)
  if isinstance(v, (int, float)) and not isinstance(v, bool):
    return 1 if v > 0 else (-1 if v < 0 else 0)
  return 0


def eps_sign(expr, name='eps'):
  """+1 / -1 / 0: sign with which `name` enters the affine expression."""
  if isinstance(expr, ast.Name):
    return 1 if expr.id == name else 0
  if isinstance(expr, ast.UnaryOp) and isinstance(expr.op, ast.USub):
    return -eps_sign(expr.operand, name)
  if isinstance(expr, ast.BinOp):
    if isinstance(expr.op, ast.Add):
      return eps_sign(expr.left, name) or eps_sign(expr.right, name)
    if isinstance(expr.op, ast.Sub):
      return eps_sign(expr.left, name) or -eps_sign(expr.right, name)
  return 0


def find_asserts(prog, fn):
  out = []
  for c in ast.walk(fn.node):
    if isinstance(c, ast.Call):
      ext = prog.ext_name(fn.module, c.func)
      if ext in ('tf.Assert', 'tf.debugging.Assert',
                 'tf.compat.v1.Assert', 'tf.compat.v1.debugging.Assert'):
        out.append(c)
  return out


LEAD_EXCEPTION = {
    'kronecker_factored_lattice_lib._assert_bound_constraints':
        'the kernel\'s leading axis has size 1 by construction (depthwise '
        'filter height), so a squeeze of [-1,1,1] is a scalar',
}


def check_asserts(prog, res, fn):
  """A1, A2 and the eps-direction clause for every tf.Assert in fn."""
  res.analysed(fn)
  ev = AssertEvaluator(prog, fn)
  n = 0
  for i, a in enumerate(find_asserts(prog, fn)):
    n += 1
    cond = a.args[0] if a.args else next(
        (k.value for k in a.keywords if k.arg == 'condition'), None)
    at = ev.cfg.node_containing(a)
    if cond is None or at is None:
      raise AnalysisError('%s: tf.Assert without a locatable condition' %
                          fn.loc(a))
    ev.lead_used = False
    v = ev.eval(cond, at)
    key = '%s|%s' % (fn.qualname, _assert_label(a, i))
    if v.kind != 'bool':
      raise AnalysisError('%s: assert condition %s is not modelled (%s)' % (
          fn.loc(a), norm_text(cond)[:70], v))
    scalar_ok = v.scalar
    if scalar_ok and ev.lead_used and fn.qualname not in LEAD_EXCEPTION:
      scalar_ok = False
    res.check(scalar_ok, 'A1', key, fn.loc(a),
              'condition %s is a scalar' % norm_text(cond)[:60],
              'tf.Assert condition %s is not a scalar: with more than one '
              'unit/element bool() of it raises or only the shape decides' %
              norm_text(cond)[:70])
    res.check(v.universal is not False, 'A2', key, fn.loc(a),
              'universal aggregate (%s)' % v.why[:80],
              'condition %s is existential or vacuous (%s): it passes as '
              'soon as one element complies' % (norm_text(cond)[:70], v.why))
    # eps direction
    for cmp_ in [x for x in ast.walk(_resolve_cond(ev, cond, at))
                 if isinstance(x, ast.Compare) and len(x.ops) == 1]:
      op = cmp_.ops[0]
      sl = eps_sign(cmp_.left)
      sr = eps_sign(cmp_.comparators[0])
      if not sl and not sr:
        continue
      # normalise to  X (<=|<) T : eps must enter T - X positively
      s = sr - sl
      if isinstance(op, (ast.Gt, ast.GtE)):
        s = -s
      elif not isinstance(op, (ast.Lt, ast.LtE)):
        continue
      res.check(s > 0, 'A2e', key, fn.loc(a),
                'eps relaxes the test %s' % norm_text(cmp_)[:60],
                'eps tightens the test %s: weights exactly on the boundary '
                'fail' % norm_text(cmp_)[:60])
  return n


def _resolve_cond(ev, cond, at):
  """The condition with a single level of local names expanded, so that eps
  comparisons hidden behind a local are seen."""
  if isinstance(cond, ast.Name):
    defs = ev.rd.def_exprs(at, cond.id)
    if len(defs) == 1 and defs[0][1] is not None:
      return defs[0][1]
  return cond


def _assert_label(a, i):
  """Stable label: the first string constant of the data list."""
  for k in a.keywords:
    if k.arg == 'data':
      for n in ast.walk(k.value):
        if isinstance(n, ast.Constant) and isinstance(n.value, str):
          return '%s#%d' % (n.value.strip(' .:')[:40], i)
  if len(a.args) > 1:
    for n in ast.walk(a.args[1]):
      if isinstance(n, ast.Constant) and isinstance(n.value, str):
        return '%s#%d' % (n.value.strip(' .:')[:40], i)
  return 'assert#%d' % i


# ---------------------------------------------------------------------------
def local_deps(fn):
  """local name -> set of parameters it derives from (flow-insensitive)."""
  deps = {p: {p} for p in fn.params}
  pairs = []
  for n in ast.walk(fn.node):
    if isinstance(n, ast.Assign):
      for t in n.targets:
        for tn in ast.walk(t):
          if isinstance(tn, ast.Name):
            pairs.append((tn.id, n.value))
    elif isinstance(n, ast.AugAssign) and isinstance(n.target, ast.Name):
      pairs.append((n.target.id, n.value))
    elif isinstance(n, (ast.For, ast.comprehension)):
      for tn in ast.walk(n.target):
        if isinstance(tn, ast.Name):
          pairs.append((tn.id, n.iter))
  changed = True
  while changed:
    changed = False
    for name, val in pairs:
      cur = deps.setdefault(name, set())
      new = set()
      for r in names_read(val):
        new |= deps.get(r, set())
      if not new <= cur:
        cur |= new
        changed = True
  return deps


def assert_controls(prog, fn, depth=0):
  """For every tf.Assert reachable in fn (following calls into repo
  functions): the set of fn's parameters that gate or feed it.
  Returns list of (assert call, set(params), FunctionInfo)."""
  deps = local_deps(fn)
  out = []

  def pdeps(expr):
    s = set()
    for r in names_read(expr):
      s |= deps.get(r, set())
    return s

  for a in find_asserts(prog, fn):
    ctl = set()
    path = _path_to(fn.node, a) or []
    for parent, field, idx, child in path:
      if isinstance(parent, ast.For) and field == 'body':
        ctl |= pdeps(parent.iter)
    for t, pol in structural_guards(fn.node, a) or []:
      ctl |= pdeps(t)
    cond = a.args[0] if a.args else None
    if cond is not None:
      ctl |= pdeps(cond)
    out.append((a, ctl, fn))
  if depth < 3:
    for c in ast.walk(fn.node):
      if not isinstance(c, ast.Call):
        continue
      r = prog.resolve_call(fn, c)
      if isinstance(r, FunctionInfo) and r is not fn and r.cls is None:
        sub = assert_controls(prog, r, depth + 1)
        if not sub:
          continue
        bound, _, _ = call_args(c, r.params)
        gate = set()
        for t, pol in structural_guards(fn.node, c) or []:
          gate |= pdeps(t)
        for a, ctl, f2 in sub:
          mine = set(gate)
          for p in ctl:
            if p in bound:
              mine |= pdeps(bound[p])
          out.append((a, mine, f2))
  return out


def check_coverage(prog, res, fn, kinds, exceptions=None):
  """A3: every constraint-kind parameter gates or feeds some tf.Assert."""
  exceptions = exceptions or {}
  ctrls = assert_controls(prog, fn)
  for k in kinds:
    key = '%s|%s' % (fn.qualname, k)
    if k not in fn.params:
      raise AnalysisError('%s: constraint kind %r is no parameter any more' % (
          fn.qualname, k))
    if k in exceptions:
      res.ok('A3', key, fn.loc(), 'exception: ' + exceptions[k])
      continue
    n = sum(1 for a, ctl, f in ctrls if k in ctl)
    res.check(n > 0, 'A3', key, fn.loc(),
              '%d assert(s) are gated or fed by %s' % (n, k),
              'no tf.Assert is gated or fed by constraint kind %r: violations '
              'of it are never reported' % k)
