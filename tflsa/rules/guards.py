"""W3 - guard coverage decided by enumerating the abstract states of the
configuration attributes and evaluating guards with Python's truth rules.

Abstract states
  bound / order:  none | zero | nonzero          (numbers or None)
  list (monotonicities, unimodalities):
                  none | empty | allzero | nonzero
  tuples (trusts, dominances, joint_*):
                  none | empty | nonempty
  flag:           false | true
  count (derived integer): zero | pos
"""
import ast
import itertools

from ..model import (AnalysisError, FunctionInfo, fold_ifexp, dotted, norm_text,
                     const_value, is_none, names_read, call_args,
                     self_attr_assigns)

TYPE_STATES = {
    'bound': ('none', 'zero', 'nonzero'),
    'list': ('none', 'empty', 'allzero', 'nonzero'),
    'tuples': ('none', 'empty', 'nonempty'),
    'flag': ('false', 'true'),
    'sign': ('none', 'zero', 'nonzero'),
    'count': ('zero', 'pos'),
    'opaque': ('any',),
}


def atom_type(name):
  n = name.split('.')[-1]
  if n in ('monotonicities', 'unimodalities'):
    return 'list'
  if n.endswith('_trusts') or n.endswith('_dominances') or n.startswith(
      'joint_') or n in ('lengths',):
    return 'tuples'
  if n in ('monotonicity', 'convexity', 'normalization_order'):
    return 'sign'
  if n.startswith('num_') and n.endswith('iterations'):
    return 'count'
  if ('min' in n or 'max' in n or 'bound' in n) and not n.startswith(
      'clamp') and not n.endswith('constraints'):
    return 'bound'
  if n.endswith('_value'):
    return 'bound'
  if n.startswith('clamp_') or n.startswith('use_') or n.startswith(
      'is_') or n.startswith('enforce_') or n in (
          'clip_inputs', 'monotonic_at_every_step', 'impute_missing'):
    return 'flag'
  return 'opaque'


class Val(object):
  """abstract value: (type, state)"""
  __slots__ = ('t', 's')

  def __init__(self, t, s):
    self.t = t
    self.s = s

  def __repr__(self):
    return '%s:%s' % (self.t, self.s)


UNK = Val('unknown', 'unknown')


def truthy(v):
  if v.t == 'bool':
    return v.s
  if v.t in ('bound', 'sign'):
    return {'none': False, 'zero': False, 'nonzero': True}[v.s]
  if v.t == 'list':
    return {'none': False, 'empty': False, 'allzero': True,
            'nonzero': True}[v.s]
  if v.t == 'tuples':
    return {'none': False, 'empty': False, 'nonempty': True}[v.s]
  if v.t == 'flag':
    return v.s == 'true'
  if v.t == 'count':
    return v.s == 'pos'
  return None


def is_none_val(v):
  if v.t in ('bound', 'sign', 'list', 'tuples'):
    return v.s == 'none'
  if v.t in ('flag', 'count', 'bool'):
    return False
  return None


def nonzero_count(v):
  """does count_non_zeros(v) contribute > 0 ?"""
  if v.t == 'list':
    return v.s == 'nonzero'
  if v.t == 'tuples':
    return v.s == 'nonempty'
  return None


class Logic(object):
  """Evaluates configuration expressions of one function under an
  environment mapping names ('self.x' or local/param names) to Val."""

  def __init__(self, prog, fn, env, attr_defs=None):
    self.prog = prog
    self.fn = fn
    self.env = env
    self.attr_defs = attr_defs or {}   # 'self.x' -> defining expr (derived)

  def val(self, e):
    if isinstance(e, ast.Constant):
      v = e.value
      if v is None:
        return Val('bound', 'none')
      if isinstance(v, bool):
        return Val('flag', 'true' if v else 'false')
      if isinstance(v, (int, float)):
        return Val('bound', 'nonzero' if v else 'zero')
      return UNK
    d = dotted(e)
    if d is not None:
      if d in self.env:
        return self.env[d]
      if d in self.attr_defs:
        return self.val(self.attr_defs[d])
      return UNK
    if isinstance(e, ast.Call):
      f = dotted(e.func) or ''
      last = f.split('.')[-1]
      if last == 'count_non_zeros':
        parts = [nonzero_count(self.val(a)) for a in e.args]
        if any(p is None for p in parts):
          return UNK
        return Val('count', 'pos' if any(parts) else 'zero')
      if last in ('canonicalize_monotonicities', 'canonicalize_unimodalities',
                  'canonicalize_trust', 'canonicalize_input_bounds'):
        v = self.val(e.args[0])
        if v.t in ('list', 'tuples'):
          return Val(v.t, 'none' if v.s == 'empty' else v.s)
        return v
      if last in ('canonicalize_monotonicity', 'canonicalize_convexity'):
        return self.val(e.args[0])
      if last == 'any' and len(e.args) == 1:
        v = self.val(e.args[0])
        if v.t == 'list' and v.s != 'none':
          return Val('bool', v.s == 'nonzero')
        return UNK
      if last == 'len' and len(e.args) == 1:
        v = self.val(e.args[0])
        if v.t in ('list', 'tuples') and v.s != 'none':
          return Val('count', 'zero' if v.s == 'empty' else 'pos')
        return UNK
      if last == 'bool' and len(e.args) == 1:
        t = truthy(self.val(e.args[0]))
        return UNK if t is None else Val('bool', t)
      return UNK
    if isinstance(e, ast.BoolOp) or (
        isinstance(e, ast.UnaryOp) and isinstance(e.op, ast.Not)) or (
            isinstance(e, ast.Compare) and len(e.ops) == 1):
      t = self.truth(e)
      return UNK if t is None else Val('bool', t)
    if isinstance(e, (ast.UnaryOp, ast.Compare)):
      return UNK
    if isinstance(e, ast.IfExp):
      c = self.truth(e.test)
      if c is None:
        return UNK
      return self.val(e.body if c else e.orelse)
    if isinstance(e, (ast.List, ast.Tuple)):
      return Val('tuples', 'nonempty' if e.elts else 'empty')
    return UNK

  def truth(self, e):
    """True / False / None (unknown)."""
    if isinstance(e, ast.BoolOp):
      vals = [self.truth(v) for v in e.values]
      if isinstance(e.op, ast.And):
        if any(v is False for v in vals):
          return False
        if all(v is True for v in vals):
          return True
        return None
      if any(v is True for v in vals):
        return True
      if all(v is False for v in vals):
        return False
      return None
    if isinstance(e, ast.UnaryOp) and isinstance(e.op, ast.Not):
      t = self.truth(e.operand)
      return None if t is None else (not t)
    if isinstance(e, ast.Compare) and len(e.ops) == 1:
      op = e.ops[0]
      l, r = e.left, e.comparators[0]
      if isinstance(op, (ast.Is, ast.IsNot)) and is_none(r):
        n = is_none_val(self.val(l))
        if n is None:
          return None
        return n if isinstance(op, ast.Is) else (not n)
      c = const_value(r)
      lv = self.val(l)
      if c == 0 and isinstance(c, (int, float)):
        if lv.t == 'count':
          pos = lv.s == 'pos'
          if isinstance(op, (ast.Gt, ast.NotEq)):
            return pos
          if isinstance(op, (ast.Eq, ast.LtE)):
            return not pos
          return None
        if lv.t in ('sign', 'bound'):
          # Python: None != 0 is True, None == 0 is False
          if isinstance(op, ast.NotEq):
            return lv.s != 'zero'
          if isinstance(op, ast.Eq):
            return lv.s == 'zero'
          return None
      return None
    v = self.val(e)
    if v is UNK:
      return None
    return truthy(v)


_DERIVED_CACHE = {}


def derived_attr_defs(cls):
  """self.x -> expr for attributes defined in __init__ by one unconditional
  assignment (used to resolve e.g. self.num_constraint_dims)."""
  hit = _DERIVED_CACHE.get(id(cls))
  if hit is not None and hit[0] is cls:
    return dict(hit[1])
  out = _derived_attr_defs(cls)
  _DERIVED_CACHE[id(cls)] = (cls, out)
  return dict(out)


def _derived_attr_defs(cls):
  out = {}
  init = cls.find_method('__init__')
  if init is None:
    return out
  counts = {}
  for a, v, st in self_attr_assigns(init):
    counts[a] = counts.get(a, 0) + 1
    out['self.' + a] = v
  for a, n in counts.items():
    if n != 1:
      out.pop('self.' + a, None)
  return out


class Activation(object):
  """Would `fn` change its first argument under an abstract configuration?

  Tri-state: True / False / None (unknown).  Evaluates fn's top-level control
  structure: early `if T: return <arg>` exits, `if T: <assign result>`,
  loops over configuration lists, and `x = g(x, ...)` / `return g(x, ...)`
  delegations to repo functions (followed recursively)."""

  def __init__(self, prog, skip_params=()):
    self.prog = prog
    self.skip = set(skip_params)
    self.unknown = None
    self.may = []

  def is_active(self, fn, env, attr_defs=None, depth=0):
    if depth > 6:
      self.unknown = 'recursion depth at %s' % fn.qualname
      return None
    lg = Logic(self.prog, fn, env, attr_defs or {})
    ps = fn.all_params
    if not ps:
      self.unknown = '%s has no parameters' % fn.qualname
      return None
    names = {ps[0]}
    return self._block(fn, fn.node.body, lg, names, depth)

  def _assigned(self, st, names):
    ts = []
    if isinstance(st, ast.Assign):
      ts = st.targets
    elif isinstance(st, ast.AugAssign):
      ts = [st.target]
    for t in ts:
      for x in ast.walk(t):
        if isinstance(x, ast.Name) and x.id in names:
          return True
    return False

  def _delegate(self, fn, call, lg, names, depth):
    """x = g(x, ...) -> activation of g under the mapped environment."""
    r = self.prog.resolve_call(fn, call)
    if not isinstance(r, FunctionInfo):
      return True
    first = call.args[0] if call.args else None
    bound, _, _ = call_args(call, r.all_params)
    p0 = r.all_params[0] if r.all_params else None
    arg0 = bound.get(p0)
    if arg0 is None or dotted(arg0) not in names:
      return True
    cenv = {}
    for p in r.all_params:
      if p in bound:
        cenv[p] = lg.val(bound[p])
      elif p in r.defaults:
        cenv[p] = Logic(self.prog, r, {}).val(r.defaults[p])
    return self.is_active(r, cenv, None, depth + 1)

  def _skippable(self, test, fn):
    reads = {r for r in names_read(test)}
    ps = set(fn.all_params)
    rp = reads & ps
    return bool(rp) and rp <= self.skip

  def _block(self, fn, stmts, lg, names, depth):
    result = False
    for st in stmts:
      if isinstance(st, ast.Expr):
        continue
      if isinstance(st, ast.If):
        if self._skippable(st.test, fn):
          continue
        tv = lg.truth(st.test)
        # early exit returning the argument unchanged
        rets = [s for s in st.body if isinstance(s, ast.Return)]
        if (rets and dotted(rets[0].value) in names and len(st.body) == 1):
          if tv is True:
            return result
          if tv is None:
            self.unknown = '%s: %s' % (fn.qualname, norm_text(st.test)[:60])
            return None if result is False else result
          continue
        for branch, want in ((st.body, True), (st.orelse, False)):
          if not branch:
            continue
          if tv is None:
            # undecided configuration test: the branch may run.  For the
            # obligation "acts => guarded" may-act is treated as acts
            # (conservative for the property).
            sub = self._block(fn, branch, lg, names, depth)
            if sub:
              self.may.append('%s: %s' % (fn.qualname,
                                          norm_text(st.test)[:60]))
              result = True
          elif tv == want:
            sub = self._block(fn, branch, lg, names, depth)
            if sub is True:
              result = True
            elif sub is None and result is False:
              result = None
        continue
      if isinstance(st, (ast.For, ast.While)):
        it = st.iter if isinstance(st, ast.For) else st.test
        inner = self._block(fn, st.body, lg, names, depth)
        if inner is False:
          continue
        if self._skippable(it, fn):
          continue
        v = lg.val(it.values[0] if isinstance(it, ast.BoolOp) else it)
        tv = truthy(v) if v is not UNK else None
        if isinstance(it, ast.Call) and dotted(it.func) in ('range',
                                                            'enumerate', 'zip'):
          tv = True
        if tv is None:
          self.unknown = '%s: loop over %s' % (fn.qualname, norm_text(it)[:50])
          if result is False:
            result = None
        elif tv:
          result = True if inner is True else (
              None if result is False else result)
        continue
      if isinstance(st, (ast.Assign, ast.AugAssign)):
        if self._assigned(st, names):
          v = st.value
          if isinstance(v, ast.Call) and isinstance(st, ast.Assign):
            sub = self._delegate(fn, v, lg, names, depth)
          elif isinstance(st, ast.Assign) and dotted(v) in names:
            sub = False
          else:
            sub = True
          if sub is True:
            result = True
          elif sub is None and result is False:
            result = None
        elif isinstance(st, ast.Assign) and dotted(st.value) in names:
          for t in st.targets:
            if isinstance(t, ast.Name):
              names.add(t.id)   # alias of the weights
        elif isinstance(st, ast.Assign) and isinstance(st.value, ast.Call):
          # y = g(x, ...): a projected copy that may be returned
          arg0 = st.value.args[0] if st.value.args else None
          if arg0 is not None and dotted(arg0) in names:
            sub = self._delegate(fn, st.value, lg, names, depth)
            for t in st.targets:
              if isinstance(t, ast.Name):
                names.add(t.id)
            if sub is True:
              result = True
            elif sub is None and result is False:
              result = None
        continue
      if isinstance(st, ast.Return):
        v = st.value
        if isinstance(v, ast.Call):
          sub = self._delegate(fn, v, lg, names, depth)
          if sub is True:
            return True
          if sub is None and result is False:
            return None
        return result
      if isinstance(st, (ast.FunctionDef, ast.Assert, ast.Pass, ast.Delete,
                         ast.Raise)):
        continue
      if isinstance(st, ast.With):
        sub = self._block(fn, st.body, lg, names, depth)
        if sub is True:
          result = True
        elif sub is None and result is False:
          result = None
        continue
      self.unknown = '%s: statement %s' % (fn.qualname, type(st).__name__)
      if result is False:
        result = None
    return result


def class_env(prog, cls, arg_vals):
  """Abstract attribute environment of an instance of cls constructed with
  the given abstract argument values: {'self.x': Val}."""
  init = cls.find_method('__init__')
  penv = {}
  for p in init.all_params:
    if p in arg_vals:
      penv[p] = arg_vals[p]
    elif p in init.defaults:
      penv[p] = Logic(prog, init, {}).val(init.defaults[p])
  env = dict(penv)
  for a, v, st in self_attr_assigns(init):
    if v is None:
      continue
    lg = Logic(prog, init, env)
    env['self.' + a] = lg.val(v)
  return {k: v for k, v in env.items() if k.startswith('self.')}


def check_guard(prog, res, fn, call, callee, rule='W3', key=None,
                covered_elsewhere=None, implications=None, callee_env=None,
                switches=(), precondition=None, state_filter=None):
  """For the guarded call / construction at `call` inside method fn: in every
  abstract configuration state in which the callee would change the weights,
  the structural guard of the call holds.

  callee: FunctionInfo (x = f(x, ...)) or ClassInfo (constraint object whose
  __call__ is evaluated on the attribute environment its constructor builds).
  covered_elsewhere: {callee param: reason} effects enforced by other code
  that another rule checks.  implications: [(premise, conclusion, reason)]
  validated configuration implications; excluded states violate one."""
  from ..cfg import structural_guards
  from ..model import ClassInfo
  covered_elsewhere = covered_elsewhere or {}
  cls = fn.cls
  guards = structural_guards(fn.node, call) or []
  if isinstance(callee, ClassInfo):
    sig = callee.find_method('__init__')
    params = sig.all_params
  else:
    params = callee.all_params
  bound, _, _ = call_args(call, params)
  attr_defs = {r: e for r, e in (derived_attr_defs(cls) if cls else {}).items()
               if _is_derived(e)}
  atoms = set()

  def collect(expr, depth=0):
    for r in names_read(expr):
      if r.startswith('self.'):
        if r in attr_defs and depth < 3:
          collect(attr_defs[r], depth + 1)
        else:
          atoms.add(r)

  for t, pol in guards:
    collect(t)
  for p, v in bound.items():
    collect(v)
  for t, pol in (precondition or []):
    collect(t)
  for sw in switches:
    atoms.add(sw)
  atoms = sorted(a for a in atoms if atom_type(a) != 'opaque')
  k = key or '%s->%s' % (fn.qualname, callee.qualname)
  spaces = [TYPE_STATES[atom_type(a)] for a in atoms]
  n_states = 0
  bad = None
  unknown = None
  state_filter = state_filter or {}
  for combo in itertools.product(*spaces):
    env = {a: Val(atom_type(a), s) for a, s in zip(atoms, combo)}
    if implications and not _respects(env, implications):
      continue
    if any(a in state_filter and s not in state_filter[a]
           for a, s in zip(atoms, combo)):
      continue
    # opt-in switches (e.g. enforce_strict_monotonicity): only states in
    # which the user asked for the effect are obligations
    if any(env.get(sw) is not None and truthy(env[sw]) is False
           for sw in switches):
      continue
    lg = Logic(prog, fn, env, attr_defs)
    # the variable / call site itself does not exist in this state
    pre = True
    for t, pol in (precondition or []):
      tv = lg.truth(t)
      if tv is not None and tv != pol:
        pre = False
    if not pre:
      continue
    n_states += 1
    g = True
    for t, pol in guards:
      tv = lg.truth(t)
      if tv is None:
        unknown = 'guard %s' % norm_text(t)[:60]
        g = None
        break
      if tv != pol:
        g = False
        break
    if g is True:
      continue    # obligation "acts => guarded" holds trivially
    act = Activation(prog, skip_params=covered_elsewhere)
    if isinstance(callee, ClassInfo):
      arg_vals = {p: lg.val(v) for p, v in bound.items()}
      cenv = class_env(prog, callee, arg_vals)
      callm = callee.find_method('__call__')
      cdefs = {r: e for r, e in derived_attr_defs(callee).items()
               if _is_derived(e)}
      active = act.is_active(callm, cenv, cdefs)
    else:
      cenv = {}
      for p in params:
        if p in bound:
          cenv[p] = lg.val(bound[p])
        elif p in callee.defaults:
          cenv[p] = Logic(prog, callee, {}).val(callee.defaults[p])
      active = act.is_active(callee, cenv)
    if active is None:
      unknown = act.unknown
    if g is None or active is None:
      continue
    if active and not g and bad is None:
      bad = dict(zip(atoms, combo))
  if unknown and bad is None:
    raise AnalysisError('%s: cannot evaluate %s' % (fn.loc(call), unknown))
  gtext = ' and '.join(('' if pol else 'not ') + norm_text(t)
                       for t, pol in guards) or '<unguarded>'
  res.check(bad is None, rule, k, fn.loc(call),
            'guard `%s` holds in every one of %d configuration states in '
            'which %s acts' % (gtext[:70], n_states, callee.name),
            'guard `%s` is false for %s although %s would change the weights '
            'there: the constraint never takes effect' % (
                gtext[:80], bad, callee.qualname))
  return n_states


def _is_derived(expr):
  """Expression that derives a value from other attributes (call / bool
  expression), as opposed to `self.x = x`."""
  return isinstance(expr, (ast.Call, ast.BoolOp, ast.Compare, ast.IfExp)) and \
      any(r.startswith('self.') for r in names_read(expr))


def _respects(env, implications):
  for prem, concl, _ in implications:
    pv = env.get(prem)
    cv = env.get(concl)
    if pv is None or cv is None:
      continue
    if truthy(pv) and nonzero_count(cv) is False:
      return False
  return True


def trace(prog, fn, env, attr_defs=None, both_on_unknown=False):
  """Statements fn executes under the abstract configuration env, following
  top-level and nested if-chains whose tests the configuration decides.
  Returns the list of executed simple statements; raises AnalysisError when
  a configuration test cannot be evaluated."""
  lg = Logic(prog, fn, env, attr_defs or {})
  out = []

  def block(stmts):
    for st in stmts:
      if isinstance(st, ast.If):
        reads = names_read(st.test)
        tv = lg.truth(st.test)
        if tv is None and isinstance(fold_ifexp(st), ast.Assign):
          # `x = A if c else B` in its normal form: one simple statement
          out.append(fold_ifexp(st))
          continue
        if tv is None:
          if not both_on_unknown:
            raise AnalysisError('%s: test `%s` is not decided by the '
                                'configuration' % (fn.loc(st),
                                                   norm_text(st.test)[:60]))
          a = block(st.body)
          b = block(st.orelse)
          if a and b:
            return True
          continue
        if block(st.body if tv else st.orelse):
          return True
        continue
      out.append(st)
      if isinstance(st, (ast.Return, ast.Raise)):
        return True
    return False

  block(fn.node.body)
  return out


# ---------------------------------------------------------------------------
def check_bound_guards(prog, res, fn, bounds, rule='K3', attr_defs=None,
                       must_run=()):
  """K3 - each hard bound is enforced under its own guard.

  bounds: [(name, 'min'|'max')] - parameter names or 'self.x' attributes of
  fn that hold a numeric-or-None bound.  For every abstract configuration of
  the names the tests of fn read (each bound: none / zero / nonzero), the
  statements fn executes must contain a clip against every bound that is
  given: tf.maximum(., b) / tf.clip_by_value(., b, .) for a min-role b,
  tf.minimum(., b) / tf.clip_by_value(., ., b) for a max-role b.  A clip
  nested under a test of the OTHER bound (or a single clip guarded by "both
  given") silently drops a one-sided bound."""
  from .roles import forward_role
  res.analysed(fn)
  names = [b for b, _ in bounds]
  atoms = set(names)
  for n in ast.walk(fn.node):
    if isinstance(n, (ast.If, ast.IfExp)):
      for r in names_read(n.test):
        if atom_type(r) != 'opaque' or r in names:
          atoms.add(r)
  atoms = sorted(atoms)

  def typ(a):
    return 'bound' if a in names else atom_type(a)

  def clips(st, b, role):
    for c in ast.walk(st):
      if not isinstance(c, ast.Call):
        continue
      ext = prog.ext_name(fn.module, c.func) or ''
      last = ext.split('.')[-1]
      args = list(c.args)
      kw = {k.arg: k.value for k in c.keywords}
      if last == 'clip_by_value' or last == 'clip':
        lo = args[1] if len(args) > 1 else kw.get('clip_value_min',
                                                  kw.get('a_min'))
        hi = args[2] if len(args) > 2 else kw.get('clip_value_max',
                                                  kw.get('a_max'))
        cand = lo if role == 'min' else hi
        if cand is not None and dotted(cand) == b:
          return True
      elif (last == 'maximum' and role == 'min') or (
          last == 'minimum' and role == 'max'):
        if any(dotted(a) == b for a in args):
          return True
    return False

  n = 0
  bad = {}
  for combo in itertools.product(*[TYPE_STATES[typ(a)] for a in atoms]):
    env = {a: Val(typ(a), s) for a, s in zip(atoms, combo)}
    stmts = trace(prog, fn, env, attr_defs)
    n += 1
    for b, role in bounds:
      if env[b].s == 'none':
        continue
      if not any(clips(st, b, role) for st in stmts):
        bad.setdefault(b, dict(zip(atoms, combo)))
  # must_run: [(atom, states in which it is "given", predicate on the callee
  # name, description)] - in every state with the atom given, the executed
  # statements call such a function (an early return / a guard on another
  # option must not skip the step)
  for atom, given, pred, what in must_run:
    if atom not in atoms:
      raise AnalysisError('%s: no test reads %s any more' % (fn.qualname,
                                                             atom))
    skipped = None
    for combo in itertools.product(*[TYPE_STATES[typ(a)] for a in atoms]):
      env = {a: Val(typ(a), s_) for a, s_ in zip(atoms, combo)}
      if env[atom].s not in given:
        continue
      stmts = trace(prog, fn, env, attr_defs)
      ran = False
      for st in stmts:
        for c in ast.walk(st):
          if isinstance(c, ast.Call):
            r = prog.resolve_call(fn, c)
            nm = getattr(r, 'name', None) or (
                prog.ext_name(fn.module, c.func) or '')
            if pred(nm):
              ran = True
      if not ran and skipped is None:
        skipped = dict(zip(atoms, combo))
    res.check(skipped is None, rule, '%s|%s->%s' % (fn.qualname, atom, what),
              fn.loc(),
              'in every state with %s given, %s runs' % (atom, what),
              '%s is given but %s does not run in state %s: an early return '
              'or a guard on another option skips it' % (atom, what, skipped))
  for b, role in bounds:
    key = '%s|%s' % (fn.qualname, b)
    res.check(b not in bad, rule, key, fn.loc(),
              'in each of %d configuration states with %s given the executed '
              'statements clip against it' % (n, b),
              '%s is given but never clipped against in state %s: a clip '
              'nested under the test of another bound drops one-sided bounds'
              % (b, bad.get(b)))
  return n


# ---------------------------------------------------------------------------
def check_clip_paths(prog, res, fn, flag='clip_inputs', rule='X5',
                     is_clip=None, uses=None):
  """X5 - with `flag` on, EVERY path through fn clips before it evaluates.

  All paths of the statement tree are enumerated (tests that read only `flag`
  are decided as flag = True; every other test forks), carrying one bit:
  "a clip of the inputs / weights was executed".  At each statement that
  consumes the inputs for interpolation (`uses`) and at each return the bit
  must be set.  A clip that sits in only one arm of the size dispatch leaves
  the other arm extrapolating for out-of-range inputs."""
  res.analysed(fn)
  if is_clip is None:
    def is_clip(st):
      for c in ast.walk(st):
        if isinstance(c, ast.Call):
          ext = prog.ext_name(fn.module, c.func) or ''
          r = prog.resolve_call(fn, c)
          nm = getattr(r, 'name', '')
          if ext.endswith('clip_by_value') or nm.startswith('_clip_onto'):
            return True
      return False
  bad = []
  early = []
  n_paths = [0]
  # the tensor that is clipped: first argument / `inputs=` of the clip call
  subject = None
  for st in ast.walk(fn.node):
    if isinstance(st, ast.stmt) and not isinstance(
        st, (ast.If, ast.For, ast.While, ast.FunctionDef)) and is_clip(st):
      for c in ast.walk(st):
        if isinstance(c, ast.Call) and (c.args or c.keywords):
          a = c.args[0] if c.args else c.keywords[0].value
          for k in c.keywords:
            if k.arg in ('inputs', 't', 'weights'):
              a = k.value
          if isinstance(a, ast.Name):
            subject = subject or a.id

  def derives(st):
    """st stores, under another name, a value computed from the (still
    unclipped) subject - not its shape / dtype / type"""
    if subject is None or not isinstance(st, (ast.Assign, ast.AugAssign)):
      return False
    tgt = st.targets[0] if isinstance(st, ast.Assign) else st.target
    if dotted(tgt) == subject:
      return False
    meta = set()
    for m in ast.walk(st.value):
      if isinstance(m, ast.Attribute) and m.attr in ('shape', 'dtype'):
        meta.update(id(x) for x in ast.walk(m))
      if isinstance(m, ast.Call) and dotted(m.func) in (
          'len', 'isinstance', 'tf.shape', 'tf.rank', 'type'):
        meta.update(id(x) for x in ast.walk(m))
      if isinstance(m, (ast.ListComp, ast.GeneratorExp)) and isinstance(
          m.elt, ast.Attribute) and m.elt.attr in ('shape', 'dtype') and \
          len(m.generators) == 1 and dotted(m.elt.value) == dotted(
              m.generators[0].target):
        meta.update(id(x) for x in ast.walk(m))
    return any(isinstance(m, ast.Name) and m.id == subject and
               id(m) not in meta for m in ast.walk(st.value))

  def decide(test):
    reads = names_read(test)
    if reads and reads <= {flag}:
      d = dotted(test)
      if d == flag:
        return True
      if isinstance(test, ast.UnaryOp) and isinstance(test.op, ast.Not) and \
          dotted(test.operand) == flag:
        return False
    return None

  by_id = {}

  def clip_arg(st):
    for c in ast.walk(st):
      if isinstance(c, ast.Call) and (c.args or c.keywords):
        ext = prog.ext_name(fn.module, c.func) or ''
        nm = getattr(prog.resolve_call(fn, c), 'name', '')
        if ext.endswith('clip_by_value') or nm.startswith('_clip_onto'):
          a = c.args[0] if c.args else c.keywords[0].value
          for k in c.keywords:
            if k.arg in ('inputs', 't', 'weights'):
              a = k.value
          return dotted(a)
    return None

  def walk(stmts, state):
    """state = (a clip was executed, statements that derived a value from the
    still unclipped subject); returns the states with which control falls
    through"""
    states = [state]
    for st in stmts:
      nxt = []
      for c, pend in states:
        if isinstance(st, ast.If):
          d = decide(st.test)
          arms = [(st.body, True), (st.orelse, False)]
          if d is not None:
            arms = [(st.body if d else st.orelse, d)]
          for body, _ in arms:
            nxt.extend(walk(body, (c, pend)))
        elif isinstance(st, (ast.For, ast.While)):
          nxt.extend(walk(st.body, (c, pend)))
          nxt.append((c, pend))
        elif isinstance(st, ast.Return):
          n_paths[0] += 1
          if not c:
            bad.append(st)
        elif isinstance(st, ast.Raise):
          pass
        else:
          if is_clip(st):
            a = clip_arg(st)
            if a == subject:
              # the subject is clipped only now: what was derived from it
              # before is stale
              early.extend(by_id[i] for i in sorted(pend))
              pend = frozenset()
            else:
              # a derived value that is clipped itself is fine
              pend = frozenset(i for i in pend if dotted(
                  by_id[i].targets[0] if isinstance(by_id[i], ast.Assign)
                  else by_id[i].target) != a)
          elif not c and derives(st):
            by_id[id(st)] = st
            pend = pend | {id(st)}
          nxt.append((c or is_clip(st), pend))
      states = sorted(set(nxt), key=lambda t: (t[0], sorted(t[1])))
      if not states:
        break
    return states
  walk(fn.node.body, (False, frozenset()))
  key = '%s|%s-on-every-path' % (fn.qualname, flag)
  res.check(not bad, rule, key, fn.loc(bad[0] if bad else None),
            'with %s on, each of the %d return paths passes a clip' % (
                flag, n_paths[0]),
            'with %s on there is a path to `%s` on which nothing is clipped: '
            'out-of-range inputs are extrapolated on that path (the clip '
            'sits in one arm of a dispatch only)' % (
                flag, norm_text(bad[0])[:50] if bad else ''))
  if subject is not None:
    # a path on which nothing is clipped at all is reported above; here only
    # values taken from the subject BEFORE a clip that does come later
    early = list({id(x): x for x in early}.values())
    res.check(not early, rule, '%s|%s-before-use' % (fn.qualname, flag),
              fn.loc(early[0] if early else None),
              'nothing is computed from `%s` before it is clipped' % subject,
              '`%s` is computed from `%s` before the clip: the clipped tensor '
              'and the value derived earlier disagree for out-of-range '
              'inputs (e.g. a cell index taken from the raw coordinate, an '
              'int32 cast that overflows)' % (
                  norm_text(early[0])[:60] if early else '', subject))
  return n_paths[0]


# ---------------------------------------------------------------------------
# X5c - nothing that is used later is computed from a value before its clip
def check_self_clip_order(prog, res, fns, rule='X5'):
  """`x = tf.minimum(x, hi)` (also maximum / clip_by_value with x as the
  clipped operand) states that from here on x is within its bound.  A value
  `y` that is computed from x in the same block BEFORE that statement and
  read AFTER it was computed from the unclipped x: the head-room, sum or
  factor derived from it does not belong to the x that the rest of the code
  goes on with (`delta = output_max - bias` before `bias = minimum(bias,
  output_max)` is negative for a bias above the bound).  Block-local, in
  statement order; shape / dtype reads do not count; a y that is re-computed
  after the clip is fine."""
  clips = ('tf.minimum', 'tf.maximum', 'tf.clip_by_value')
  n = 0

  def self_clip(fn, st):
    if isinstance(st, ast.Assign) and len(st.targets) == 1 and isinstance(
        st.targets[0], ast.Name) and isinstance(st.value, ast.Call) and (
            prog.ext_name(fn.module, st.value.func) or '') in clips and \
        st.value.args and isinstance(st.value.args[0], ast.Name) and \
        st.value.args[0].id == st.targets[0].id:
      return st.targets[0].id
    return None

  def reads(expr, name):
    meta = set()
    for m in ast.walk(expr):
      if isinstance(m, ast.Attribute) and m.attr in ('shape', 'dtype'):
        meta.update(id(x) for x in ast.walk(m))
      if isinstance(m, ast.Call) and dotted(m.func) in (
          'len', 'isinstance', 'tf.shape', 'tf.rank', 'type',
          'tf.ones_like', 'tf.zeros_like'):
        meta.update(id(x) for x in ast.walk(m))
    return any(isinstance(m, ast.Name) and m.id == name and isinstance(
        m.ctx, ast.Load) and id(m) not in meta for m in ast.walk(expr))

  for fn in fns:
    for owner in ast.walk(fn.node):
      for f in ('body', 'orelse', 'finalbody'):
        block = getattr(owner, f, None)
        if not (isinstance(block, list) and block and isinstance(
            block[0], ast.stmt)):
          continue
        for j, st in enumerate(block):
          x = self_clip(fn, st)
          if x is None:
            continue
          n += 1
          # statements of this block since the last assignment of x
          start = 0
          for i in range(j - 1, -1, -1):
            if any(isinstance(t, ast.Name) and t.id == x and isinstance(
                t.ctx, ast.Store) for t in ast.walk(block[i])):
              start = i + 1
              break
          bad = None
          tainted = {}        # name -> defining statement (derived from x)
          for i in range(start, j):
            d = block[i]
            if not (isinstance(d, ast.Assign) and len(d.targets) == 1 and
                    isinstance(d.targets[0], ast.Name)):
              continue
            y = d.targets[0].id
            if y == x:
              continue
            if reads(d.value, x) or any(reads(d.value, t) for t in tainted):
              tainted[y] = d
            else:
              tainted.pop(y, None)
          live = dict(tainted)
          for k in range(j + 1, len(block)):
            s2 = block[k]
            hit = [t for t in live if any(
                isinstance(m, ast.Name) and m.id == t and isinstance(
                    m.ctx, ast.Load) for m in ast.walk(s2))]
            if hit:
              bad = (hit[0], live[hit[0]])
              break
            for m in ast.walk(s2):
              if isinstance(m, ast.Name) and isinstance(m.ctx, ast.Store):
                live.pop(m.id, None)
            if not live:
              break
          key = '%s|%s clipped at +%d' % (fn.qualname, x,
                                          st.lineno - fn.node.lineno)
          res.check(bad is None, rule, '%s|self-clip:%s#%d' % (
              fn.qualname, x, sum(1 for b in block[:j] if self_clip(fn, b)
                                  == x)), fn.loc(st),
                    'nothing used later is computed from `%s` before this '
                    'clip' % x,
                    '`%s` is computed from `%s` before `%s` clips it and is '
                    'used afterwards: it was derived from the unclipped '
                    'value' % (bad[0] if bad else '', x,
                               norm_text(st)[:50]))
  return n
