"""D1 - dtype agreement in evaluation and gradient code.

Every layer takes the Keras `dtype` argument (CategoricalCalibration documents
it as the output dtype) and creates its weights in that dtype.  A tensor that
an evaluation or gradient function builds itself and then combines with the
inputs / weights must take its dtype from an operand; a constructor that
falls back to the default float32 (`tf.ones(shape)`, `tf.one_hot(...)`) or a
literal `tf.float32` (`tf.cast(x, tf.float32)`) makes the first mixed
operation raise InvalidArgumentError for a float64 (or float16) layer, on
every input.  The analysed set is the repo call closure of the layers' `call`
methods (nested gradient functions included).

Accepted: `dtype=<expr>.dtype`, `dtype=self.dtype`, `dtype=dtype` (a
forwarded parameter), `*_like` constructors, integer dtypes (index
arithmetic).  A constructor whose only use is as a shape / index is not
distinguished; none exists in the analysed set (the floor of 0 reports makes
any new one visible)."""
import ast

from ..model import AnalysisError, dotted, norm_text, const_value

DEFAULT_FLOAT = {'tf.ones': 1, 'tf.zeros': 1, 'tf.one_hot': None,
                 'tf.eye': None, 'tf.linspace': None}
FLOAT_LITERALS = {'tf.float32', 'tf.float64', 'tf.float16', 'tf.bfloat16',
                  'tf.dtypes.float32', 'np.float32', 'np.float64'}


def _dtype_arg(prog, fn, c, ext):
  for k in c.keywords:
    if k.arg == 'dtype':
      return k.value
  pos = DEFAULT_FLOAT.get(ext)
  if pos is not None and len(c.args) > pos:
    return c.args[pos]
  return None


def sites(prog, fn):
  """[(call, kind, text)] kind: 'default' (constructor without dtype) |
  'literal' (float dtype literal) | 'ok'"""
  out = []
  for c in ast.walk(fn.node):
    if not isinstance(c, ast.Call):
      continue
    ext = prog.ext_name(fn.module, c.func) or ''
    if ext in DEFAULT_FLOAT:
      d = _dtype_arg(prog, fn, c, ext)
      if d is None:
        out.append((c, 'default', ext))
      elif (prog.ext_name(fn.module, d) or dotted(d) or '') in FLOAT_LITERALS:
        out.append((c, 'literal', ext))
      else:
        out.append((c, 'ok', ext))
    elif ext in ('tf.cast', 'tf.dtypes.cast', 'tf.constant',
                 'tf.convert_to_tensor', 'tf.ones_like', 'tf.zeros_like',
                 'tf.fill', 'tf.random.uniform', 'tf.random.normal'):
      d = None
      for k in c.keywords:
        if k.arg == 'dtype':
          d = k.value
      if d is None and ext in ('tf.cast', 'tf.dtypes.cast') and \
          len(c.args) > 1:
        d = c.args[1]
      if d is None:
        continue
      name = prog.ext_name(fn.module, d) or dotted(d) or ''
      if name in FLOAT_LITERALS:
        out.append((c, 'literal', ext))
      else:
        out.append((c, 'ok', ext))
  return out


def check_functions(prog, res, fns, rule='D1', allow=None):
  """allow: {(qualname, normalised call text): reason}"""
  allow = allow or {}
  n = 0
  for fn in fns:
    res.analysed(fn)
    seen = {}
    for c, kind, ext in sites(prog, fn):
      text = norm_text(c)
      idx = seen.get(ext, 0)
      seen[ext] = idx + 1
      key = '%s|%s%s' % (fn.qualname, ext, '#%d' % (idx + 1) if idx else '')
      n += 1
      if (fn.qualname, text) in allow:
        res.ok(rule, key, fn.loc(c), 'allowed: ' + allow[(fn.qualname, text)])
      elif kind == 'ok':
        res.ok(rule, key, fn.loc(c), '%s takes its dtype from an operand / '
               'parameter' % ext)
      elif kind == 'default':
        res.violation(rule, key, fn.loc(c),
                      '`%s` has no dtype and is float32 whatever the layer '
                      'dtype is: combined with the inputs / weights of a '
                      'float64 layer it raises InvalidArgumentError on every '
                      'input' % text[:60])
      else:
        res.violation(rule, key, fn.loc(c),
                      '`%s` hard-codes a float dtype in evaluation / gradient '
                      'code: a layer of another dtype fails at the first '
                      'mixed operation' % text[:60])
  return n


_POSITIVE = '''
def f(inputs, kernel):
  ones = tf.ones(tf.shape(inputs))
  mask = tf.cast(tf.equal(inputs, 0), tf.float32)
  good = tf.zeros(shape=[], dtype=inputs.dtype)
  return tf.concat([ones, inputs * mask + good], axis=-1)
'''


def selfcheck():
  class _Prog(object):
    def ext_name(self, module, e):
      return dotted(e)

  class _Fn(object):
    module = None
    node = ast.parse(_POSITIVE).body[0]
  got = [k for _, k, _ in sites(_Prog(), _Fn())]
  if sorted(got) != ['default', 'literal', 'ok']:
    raise AnalysisError('D1 self-check: embedded example classified as %s' %
                        got)


def check_tensor_returns(prog, res, fns, rule='D1'):
  """A function that returns a tensor of its operand's dtype on its main path
  must not return a bare Python number on an early exit: callers add the
  results of several such functions (tf.add_n over the regularizers of a
  layer), and a Python 0.0 becomes a float32 tensor next to float64 terms."""
  n = 0
  for fn in fns:
    res.analysed(fn)
    rets = [r for r in ast.walk(fn.node) if isinstance(r, ast.Return)
            and r.value is not None]
    lits = [r for r in rets if isinstance(const_value(r.value, None),
                                          (int, float))
            and not isinstance(const_value(r.value, None), bool)]
    n += 1
    key = '%s|returns' % fn.qualname
    res.check(not lits, rule, key, fn.loc(lits[0] if lits else None),
              'all %d return values are tensors' % len(rets),
              '`return %s` on an early exit while the other paths return a '
              'tensor of the weights dtype: summed with another regularizer '
              'of a float64 layer (tf.add_n) the dtypes disagree' % (
                  norm_text(lits[0].value) if lits else ''))
  return n
