"""K4 - bound influence: in every discrete configuration of a strict
(finalising) projection the returned weights are data-dependent on every
bound that is configured.

If the value returned for some configuration does not depend on `output_min`
at all, then for a kernel below the bound the result is the same whatever the
bound is, so some admissible bound is violated: dependence is a necessary
condition of "the result lies inside [output_min, output_max] for every
kernel".  It is decided by a configuration-aware forward influence analysis:
discrete hyper-parameters (monotonicity, convexity, constraint kinds) are
concrete, so every configuration test is decided and exactly one path is
followed; tensors carry the set of bound parameters they depend on; calls to
repo functions are followed with the arguments bound (the negate-and-swap
mirror recursion for the decreasing case included)."""
import ast

from ..model import (AnalysisError, FunctionInfo, dotted, norm_text,
                     const_value, call_args, fold_ifexp)

GIVEN = 'GIVEN'          # a bound that is configured (not None)
TENSOR = 'TENSOR'        # a single tensor (not a list / tuple)
UNK = object()


class V(object):
  """conc: concrete python value, GIVEN, or UNK;  infl: frozenset of bound
  names (of the entry function) the value depends on."""
  __slots__ = ('conc', 'infl')

  def __init__(self, conc=UNK, infl=()):
    self.conc = conc
    self.infl = frozenset(infl)

  def __repr__(self):
    return 'V(%r,%s)' % ('?' if self.conc is UNK else self.conc,
                         sorted(self.infl))


def _join(*vs):
  s = set()
  for v in vs:
    if isinstance(v, V):
      s |= v.infl
    elif isinstance(v, tuple):
      for x in v:
        s |= _join(x).infl
  return V(UNK, s)


def _meet(a, b):
  """control-flow merge for a MUST-depend analysis: a dependence survives
  only if it holds on both paths."""
  if isinstance(a, tuple) and isinstance(b, tuple) and len(a) == len(b):
    return tuple(_meet(x, y) for x, y in zip(a, b))
  if not isinstance(a, V):
    a = _join(a)
  if not isinstance(b, V):
    b = _join(b)
  same = a.conc is b.conc or (
      a.conc is not UNK and b.conc is not UNK and
      not isinstance(a.conc, list) and not isinstance(b.conc, list) and
      type(a.conc) is type(b.conc) and a.conc == b.conc)
  return V(a.conc if same else UNK, a.infl & b.infl)


def _meet_env(e1, e2):
  out = {}
  for k in set(e1) | set(e2):
    if k in e1 and k in e2:
      out[k] = e1[k] if e1[k] is e2[k] else _meet(e1[k], e2[k])
    else:
      # defined on one path only: no dependence can be relied on
      v = e1.get(k, e2.get(k))
      out[k] = V(UNK, ()) if not isinstance(v, tuple) else tuple(
          V(UNK, ()) for _ in v)
  return out


def _only_raises(stmts):
  return bool(stmts) and all(isinstance(s, ast.Raise) or (
      isinstance(s, ast.Expr) and isinstance(s.value, ast.Constant))
                             for s in stmts)


class Interp(object):

  def __init__(self, prog, enum_names=('NONE', 'BOUND', 'CLAMPED'),
               max_depth=6, strict=True):
    self.prog = prog
    self.strict = strict
    self.follow_methods = True
    self.enum_names = set(enum_names)
    self.max_depth = max_depth
    self.trace = []

  # -- expressions ---------------------------------------------------------
  def val(self, fn, e, env):
    if e is None:
      return V(None)
    if isinstance(e, ast.Constant):
      return V(e.value)
    d = dotted(e)
    if d is not None:
      if d in env:
        return env[d]
      last = d.split('.')[-1]
      if '.' in d and last in self.enum_names:
        return V(last)
      # a module-level constant (tuple / list of literals, a literal)
      cst = getattr(fn.module, 'constants', {}).get(d) if '.' not in d \
          else None
      if cst is not None and cst is not e and isinstance(
          cst, (ast.Tuple, ast.List, ast.Constant)):
        try:
          ast.literal_eval(cst)          # literals only
          return self.val(fn, cst, env)
        except (ValueError, SyntaxError, TypeError):
          pass
      return V(UNK)
    if isinstance(e, ast.UnaryOp):
      v = self.val(fn, e.operand, env)
      if isinstance(e.op, ast.Not):
        t = self.truth(fn, e.operand, env)
        return V(UNK if t is None else (not t), v.infl)
      if isinstance(e.op, ast.USub):
        if v.conc is GIVEN:
          return V(GIVEN, v.infl)
        if isinstance(v.conc, (int, float)) and not isinstance(v.conc, bool):
          return V(-v.conc, v.infl)
      return V(UNK, v.infl)
    if isinstance(e, ast.IfExp):
      t = self.truth(fn, e.test, env)
      if t is None:
        if self.strict:
          raise AnalysisError('%s: `%s` is not decided by the configuration'
                              % (fn.loc(e), norm_text(e.test)[:60]))
        # the value is selected by the test: it depends on the operands of
        # the test (control dependence) and on what both arms share
        a = _join(self.val(fn, e.body, env))
        b = _join(self.val(fn, e.orelse, env))
        c = _join(self.val(fn, e.test, env))
        return V(UNK, c.infl | (a.infl & b.infl))
      return self.val(fn, e.body if t else e.orelse, env)
    if isinstance(e, (ast.Tuple, ast.List)):
      return tuple(self.val(fn, x, env) for x in e.elts)
    if isinstance(e, ast.Call):
      f = dotted(e.func)
      if f == 'isinstance' and len(e.args) == 2:
        v = self.val(fn, e.args[0], env)
        kinds = [dotted(x) for x in (e.args[1].elts if isinstance(
            e.args[1], ast.Tuple) else [e.args[1]])]
        if isinstance(v, V) and isinstance(v.conc, list):
          return V('list' in kinds)
        if isinstance(v, V) and v.conc is TENSOR:
          return V(False if set(kinds) <= {'list', 'tuple', 'dict'} else UNK)
        return V(UNK)
      if f == 'len' and len(e.args) == 1:
        v = self.val(fn, e.args[0], env)
        if isinstance(v, V) and isinstance(v.conc, list):
          return V(len(v.conc))
        if isinstance(v, tuple):
          return V(len(v))
      return self.call(fn, e, env)
    if isinstance(e, (ast.Compare, ast.BoolOp)):
      t = self.truth(fn, e, env)
      subs = [self.val(fn, x, env) for x in ast.iter_child_nodes(e)
              if isinstance(x, ast.expr)]
      return V(UNK if t is None else t, _join(*subs).infl)
    subs = [self.val(fn, x, env) for x in ast.iter_child_nodes(e)
            if isinstance(x, ast.expr)]
    return _join(*subs)

  def truth(self, fn, t, env):
    if isinstance(t, ast.BoolOp):
      vals = [self.truth(fn, v, env) for v in t.values]
      if isinstance(t.op, ast.And):
        if any(v is False for v in vals):
          return False
        return True if all(v is True for v in vals) else None
      if any(v is True for v in vals):
        return True
      return False if all(v is False for v in vals) else None
    if isinstance(t, ast.UnaryOp) and isinstance(t.op, ast.Not):
      v = self.truth(fn, t.operand, env)
      return None if v is None else (not v)
    if isinstance(t, ast.Compare) and len(t.ops) == 1:
      l = self.val(fn, t.left, env)
      r = self.val(fn, t.comparators[0], env)
      op = t.ops[0]
      if isinstance(op, (ast.In, ast.NotIn)) and isinstance(r, tuple) and \
          isinstance(l, V) and l.conc is not UNK and l.conc is not GIVEN and \
          all(isinstance(x, V) and x.conc is not UNK for x in r):
        hit = any(type(x.conc) is type(l.conc) and x.conc == l.conc for x in r)
        return hit if isinstance(op, ast.In) else (not hit)
      if isinstance(l, tuple) or isinstance(r, tuple):
        return None
      if isinstance(op, (ast.Is, ast.IsNot)):
        if r.conc is None and l.conc is not UNK:
          isn = l.conc is None
          return isn if isinstance(op, ast.Is) else (not isn)
        return None
      if l.conc is UNK or r.conc is UNK or GIVEN in (l.conc, r.conc):
        return None
      try:
        if isinstance(op, ast.Eq):
          return l.conc == r.conc
        if isinstance(op, ast.NotEq):
          return l.conc != r.conc
        if isinstance(op, ast.Lt):
          return l.conc < r.conc
        if isinstance(op, ast.LtE):
          return l.conc <= r.conc
        if isinstance(op, ast.Gt):
          return l.conc > r.conc
        if isinstance(op, ast.GtE):
          return l.conc >= r.conc
      except TypeError:
        return None
      return None
    v = self.val(fn, t, env)
    if isinstance(v, tuple) or v.conc is UNK or v.conc is GIVEN:
      return None
    return bool(v.conc)

  def call(self, fn, c, env, depth=0):
    r = self.prog.resolve_call(fn, c)
    args = [self.val(fn, a, env) for a in c.args]
    kws = {k.arg: self.val(fn, k.value, env) for k in c.keywords if k.arg}
    if isinstance(r, FunctionInfo) and r.cls is None:
      bound, _, _ = call_args(c, r.all_params)
      cenv = {}
      for p in r.all_params:
        if p in bound:
          cenv[p] = self.val(fn, bound[p], env)
        elif p in r.defaults:
          cenv[p] = self.val(r, r.defaults[p], {})
      return self.run(r, cenv)
    if isinstance(r, FunctionInfo) and r.cls is not None and \
        self.follow_methods and isinstance(c.func, ast.Attribute) and \
        dotted(c.func.value) == 'self' and r.cls is getattr(fn, 'cls', None):
      params = [p for p in r.all_params if p != 'self']
      bound, _, _ = call_args(c, params)
      cenv = {k: v for k, v in env.items() if k == 'self' or
              k.startswith('self.')}
      for p in params:
        if p in bound:
          cenv[p] = self.val(fn, bound[p], env)
        elif p in r.defaults:
          cenv[p] = self.val(r, r.defaults[p], {})
      return self.run(r, cenv)
    return _join(*(args + list(kws.values())))

  # -- statements ----------------------------------------------------------
  def run(self, fn, env, depth=None):
    self._depth = getattr(self, '_depth', 0) + 1
    try:
      if self._depth > self.max_depth:
        raise AnalysisError('influence analysis: call depth exceeded at %s' %
                            fn.qualname)
      env = dict(env)
      rets = []
      self.trace.append(fn.qualname)
      self._block(fn, fn.node.body, env, rets)
      if not rets:
        return V(None)
      out = rets[0]
      for r in rets[1:]:
        out = _meet(out, r)
      return out
    finally:
      self._depth -= 1

  def run_env(self, fn, env):
    """executes fn and returns the environment at its end (for __init__ /
    build methods whose effect is the attribute state)."""
    self._depth = getattr(self, '_depth', 0) + 1
    try:
      env = dict(env)
      rets = []
      self.trace.append(fn.qualname)
      self._block(fn, fn.node.body, env, rets)
      return env
    finally:
      self._depth -= 1

  def _merge(self, a, b):
    if isinstance(a, tuple) and isinstance(b, tuple) and len(a) == len(b):
      return tuple(self._merge(x, y) for x, y in zip(a, b))
    return _join(a, b)

  def _assign(self, target, value, env):
    if isinstance(target, (ast.Tuple, ast.List)):
      if isinstance(value, V) and isinstance(value.conc, list) and len(
          value.conc) == len(target.elts):
        value = tuple(value.conc)
      if isinstance(value, tuple) and len(value) == len(target.elts):
        for t, v in zip(target.elts, value):
          self._assign(t, v, env)
      else:
        for t in target.elts:
          self._assign(t, _join(value), env)
      return
    d = dotted(target)
    if d is not None:
      env[d] = value if isinstance(value, (V, tuple)) else V(UNK)
    elif isinstance(target, ast.Subscript):
      base = dotted(target.value)
      if base is not None:
        env[base] = _join(env.get(base, V(UNK)), value)

  def _block(self, fn, stmts, env, rets):
    """returns True when the block always returns."""
    for st in stmts:
      if isinstance(st, ast.Expr):
        continue
      if isinstance(st, ast.If) and isinstance(fold_ifexp(st), ast.Assign):
        st = fold_ifexp(st)      # `x = A if c else B` in its normal form
      if isinstance(st, ast.Return):
        rets.append(self.val(fn, st.value, env) if st.value is not None
                    else V(None))
        return True
      if isinstance(st, ast.Raise):
        return True
      if isinstance(st, ast.Assign):
        v = self.val(fn, st.value, env)
        for t in st.targets:
          self._assign(t, v, env)
        continue
      if isinstance(st, ast.AugAssign):
        cur = self.val(fn, st.target, env)
        v = self.val(fn, st.value, env)
        self._assign(st.target, _join(cur, v), env)
        continue
      if isinstance(st, ast.If):
        t = self.truth(fn, st.test, env)
        if t is None:
          if self.strict:
            raise AnalysisError('%s: test `%s` is not decided by the '
                                'enumerated configuration' % (
                                    fn.loc(st), norm_text(st.test)[:60]))
          # accepted inputs only: an undecided validation raise is not taken
          if _only_raises(st.body) and not st.orelse:
            continue
          if _only_raises(st.orelse):
            if self._block(fn, st.body, env, rets):
              return True
            continue
          if _only_raises(st.body):
            if self._block(fn, st.orelse, env, rets):
              return True
            continue
          e1, e2 = dict(env), dict(env)
          r1 = self._block(fn, st.body, e1, rets)
          r2 = self._block(fn, st.orelse, e2, rets)
          if r1 and r2:
            return True
          merged = e2 if r1 else (e1 if r2 else _meet_env(e1, e2))
          # control dependence: what either arm assigns is selected by the test
          ctl = _join(self.val(fn, st.test, env)).infl
          if ctl and not (r1 or r2):
            for k in set(e1) | set(e2):
              if e1.get(k) is not env.get(k) or e2.get(k) is not env.get(k):
                v = merged.get(k)
                if isinstance(v, V):
                  merged[k] = V(v.conc, v.infl | ctl)
          env.clear()
          env.update(merged)
          continue
        if self._block(fn, st.body if t else st.orelse, env, rets):
          return True
        continue
      if isinstance(st, (ast.For, ast.While)):
        if isinstance(st, ast.For):
          it = self.val(fn, st.iter, env)
          self._assign(st.target, _join(it), env)
        before = dict(env)
        for _ in range(3):       # influence sets only grow: small fixpoint
          sub = []
          self._block(fn, st.body, env, sub)
          rets.extend(sub)
        if not self.strict:
          merged = _meet_env(before, env)   # the body may not run at all
          env.clear()
          env.update(merged)
        continue
      if isinstance(st, (ast.FunctionDef, ast.Pass, ast.Delete, ast.Assert,
                         ast.Import, ast.ImportFrom)):
        continue
      if isinstance(st, ast.With):
        if self._block(fn, st.body, env, rets):
          return True
        continue
      raise AnalysisError('%s: statement kind %s not handled by the influence '
                          'analysis' % (fn.loc(st), type(st).__name__))
    return False


def check_bound_influence(prog, res, fn, cases, bounds, rule='K4',
                          group_by=()):
  """cases: iterable of {param: concrete value | GIVEN | None}; bound params
  get V(GIVEN, {name}) when configured.  For every case and every configured
  bound, the value fn returns must carry the bound in its influence set.
  Obligations are grouped by the parameters in group_by plus the bound."""
  res.analysed(fn)
  groups = {}
  n = 0
  for case in cases:
    it = Interp(prog)
    env = {}
    for p in fn.all_params:
      if p in bounds:
        env[p] = V(GIVEN, {p}) if case.get(p) is GIVEN else V(None)
      elif p in case:
        env[p] = V(case[p])
      else:
        env[p] = V(UNK)
    out = _join(it.run(fn, env))
    for f in it.trace:
      try:
        res.analysed(prog.function(f))
      except Exception:
        pass
    n += 1
    for b in bounds:
      if case.get(b) is not GIVEN:
        continue
      gk = tuple((g, case.get(g)) for g in group_by) + (('bound', b),)
      ok, exs = groups.setdefault(gk, [0, []])
      if b in out.infl:
        groups[gk][0] += 1
      else:
        exs.append(case)
  for gk, (ok, exs) in sorted(groups.items(), key=repr):
    label = ','.join('%s=%s' % (g, v) for g, v in gk if g != 'bound')
    b = dict(gk)['bound']
    key = '%s|%s|%s' % (fn.qualname, label, b)
    if not exs:
      res.ok(rule, key, fn.loc(),
             'the returned weights depend on %s in all %d configurations' % (
                 b, ok))
    else:
      ex = {k: v for k, v in exs[0].items() if k not in bounds}
      res.violation(rule, key, fn.loc(),
                    'in %d configuration(s) (e.g. %s) the weights returned by '
                    '%s do not depend on the configured bound %s at all: no '
                    'statement on that path reads it, so a kernel outside '
                    'the bound is returned outside the bound' % (
                        len(exs), ex, fn.name, b))
  return n
