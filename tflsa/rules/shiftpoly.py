"""L6 - sequences as polynomials in shift operators.

`x[a:]` is S^a x (with a shorter support), `x[a:-c]` the same with c entries
trimmed at the end; all summands of an expression must trim the same total
amount per axis.  An expression over slices of one base tensor therefore
denotes P(S_0, S_1) applied to the base, and two expressions are the same
operator iff their polynomials agree."""
import ast
from fractions import Fraction

from ..model import AnalysisError, dotted, norm_text, const_value


class SP(object):
  """{(a0, a1): coef} with total trims (t0, t1)"""

  def __init__(self, terms, trims):
    self.t = {k: Fraction(v) for k, v in terms.items() if v != 0}
    self.trims = trims

  @staticmethod
  def base():
    return SP({(0, 0): 1}, (0, 0))

  def slice(self, axis_slices):
    """axis_slices: [(a, c)] per leading axis (missing axes = (0, 0))"""
    sl = list(axis_slices) + [(0, 0)] * (2 - len(axis_slices))
    t = {}
    for (a0, a1), v in self.t.items():
      t[(a0 + sl[0][0], a1 + sl[1][0])] = v
    return SP(t, (self.trims[0] + sl[0][0] + sl[0][1],
                  self.trims[1] + sl[1][0] + sl[1][1]))

  def _combine(self, o, sign):
    if self.trims != o.trims:
      raise AnalysisError('operands trim different amounts: %s vs %s' % (
          self.trims, o.trims))
    t = dict(self.t)
    for k, v in o.t.items():
      t[k] = t.get(k, 0) + sign * v
    return SP(t, self.trims)

  def __add__(self, o):
    return self._combine(o, 1)

  def __sub__(self, o):
    return self._combine(o, -1)

  def __neg__(self):
    return SP({k: -v for k, v in self.t.items()}, self.trims)

  def mul(self, o):
    t = {}
    for (a0, a1), v in self.t.items():
      for (b0, b1), w in o.t.items():
        k = (a0 + b0, a1 + b1)
        t[k] = t.get(k, 0) + v * w
    return SP(t, (self.trims[0] + o.trims[0], self.trims[1] + o.trims[1]))

  def normalised(self):
    """divide by the monomial of minimal exponents"""
    if not self.t:
      return {}
    m0 = min(k[0] for k in self.t)
    m1 = min(k[1] for k in self.t)
    return {(a - m0, b - m1): v for (a, b), v in self.t.items()}

  def min_offset(self, axis=0):
    return min(k[axis] for k in self.t) if self.t else 0

  def __repr__(self):
    return ' + '.join('%s*S0^%d*S1^%d' % (v, a, b)
                      for (a, b), v in sorted(self.t.items()))


def diff_power(k, axis=0):
  """(S_axis - 1)^k as a normalised term dict"""
  one = SP({(0, 0): -1, ((1, 0) if axis == 0 else (0, 1)): 1}, (0, 0))
  p = SP({(0, 0): 1}, (0, 0))
  for _ in range(k):
    p = p.mul(one)
  return p.normalised()


def _axis_slice(s):
  if isinstance(s, ast.Slice):
    if s.step is not None:
      raise AnalysisError('strided slice')
    a = const_value(s.lower) if s.lower is not None else 0
    hi = const_value(s.upper) if s.upper is not None else None
    if not isinstance(a, int) or a < 0:
      raise AnalysisError('slice start %s' % norm_text(s))
    if hi is None:
      c = 0
    elif isinstance(hi, int) and hi < 0:
      c = -hi
    else:
      raise AnalysisError('slice end %s is not of the form :-c' % hi)
    return (a, c)
  raise AnalysisError('index %s is not a slice' % norm_text(s))


def eval_seq(e, env):
  """env: name -> SP"""
  d = dotted(e)
  if d is not None:
    if d in env:
      return env[d]
    raise AnalysisError('sequence %s is not bound' % d)
  if isinstance(e, ast.Subscript):
    base = eval_seq(e.value, env)
    items = e.slice.elts if isinstance(e.slice, ast.Tuple) else [e.slice]
    return base.slice([_axis_slice(s) for s in items])
  if isinstance(e, ast.BinOp) and isinstance(e.op, (ast.Add, ast.Sub)):
    l, r = eval_seq(e.left, env), eval_seq(e.right, env)
    return l + r if isinstance(e.op, ast.Add) else l - r
  if isinstance(e, ast.UnaryOp) and isinstance(e.op, ast.USub):
    return -eval_seq(e.operand, env)
  raise AnalysisError('expression %s is outside the slice algebra' %
                      norm_text(e)[:60])
