"""P1 - min/max role coherence of forwarded arguments, P2 - clip polarity.

A *direct forward* is an argument whose value is a name, an attribute, a
unary minus of one, or `None if x is None else (+/-)y`.  Its role (min or
max) is read from the identifier; the parameter's role from the parameter
name.  Roles must agree; unary minus flips the role.  A call in which every
min/max pair is swapped and every numeric one negated is a coherent mirror
call (the decreasing -> increasing reductions) and is accepted."""
import ast

from ..model import (AnalysisError, FunctionInfo, ClassInfo, dotted, norm_text,
                     call_args, const_value, is_none)

MIN_TOKENS = ('min', 'lower', 'minval', 'lo')
MAX_TOKENS = ('max', 'upper', 'maxval', 'hi')

# positional parameter names of external callees with min/max roles
EXT_PARAMS = {
    'tf.clip_by_value': ['t', 'clip_value_min', 'clip_value_max'],
    'np.clip': ['a', 'a_min', 'a_max'],
    'tf.random.uniform': ['shape', 'minval', 'maxval'],
    'keras.initializers.RandomUniform': ['minval', 'maxval', 'seed'],
    'tf.random_uniform_initializer': ['minval', 'maxval', 'seed'],
    'tf.keras.initializers.RandomUniform': ['minval', 'maxval', 'seed'],
    'np.linspace': ['start', 'stop', 'num'],
    'tf.linspace': ['start', 'stop', 'num'],
}


def role_of_name(name):
  if not name:
    return None
  base = name.split('.')[-1].lower()
  toks = base.split('_')
  r = None
  for t in toks:
    if t in MIN_TOKENS:
      r = 'min' if r in (None, 'min') else 'both'
    elif t in MAX_TOKENS:
      r = 'max' if r in (None, 'max') else 'both'
  if r == 'both':
    return None
  return r


def _flip(r):
  return {'min': 'max', 'max': 'min'}.get(r)


def forward_role(expr):
  """(role, negated, source text) of a direct forward, or None."""
  if isinstance(expr, ast.UnaryOp) and isinstance(expr.op, ast.USub):
    inner = forward_role(expr.operand)
    if inner is None:
      return None
    return (_flip(inner[0]), not inner[1], inner[2])
  if isinstance(expr, ast.IfExp):
    # None if x is None else (+/-)y   /   y if x is not None else None
    a, b = expr.body, expr.orelse
    val = b if is_none(a) else (a if is_none(b) else None)
    if val is None:
      return None
    return forward_role(val)
  d = dotted(expr)
  if d is None:
    return None
  r = role_of_name(d)
  if r is None:
    return None
  return (r, False, d)


def call_param_names(prog, fn, call):
  """parameter names for positional arguments of a call (repo callee or
  table of external ones); None when unknown."""
  r = prog.resolve_call(fn, call)
  if isinstance(r, ClassInfo):
    init = r.find_method('__init__')
    return init.all_params if init else None
  if isinstance(r, FunctionInfo):
    return r.all_params
  if isinstance(r, tuple) and r[0] == 'ext':
    return EXT_PARAMS.get(r[1])
  return None


def check_call_roles(prog, res, fn, call, rule='P1'):
  """Returns number of role-known forwards in this call."""
  params = call_param_names(prog, fn, call)
  pairs = []   # (param name, value expr)
  for i, a in enumerate(call.args):
    if isinstance(a, ast.Starred):
      continue
    if params is not None and i < len(params):
      pairs.append((params[i], a))
  for kw in call.keywords:
    if kw.arg is not None:
      pairs.append((kw.arg, kw.value))
  known = []
  for pname, val in pairs:
    pr = role_of_name(pname)
    if pr is None:
      continue
    fr = forward_role(val)
    if fr is None:
      continue
    known.append((pname, pr, fr, val))
  if not known:
    return 0
  # mirror call: every min/max pair takes its value from the opposite-role
  # source (numeric ones negated, which restores the role; enum-like ones,
  # e.g. ..._constraints, plainly swapped) and at least one pair is negated
  mirror = any(k[2][1] and role_of_name(k[2][2]) == _flip(k[1])
               for k in known)
  callee = norm_text(call.func)[:50]
  for pname, pr, (vr, neg, src), val in known:
    key = '%s|%s(%s=)' % (fn.qualname, callee, pname)
    if mirror:
      res.check(role_of_name(src) == _flip(pr), rule, key, fn.loc(call),
                'mirror call: %s <- %s (pair swapped coherently)' % (
                    pname, norm_text(val)[:40]),
                'this call negates and swaps its bounds (a decreasing -> '
                'increasing reduction) but %r still receives the same-role '
                'value %s: the pair is not swapped with the others' % (
                    pname, norm_text(val)[:40]))
    elif pr == vr:
      res.ok(rule, key, fn.loc(call), '%s <- %s' % (pname,
                                                    norm_text(val)[:40]))
    else:
      res.violation(rule, key, fn.loc(call),
                    '%s-role parameter %r receives %s-role value %s '
                    '(roles swapped in a call that is not a coherent mirror '
                    'call)' % (pr, pname, vr, norm_text(val)[:50]))
  return len(known)


def check_function_roles(prog, res, fn, rule='P1'):
  n = 0
  for c in ast.walk(fn.node):
    if isinstance(c, ast.Call):
      n += check_call_roles(prog, res, fn, c, rule)
  n += check_unpack_roles(prog, res, fn, rule)
  return n


def check_unpack_roles(prog, res, fn, rule='P1'):
  """`a_min, a_max = f(...)` against f's literal `return x_min, x_max`;
  also plain tuple assignments `a_min, a_max = x_min, x_max`."""
  n = 0
  for st in ast.walk(fn.node):
    if not (isinstance(st, ast.Assign) and len(st.targets) == 1
            and isinstance(st.targets[0], ast.Tuple)):
      continue
    targets = st.targets[0].elts
    srcs = None
    if isinstance(st.value, ast.Tuple) and len(st.value.elts) == len(targets):
      srcs = st.value.elts
    elif isinstance(st.value, ast.Call):
      r = prog.resolve_call(fn, st.value)
      if isinstance(r, FunctionInfo):
        rets = [x for x in ast.walk(r.node) if isinstance(x, ast.Return)
                and isinstance(x.value, ast.Tuple)
                and len(x.value.elts) == len(targets)]
        if rets and len({tuple(dotted(e) for e in x.value.elts)
                         for x in rets}) == 1:
          srcs = rets[0].value.elts
    if srcs is None:
      continue
    for t, s in zip(targets, srcs):
      tr = role_of_name(dotted(t))
      fr = forward_role(s)
      if tr is None or fr is None:
        continue
      n += 1
      key = '%s|unpack:%s' % (fn.qualname, dotted(t))
      res.check(tr == fr[0], rule, key, fn.loc(st),
                '%s <- %s' % (dotted(t), norm_text(s)[:40]),
                '%s-role target %s is unpacked from %s-role value %s' % (
                    tr, dotted(t), fr[0], norm_text(s)[:40]))
  return n


# ---------------------------------------------------------------------------
def _bound_like(name):
  base = name.split('.')[-1].lower()
  return base.endswith(('_min', '_max', 'minval', 'maxval', '_bound',
                        '_bounds')) or base in ('lower', 'upper')


def check_clip_polarity(prog, res, fn, rule='P2'):
  """tf.maximum(x, b) needs a min-role b, tf.minimum(x, b) a max-role b
  (when b is a direct forward with a known role)."""
  n = 0
  for c in ast.walk(fn.node):
    if not isinstance(c, ast.Call) or len(c.args) != 2:
      continue
    ext = prog.ext_name(fn.module, c.func)
    if ext in ('tf.maximum', 'tf.math.maximum', 'np.maximum'):
      want = 'min'
    elif ext in ('tf.minimum', 'tf.math.minimum', 'np.minimum'):
      want = 'max'
    else:
      continue
    for a in c.args:
      fr = forward_role(a)
      if fr is None or not _bound_like(fr[2]):
        continue
      n += 1
      key = '%s|%s(%s)' % (fn.qualname, ext.split('.')[-1], fr[2])
      res.check(fr[0] == want, rule, key, fn.loc(c),
                '%s with the %s-role bound %s' % (ext, want, fr[2]),
                '%s is applied with the %s-role bound %s: clipping from the '
                'wrong side' % (ext, fr[0], norm_text(a)[:40]))
  return n
