"""F0 - format arity: `"...%s..." % (a, b, c)` needs as many conversion
specifiers as tuple elements; a mismatch raises TypeError while the error
message is being BUILT, so the intended ValueError is never raised (the
sites are all inside `raise ValueError(...)`)."""
import ast
import re

from ..model import norm_text

_SPEC = re.compile(r'%(?:\([^)]*\))?[#0\- +]*(?:\*|\d+)?(?:\.(?:\*|\d+))?'
                   r'[hlL]?([diouxXeEfFgGcrsa%])')


def _string_of(e):
  if isinstance(e, ast.Constant) and isinstance(e.value, str):
    return e.value
  if isinstance(e, ast.BinOp) and isinstance(e.op, ast.Add):
    a, b = _string_of(e.left), _string_of(e.right)
    if a is not None and b is not None:
      return a + b
  return None


def count_specs(s):
  n = 0
  mapping = False
  for m in _SPEC.finditer(s):
    if m.group(1) == '%':
      continue
    if '(' in m.group(0):
      mapping = True
    n += 1 + m.group(0).count('*')
  return n, mapping


def check_function(prog, res, fn, rule='F0'):
  n = 0
  idx = 0
  for e in ast.walk(fn.node):
    if not (isinstance(e, ast.BinOp) and isinstance(e.op, ast.Mod)):
      continue
    s = _string_of(e.left)
    if s is None:
      continue
    want, mapping = count_specs(s)
    if mapping:
      continue
    if isinstance(e.right, ast.Tuple):
      if any(isinstance(x, ast.Starred) for x in e.right.elts):
        continue
      got = len(e.right.elts)
    elif isinstance(e.right, ast.Name):
      # a single operand fills one specifier - unless it IS a tuple at run
      # time: known when the site is guarded by isinstance(x, tuple) or x was
      # unpacked into several names
      from ..cfg import structural_guards
      nm = e.right.id
      got = None
      for t, pol in structural_guards(fn.node, e) or []:
        for c in ast.walk(t):
          if pol and isinstance(c, ast.Call) and getattr(
              c.func, 'id', '') == 'isinstance' and len(c.args) == 2 and \
              getattr(c.args[0], 'id', None) == nm and 'tuple' in norm_text(
                  c.args[1]):
            got = 'tuple'
      for st in ast.walk(fn.node):
        if isinstance(st, ast.Assign) and isinstance(
            st.targets[0], ast.Tuple) and getattr(st.value, 'id', None) == nm \
            and st.lineno < e.lineno:
          got = len(st.targets[0].elts)
      if got is None:
        continue
      if got == 'tuple':
        got = 'a tuple of unknown length' if want == 1 else None
        if got is None:
          continue
    elif isinstance(e.right, (ast.Dict, ast.Call, ast.Attribute,
                              ast.Subscript)):
      continue
    else:
      got = 1
    if got is None:
      continue
    n += 1
    idx += 1
    key = '%s|format#%d' % (fn.qualname, idx)
    res.check(got == want, rule, key, fn.loc(e),
              '%d specifier(s), %s argument(s)' % (want, got),
              'the format string `%s` has %d conversion specifier(s) but is '
              'given %s argument(s): building the message raises TypeError '
              '("not all arguments converted" / "not enough arguments") '
              'instead of the intended error' % (s[:40].replace('\n', ' '),
                                                 want, got))
  return n
