"""L1 / L2 / L3 / L5 / L8 / A4 - rules over the affine forms extracted by E2."""
import ast
import itertools
from fractions import Fraction

from ..model import (AnalysisError, FunctionInfo, dotted, norm_text,
                     const_value, names_read)
from . import affine
from .affine import Kernel, Index, Form, classify_projection

LL = 'lattice_lib'


class Case(object):
  """One discrete configuration: expression text -> concrete value; index
  symbol -> position class."""

  def __init__(self, values, positions=None, sizes=None):
    self.values = values            # normalised text -> python value
    self.positions = positions or {}   # index var -> '0' | 'mid' | 'last'
    self.sizes = sizes or {}        # index var -> size symbol text

  def label(self):
    parts = ['%s=%s' % (k, v) for k, v in sorted(self.values.items())]
    parts += ['%s@%s' % (k, v) for k, v in sorted(self.positions.items())]
    return ','.join(parts).replace(' ', '')

  def subst(self):
    out = {}
    for var, pos in self.positions.items():
      if pos == '0':
        out[var] = Index({}, 0)
      elif pos == 'last':
        out[var] = Index({self.sizes[var]: 1}, -1)
    return out


def make_decider(kernel_ref, case, fn):
  def value_of(e):
    t = norm_text(e).replace(' ', '')
    if t in case.values:
      return case.values[t]
    c = const_value(e, default=None)
    if c is not None:
      return c
    if isinstance(e, ast.Name) and e.id in kernel_ref[0].env:
      v = kernel_ref[0].env[e.id]
      if isinstance(v, tuple) and v[0] == 'opaque':
        return value_of(v[1])
      if isinstance(v, bool):
        return v
    if isinstance(e, ast.Compare) and len(e.ops) == 1:
      return decide(e)
    if isinstance(e, ast.BoolOp) or (isinstance(e, ast.UnaryOp) and
                                     isinstance(e.op, ast.Not)):
      return decide(e)
    raise AnalysisError('%s: configuration value %s is not part of the '
                        'enumerated case' % (fn.loc(e), t))

  def decide(t):
    if isinstance(t, ast.BoolOp):
      vals = [decide(v) for v in t.values]
      return all(vals) if isinstance(t.op, ast.And) else any(vals)
    if isinstance(t, ast.UnaryOp) and isinstance(t.op, ast.Not):
      return not decide(t.operand)
    if isinstance(t, ast.Compare) and len(t.ops) == 1:
      l, r = t.left, t.comparators[0]
      # position tests on index variables
      if isinstance(l, ast.Name) and l.id in case.positions:
        k = kernel_ref[0]
        li, ri = k.index(l), k.index(r)
        eq = (li.t == ri.t and li.c == ri.c)
        if isinstance(t.ops[0], ast.Eq):
          return eq
        if isinstance(t.ops[0], ast.NotEq):
          return not eq
      lv, rv = value_of(l), value_of(r)
      op = t.ops[0]
      if isinstance(op, ast.Eq):
        return lv == rv
      if isinstance(op, ast.NotEq):
        return lv != rv
      if isinstance(op, ast.Lt):
        return lv < rv
      if isinstance(op, ast.Gt):
        return lv > rv
      if isinstance(op, ast.LtE):
        return lv <= rv
      if isinstance(op, ast.GtE):
        return lv >= rv
    v = value_of(t)
    return bool(v)
  return decide


def extract(prog, fn, case, containers=('layers',), body=None, scalars=None):
  ref = [None]
  k = Kernel(prog, fn, containers, None, subst=case.subst(), scalars=scalars)
  ref[0] = k
  k.decide = make_decider(ref, case, fn)
  stmts = body if body is not None else fn.node.body
  # skip docstring, top-level raise guards, unstack / stack plumbing
  for st in stmts:
    if isinstance(st, ast.Expr):
      continue
    if isinstance(st, ast.If) and any(isinstance(x, ast.Raise)
                                      for x in st.body):
      continue
    if isinstance(st, ast.Assign) and isinstance(st.value, ast.Call):
      callee = dotted(st.value.func) or ''
      r = prog.resolve_call(fn, st.value)
      nm = getattr(r, 'name', callee.split('.')[-1])
      if nm in ('_unstack_nd', 'unstack', '_reverse_second_list_dimension',
                '_stack_nd', 'stack'):
        continue
    if isinstance(st, ast.If) and all(
        isinstance(s, ast.Assign) and isinstance(s.value, ast.Call) and
        getattr(prog.resolve_call(fn, s.value), 'name', '') ==
        '_reverse_second_list_dimension' for s in st.body) and not st.orelse:
      continue       # symmetric reversal, checked by P4
    if isinstance(st, ast.Assign) and isinstance(st.targets[0], ast.Tuple):
      continue       # main_dim, cond_dim, ... = constraint
    k.step(st)
  return k


# ---------------------------------------------------------------------------
def _cases(domains, exclude=None, positions=None, sizes=None):
  keys = sorted(domains)
  pos_keys = sorted(positions or {})
  for combo in itertools.product(*[domains[k] for k in keys]):
    vals = dict(zip(keys, combo))
    if exclude and exclude(vals):
      continue
    if pos_keys:
      for pc in itertools.product(*[positions[k] for k in pos_keys]):
        yield Case(vals, dict(zip(pos_keys, pc)), sizes)
    else:
      yield Case(vals)


PARTIALS = {
    # function: (domains, exclusion, positions, sizes, expected status,
    #            expected squared norm of the normal (leading coef 1), reason)
    '_project_partial_monotonicity': dict(
        domains={'monotonicities[dimension]': [0, 1],
                 'unimodalities[dimension]': [-1, 0, 1],
                 'is_first_part': [True, False]},
        exclude=lambda v: (v['monotonicities[dimension]'] == 1 and
                           v['unimodalities[dimension]'] != 0) or (
                               v['monotonicities[dimension]'] == 0 and
                               v['unimodalities[dimension]'] == 0),
        expect='exact', norm2=2),
    '_project_partial_edgeworth': dict(
        domains={'cond_direction': [-1, 1]}, expect='exact', norm2=4),
    '_project_partial_trapezoid': dict(
        domains={'cond_direction': [-1, 1]}, expect='exact2', norm2=2),
    '_project_partial_monotonic_dominance': dict(
        domains={'constraint_group[2]': [0, 1]}, expect='exact', norm2=3),
    '_project_partial_joint_monotonicity': dict(
        domains={'constraint_group[2]': [0, 1]}, expect='exact', norm2=3),
    '_project_partial_range_dominance': dict(
        domains={}, positions={'i': ['0', 'mid', 'last'],
                               'j': ['0', 'mid', 'last']},
        sizes={'i': 'lattice_sizes[dom_dim]', 'j': 'lattice_sizes[weak_dim]'},
        expect='repair', norm2=None),
}


def check_partials(prog, res):
  n = 0
  for name, spec in sorted(PARTIALS.items()):
    fn = prog.function('%s.%s' % (LL, name))
    res.analysed(fn)
    for case in _cases(spec['domains'], spec.get('exclude'),
                       spec.get('positions'), spec.get('sizes')):
      n += 1
      if name == '_project_partial_trapezoid':
        # two independent updates (lhs at main index 0, rhs at the last main
        # index): analyse the halves separately
        loop = [s for s in fn.node.body if isinstance(s, ast.For)][0]
        halves = [loop.body[:4], loop.body[4:]]
        for hname, stmts in zip(('lhs', 'rhs'), halves):
          k = extract(prog, fn, case, body=[
              s for s in fn.node.body if not isinstance(s, ast.For)] + stmts)
          _judge(res, fn, '%s|%s|%s' % (name, case.label(), hname),
                 k.deltas(), 'exact', spec['norm2'])
        continue
      k = extract(prog, fn, case)
      _judge(res, fn, '%s|%s' % (name, case.label() or 'generic'),
             k.deltas(), spec['expect'], spec['norm2'])
  res.floor('L1', 14)
  res.floor('L2', 25)
  return n


def _judge(res, fn, key, deltas, expect, norm2):
  status, info = classify_projection(deltas)
  want_exact = expect.startswith('exact')
  rule = 'L1' if want_exact else 'L2'
  if want_exact:
    good = status == 'exact' and (norm2 is None or _scaled_norm(
        info) == norm2)
    res.check(good, rule, key, fn.loc(),
              'exact Euclidean projection onto the half-space with normal %s '
              '(steps %s)' % (_fmt(info.get('normal')), _fmt(info.get(
                  'steps'))),
              'the group update is not the Euclidean projection onto its '
              'half-space: status %s, normal %s, steps %s%s' % (
                  status, _fmt(info.get('normal')), _fmt(info.get('steps')),
                  '; ' + info['why'] if 'why' in info else ''))
  else:
    good = status in ('exact', 'repair')
    res.check(good, rule, key, fn.loc(),
              'gated repair to the boundary (u.delta = -1, %s; normal %s)' % (
                  status, _fmt(info.get('normal'))),
              'the group update does not move a violating kernel onto the '
              'constraint boundary: status %s, normal %s, steps %s%s' % (
                  status, _fmt(info.get('normal')), _fmt(info.get('steps')),
                  '; ' + info['why'] if 'why' in info else ''))


def _scaled_norm(info):
  """number of cells in the support of the violation's normal vector (the
  `norm2` field of the table is that count: 2 for an adjacent pair, 4 for a
  2x2 square, 3 for a triangle)"""
  return len(info.get('normal') or {})


def _fmt(d):
  if not d:
    return '{}'
  return '{' + ', '.join('%s: %s' % (k, v) for k, v in sorted(d.items())) + '}'


# ---------------------------------------------------------------------------
def check_partition(prog, res):
  """L3: the constraint groups enumerated in project_by_dykstra.body together
  with the stride-2 loops of each partial projection cover every constraint
  instance exactly once, and two iterations of one group touch disjoint
  cells."""
  dyk = prog.function(LL + '.project_by_dykstra')
  body = [n for n in ast.walk(dyk.node) if isinstance(n, ast.FunctionDef)
          and n.name == 'body'][0]
  res.analysed(dyk)
  n = 0
  for loop in ast.walk(body):
    if not (isinstance(loop, ast.For) and dotted(loop.target) ==
            'constraint_group'):
      continue
    groups = _literal_groups(loop.iter)
    callee = None
    for c in ast.walk(loop):
      if isinstance(c, ast.Call):
        r = prog.resolve_call(dyk, c)
        if isinstance(r, FunctionInfo) and r.name.startswith(
            '_project_partial'):
          callee = r
    if callee is None:
      continue
    n += 1
    key = '%s|groups' % callee.name
    if groups is None:
      # range dominance: one group per (i, j) pair of full index ranges
      ok = _is_full_product(loop.iter, body)
      res.check(ok, 'L3', key, dyk.loc(loop),
                'one group per (row, column) pair over the full ranges',
                'the groups of %s no longer enumerate every (row, column) '
                'pair' % callee.name)
      continue
    # stride loops of the callee
    strides = []
    for l2 in ast.walk(callee.node):
      if isinstance(l2, ast.For) and isinstance(l2.iter, ast.Call) and \
          dotted(l2.iter.func) == 'range' and len(l2.iter.args) == 3:
        a, b, s = l2.iter.args
        comp = None
        if isinstance(a, ast.Subscript) and dotted(a.value) == \
            'constraint_group':
          comp = const_value(a.slice)
        elif dotted(a) == 'constraint_group':
          comp = 'scalar'
        strides.append((comp, const_value(s), l2))
    selectors = set()
    for t in ast.walk(callee.node):
      if isinstance(t, ast.Subscript) and dotted(t.value) == \
          'constraint_group' and isinstance(t.ctx, ast.Load):
        selectors.add(const_value(t.slice))
    arity = 1 if any(c == 'scalar' for c, _, _ in strides) else (
        max(selectors) + 1 if selectors else 0)
    want = set(itertools.product([0, 1], repeat=arity)) if arity > 1 else {
        (0,), (1,)}
    got = {g if isinstance(g, tuple) else (g,) for g in groups}
    res.check(got == want, 'L3', key, dyk.loc(loop),
              'groups %s = {0,1}^%d: every parity class once' % (
                  sorted(got), arity),
              'the constraint groups of %s are %s, expected every element of '
              '{0,1}^%d exactly once: %s' % (
                  callee.name, sorted(got), arity,
                  'some instances are never projected' if want - got else
                  'unknown groups'))
    for comp, step, l2 in strides:
      n += 1
      width = _stencil_width(callee, l2)
      res.check(step == 2 and width == 2, 'L3',
                '%s|stride:%s' % (callee.name, dotted(l2.target)),
                callee.loc(l2),
                'stride 2 = stencil width 2: iterations of one group touch '
                'disjoint cells',
                'loop over %s has stride %s but each iteration touches %s '
                'consecutive indices: iterations of one group overlap / skip '
                'instances' % (dotted(l2.target), step, width))
  res.floor('L3', 12)
  return n


def _literal_groups(it):
  if isinstance(it, ast.List):
    out = []
    for e in it.elts:
      v = const_value(e, default=None)
      if v is not None:
        out.append(v)
      elif isinstance(e, ast.Tuple):
        out.append(tuple(const_value(x) for x in e.elts))
      else:
        return None
    return out
  if isinstance(it, ast.Call) and (dotted(it.func) or '').endswith('product'):
    lists = []
    for a in it.args:
      if isinstance(a, ast.List) and all(
          isinstance(const_value(x, default=None), int) for x in a.elts):
        lists.append([const_value(x) for x in a.elts])
      else:
        return None
    return list(itertools.product(*lists))
  return None


def _is_full_product(it, body):
  if not (isinstance(it, ast.Call) and (dotted(it.func) or '').endswith(
      'product') and len(it.args) == 2):
    return False
  ok = 0
  for a in it.args:
    nm = dotted(a)
    for st in ast.walk(body):
      if isinstance(st, ast.Assign) and dotted(st.targets[0]) == nm:
        v = st.value
        if isinstance(v, ast.Call) and dotted(v.func) == 'range' and len(
            v.args) == 1 and norm_text(v.args[0]).startswith('lattice_sizes['):
          ok += 1
  return ok == 2


def _stencil_width(fn, loop):
  var = dotted(loop.target)
  offs = set()
  for sub in ast.walk(loop):
    if isinstance(sub, ast.Subscript):
      e = sub.slice
      if dotted(e) == var:
        offs.add(0)
      elif isinstance(e, ast.BinOp) and isinstance(e.op, ast.Add) and dotted(
          e.left) == var and isinstance(const_value(e.right), int):
        offs.add(const_value(e.right))
  return (max(offs) - min(offs) + 1) if offs else None


# ---------------------------------------------------------------------------
def check_hyperplane(prog, res, rule='L2'):
  """Joint unimodality: _project_onto_hyperplane is x - clip(x.h)/(h.h) * h,
  clipped with min for 'valley' (constraint x.h >= 0) and max otherwise."""
  fn = prog.function(LL + '._project_onto_hyperplane')
  res.analysed(fn)
  import copy as _copy

  def ext(c):
    return prog.ext_name(fn.module, c.func) if isinstance(c, ast.Call) else None

  def written_back(kind):
    """closed form of the list whose elements are written back into the
    layers, for direction == 'valley' (kind True) or any other direction: the
    statements of the executed arms, every local replaced by its value"""
    env = {}

    class S(ast.NodeTransformer):
      def visit_Name(self, n):
        if isinstance(n.ctx, ast.Load) and n.id in env:
          return _copy.deepcopy(env[n.id])
        return n

    def sub(e):
      return S().visit(_copy.deepcopy(e))
    out = []

    def block(stmts):
      for st in stmts:
        if isinstance(st, ast.If) and 'direction' in names_read(st.test):
          t = st.test
          lit = const_value(t.comparators[0], None) if isinstance(
              t, ast.Compare) and len(t.ops) == 1 else None
          if lit not in ('valley', 'peak') or not isinstance(
              t.ops[0], (ast.Eq, ast.NotEq)):
            raise AnalysisError('%s: direction test `%s` not understood' % (
                fn.qualname, norm_text(t)[:50]))
          holds = (lit == 'valley') == kind
          if isinstance(t.ops[0], ast.NotEq):
            holds = not holds
          block(st.body if holds else st.orelse)
        elif isinstance(st, ast.Assign) and len(st.targets) == 1 and \
            isinstance(st.targets[0], ast.Name):
          if st.targets[0].id in ('layers',):
            continue
          env[st.targets[0].id] = sub(st.value)
        elif isinstance(st, ast.For):
          for c in ast.walk(st):
            if isinstance(c, ast.Call) and getattr(prog.resolve_call(
                fn, c), 'name', '') == '_set_element':
              it = st.iter
              if isinstance(it, ast.Call) and dotted(it.func) == 'zip' and \
                  len(it.args) == 2 and dotted(it.args[1]) == 'vertices' \
                  and isinstance(st.target, ast.Tuple):
                kw = {k.arg: k.value for k in c.keywords}
                if dotted(kw.get('value')) == dotted(st.target.elts[0]) and \
                    dotted(kw.get('indices')) == dotted(st.target.elts[1]):
                  out.append(sub(it.args[0]))
    block(fn.node.body)
    if len(out) != 1:
      raise AnalysisError('%s: the write-back loop over zip(<projected>, '
                          'vertices) was not found' % fn.qualname)
    return out[0]

  def kwv(c, name, pos=None):
    for k in c.keywords:
      if k.arg == name:
        return k.value
    if pos is not None and len(c.args) > pos:
      return c.args[pos]
    return None

  def txt(e):
    return norm_text(e).replace(' ', '')

  probs = []
  clip = {}
  for kind, word in ((True, 'valley'), (False, 'other')):
    u = written_back(kind)
    if not (ext(u) == 'tf.unstack' and const_value(kwv(u, 'axis', 1)) == -1):
      raise AnalysisError('%s: the projected vertices are not '
                          'tf.unstack(<projection>, axis=-1)' % fn.qualname)
    pr = u.args[0]
    if not (isinstance(pr, ast.BinOp) and isinstance(pr.op, ast.Sub)):
      probs.append('the projection is %s, expected affected_weights - '
                   'correction' % norm_text(pr)[:50])
      continue
    x, co = pr.left, pr.right
    if not (ext(x) == 'tf.stack' and const_value(kwv(x, 'axis', 1)) == -1):
      raise AnalysisError('%s: the affected weights are not tf.stack([...], '
                          'axis=-1)' % fn.qualname)
    if not (isinstance(co, ast.BinOp) and isinstance(co.op, ast.Mult)):
      probs.append('the correction is not correction_factor * hyperplane')
      continue
    fac, h = (co.left, co.right) if ext(co.left) == 'tf.expand_dims' else (
        co.right, co.left)
    if ext(fac) != 'tf.expand_dims' or const_value(kwv(fac, 'axis', 1)) != -1:
      probs.append('the correction is not expand_dims(correction_factor, '
                   'axis=-1) * hyperplane')
      continue
    if 'hyperplane' not in names_read(h):
      probs.append('the correction is not correction_factor * hyperplane')
    cf = fac.args[0]
    if not (isinstance(cf, ast.BinOp) and isinstance(cf.op, ast.Div) and
            ext(cf.right) == 'tf.reduce_sum' and isinstance(
                cf.right.args[0], ast.BinOp) and isinstance(
                    cf.right.args[0].op, ast.Mult) and txt(
                        cf.right.args[0].left) == txt(h) and txt(
                            cf.right.args[0].right) == txt(h) and
            not cf.right.keywords and len(cf.right.args) == 1):
      probs.append('the step is not violation / (hyperplane . hyperplane): '
                   '%s' % norm_text(cf)[:60])
      continue
    vc = cf.left
    if not (isinstance(vc, ast.Call) and len(vc.args) == 2):
      raise AnalysisError('%s: clipping of the violation not found' %
                          fn.qualname)
    clip[word] = (ext(vc), const_value(vc.args[1]))
    v0 = vc.args[0]
    if not (ext(v0) == 'tf.reduce_sum' and isinstance(v0.args[0], ast.BinOp)
            and isinstance(v0.args[0].op, ast.Mult) and {
                txt(v0.args[0].left), txt(v0.args[0].right)} == {
                    txt(x), txt(h)}):
      raise AnalysisError('%s: violation is not reduce_sum(affected_weights '
                          '* hyperplane)' % fn.qualname)
    ax = const_value(kwv(v0, 'axis', 1))
    if ax != -1:
      probs.append('the violation is summed over axis %s, not over the '
                   'stacked vertex axis -1' % ax)
  if not probs:
    if clip.get('valley') != ('tf.minimum', 0.0):
      probs.append("'valley' must keep only negative violations "
                   "(tf.minimum(violation, 0.0)); found %s" % (clip.get(
                       'valley'),))
    if clip.get('other') != ('tf.maximum', 0.0):
      probs.append("'peak' must keep only positive violations "
                   "(tf.maximum(violation, 0.0)); found %s" % (clip.get(
                       'other'),))
  probs = sorted(set(probs))
  res.check(not probs, rule, '_project_onto_hyperplane|formula', fn.loc(),
            'x - clip(x.h) / (h.h) * h with min for valley, max for peak',
            '; '.join(probs))
  # the hyperplane built by _project_partial_joint_unimodality sums to zero
  ju = prog.function(LL + '._project_partial_joint_unimodality')
  res.analysed(ju)
  ok = any(isinstance(c, ast.Call) and isinstance(c.func, ast.Attribute)
           and c.func.attr == 'append' and dotted(c.func.value) == 'equation'
           and norm_text(c.args[0]).replace(' ', '') == '-sum(equation)'
           for c in ast.walk(ju.node))
  res.check(ok, rule, '_project_partial_joint_unimodality|balanced', ju.loc(),
            'the centre-ward vertex gets minus the sum of the other '
            'coefficients (constant kernels are feasible)',
            'the last hyperplane coefficient is no longer -sum(equation): a '
            'constant kernel would be reported as violating')


# ---------------------------------------------------------------------------
def _nonneg_dominating(form, want_atoms):
  """form is a non-negative combination of relu atoms, one of which (with
  coefficient >= 1) is relu(A) for an aggregate / violation A in
  want_atoms.  Returns the matched inner form or None."""
  matched = None
  for a, c in form.t.items():
    if a[0] != 'relu' or c < 0:
      return None
    inner = a[1].form
    if c >= 1 and matched is None:
      hit = want_atoms(inner)
      if hit is not None:
        matched = hit
  if form.c != 0:
    return None
  return matched


def violation_of(inner):
  """inner form of a relu: either aggmax(V) (opaque aggregate >= V) or V
  itself.  Returns V (Form over cells) or None."""
  if len(inner.t) == 1 and inner.c == 0:
    (a, c), = inner.t.items()
    if a[0] == 'aggmax' and c == 1:
      return a[1].form
  if all(a[0] == 'cell' for a in inner.t) and inner.c == 0:
    return inner
  return None


def check_local_repairs(prog, res, rule='L8'):
  """C01: every step of the strict (approximate) projections repairs its own
  violation V by moving ONE cell c by sigma * U with U >= relu(V) (U is
  relu(V), relu(max-over-units V) or the running maximum of those) and
  coeff_V(c) * sigma = -1, so V' = V - U <= 0; and the moved cell is the
  upper corner when raised / the lower corner when lowered, which cannot
  break monotonicity in the main dimension."""
  n = 0
  # ---- Edgeworth
  fn = prog.function(LL + '._approximately_project_edgeworth')
  res.analysed(fn)
  for direction in (1, -1):
    case = Case({'cond_direction': direction})
    k = extract(prog, fn, case)
    n += _judge_repair(res, rule, fn, 'edgeworth|cond_direction=%d' %
                       direction, k.deltas(), main_axis=0,
                       expect_cells=1)
  # ---- trapezoid (3 edgeworth interplay modes x lhs / rhs)
  fn = prog.function(LL + '._approximately_project_trapezoid')
  helper = prog.function(LL + '._trapezoid_violation_update')
  res.analysed(fn, helper)
  outer = [s for s in fn.node.body if isinstance(s, ast.For)][0]
  inner = [s for s in outer.body if isinstance(s, ast.For)][0]
  for any_e, same_e in ((False, False), (True, False), (True, True)):
    for half, stmts in (('lhs', inner.body[:3]), ('rhs', inner.body[3:])):
      case = Case({'any_edgeworth': any_e, 'same_edgeworth': same_e,
                   'cond_direction': 1})
      ref = [None]
      k = Kernel(prog, fn, ('layers',), None, scalars={
          'lhs_update': Form.atom(('cell', 'prior_lhs_update')),
          'rhs_update': Form.atom(('cell', 'prior_rhs_update'))})
      k.inline_helpers = True
      ref[0] = k
      k.decide = make_decider(ref, case, fn)
      k.run(stmts)
      n += _judge_repair(res, rule, fn,
                         'trapezoid|any_edgeworth=%s,same=%s|%s' % (
                             any_e, same_e, half), k.deltas(), main_axis=0,
                         expect_cells=1, prior_ok=same_e)
  # ---- monotonicity sweeps (L5)
  fn = prog.function(LL + '._approximately_project_monotonicity')
  res.analysed(fn)
  loops = [l for l in ast.walk(fn.node) if isinstance(l, ast.For)
           and dotted(l.target) == 'i']
  if len(loops) != 2:
    raise AnalysisError('_approximately_project_monotonicity: expected two '
                        'sweeps over i')
  for loop in loops:
    rng = loop.iter
    step = const_value(rng.args[2]) if len(rng.args) > 2 else 1
    case = Case({})
    ref = [None]
    k = Kernel(prog, fn, ('layers',), None)
    ref[0] = k
    k.decide = make_decider(ref, case, fn)
    k.run(loop.body)
    d = k.deltas()
    label = 'monotonicity|%s-sweep' % ('forward' if step > 0 else 'backward')
    n += _judge_repair(res, 'L5', fn, label, d, main_axis=None,
                       expect_cells=1)
    # neighbour already final: ascending sweep reads i-1, descending i+1
    offs = set()
    for sub in ast.walk(loop):
      if isinstance(sub, ast.Subscript) and dotted(sub.value) == 'layers' \
          and isinstance(sub.ctx, ast.Load):
        e = sub.slice
        if isinstance(e, ast.BinOp) and dotted(e.left) == 'i':
          c = const_value(e.right)
          offs.add(c if isinstance(e.op, ast.Add) else -c)
    res.check(len(offs) == 1 and (step > 0) == (list(offs)[0] < 0), 'L5',
              label + '|order', fn.loc(loop),
              '%s sweep reads the neighbour %+d, which is already final' % (
                  'ascending' if step > 0 else 'descending',
                  list(offs)[0] if offs else 0),
              'the %s sweep reads neighbour offsets %s: the neighbour is not '
              'final yet, so the result need not be monotone' % (
                  'ascending' if step > 0 else 'descending', sorted(offs)))
    start = const_value(rng.args[0]) if len(rng.args) > 1 else 0
    n += 1
  # half step: (weights + max_projection) / 2  -> identity when feasible
  half = None
  for st in ast.walk(fn.node):
    if isinstance(st, ast.Assign) and dotted(st.targets[0]) == \
        'half_projection':
      half = st.value
  if half is None:
    raise AnalysisError('_approximately_project_monotonicity: half step '
                        'vanished')
  k = Kernel(prog, fn, (), None, scalars={
      'weights': Form.atom(('cell', 'w')),
      'max_projection': Form.atom(('cell', 'w'))})
  v = k.val(half)
  res.check(v == Form.atom(('cell', 'w')), 'L5', 'monotonicity|half-step',
            fn.loc(half),
            'half_projection = (weights + max_projection) / 2 equals weights '
            'when max_projection == weights (feasible kernels are fixed)',
            'with max_projection == weights the half step gives %s instead '
            'of weights: a feasible kernel is moved' % v)
  k2 = Kernel(prog, fn, (), None, scalars={
      'weights': Form.atom(('cell', 'w')),
      'max_projection': Form.atom(('cell', 'p'))})
  v2 = k2.val(half)
  cw = v2.t.get(('cell', 'w'), 0)
  cp = v2.t.get(('cell', 'p'), 0)
  res.check(cw > 0 and cp > 0 and cw + cp == 1, 'L5',
            'monotonicity|half-step-convex', fn.loc(half),
            'half step is a convex combination (%s, %s)' % (cw, cp),
            'the half step %s is not a convex combination of weights and '
            'max_projection' % v2)
  seq = []
  for st in fn.node.body:
    if isinstance(st, ast.Assign) and isinstance(st.targets[0], ast.Name):
      seq.append((st.targets[0].id, dotted(st.value)))
  ret = [s for s in fn.node.body if isinstance(s, ast.Return)]
  good = (('max_projection', 'weights') in seq and
          ('min_projection', 'half_projection') in seq and ret and dotted(
              ret[-1].value) == 'min_projection')
  res.check(good, 'L5', 'monotonicity|chaining', fn.loc(),
            'max sweep starts from weights, min sweep from the half step, '
            'the min sweep result is returned',
            'the sweeps are no longer chained weights -> max -> half -> min '
            '-> return')
  res.floor(rule, 8)
  res.floor('L5', 7)
  return n


def _reversal_under(prog, fn, outer, inner, case):
  """True when, for this case, the statements of `outer` that precede the
  sweep `inner` reverse the conditional axis of `layers`."""
  ref = [None]
  k = Kernel(prog, fn, ('layers',), None)
  ref[0] = k
  dec = make_decider(ref, case, fn)
  rev = False
  for st in outer.body:
    if st is inner:
      break
    if isinstance(st, ast.If) and not st.orelse and st.body and all(
        isinstance(x, ast.Assign) and isinstance(x.value, ast.Call) and
        getattr(prog.resolve_call(fn, x.value), 'name', '') ==
        '_reverse_second_list_dimension' for x in st.body):
      if dec(st.test):
        rev = not rev
  return rev


def check_opposed_pairs(prog, res, rule='L9'):
  """C01: the trapezoid repair demands V <= 0 on the pair (cell[a][j],
  cell[a][j+1]) of adjacent vertices along the conditional dimension.  When
  the conditional feature is itself monotonic (increasing - the only direction
  a Lattice accepts) and V is oriented `higher vertex - lower vertex`, the
  earlier monotonicity step demands V >= 0 on the very same pair, so the pair
  must end at V == 0.  The sweep writes index j+1 at iteration j and never
  returns to the pair, hence the value after the step is V - U.  V - U >= 0
  for every V >= 0 iff U == relu(V) exactly; a dominating update (maximum
  over the other dimensions, running maximum) over-shoots on every vertex that
  is not the arg-max and leaves V - U < 0: monotonicity in the conditional
  feature is broken by the trapezoid step and nothing after it repairs it
  (the bound step is an increasing affine map).  Configurations enumerated:
  Edgeworth interplay mode x cond_direction x side x conditional feature
  monotone or free."""
  fn = prog.function(LL + '._approximately_project_trapezoid')
  helper = prog.function(LL + '._trapezoid_violation_update')
  res.analysed(fn, helper)
  outer = [s for s in fn.node.body if isinstance(s, ast.For)][0]
  inner = [s for s in outer.body if isinstance(s, ast.For)][0]
  # the sweep is ascending in j and writes j+1 only (pair (j, j+1) is final
  # after iteration j)
  rng = inner.iter
  asc = (isinstance(rng, ast.Call) and dotted(rng.func) == 'range' and
         (len(rng.args) < 3 or (const_value(rng.args[2], None) or 0) > 0))
  if not asc or not isinstance(inner.target, ast.Name):
    raise AnalysisError('%s: the trapezoid sweep is no longer an ascending '
                        'range() loop' % fn.loc(inner))
  jv = inner.target.id
  n = 0
  for any_e, same_e in ((False, False), (True, False), (True, True)):
    for direction in (1, -1):
      case = Case({'any_edgeworth': any_e, 'same_edgeworth': same_e,
                   'cond_direction': direction})
      rev = _reversal_under(prog, fn, outer, inner, case)
      for half, stmts in (('lhs', inner.body[:3]), ('rhs', inner.body[3:])):
        ref = [None]
        k = Kernel(prog, fn, ('layers',), None, scalars={
            'lhs_update': Form.atom(('cell', 'prior_lhs_update')),
            'rhs_update': Form.atom(('cell', 'prior_rhs_update'))})
        k.inline_helpers = True
        ref[0] = k
        k.decide = make_decider(ref, case, fn)
        k.run(stmts)
        deltas = k.deltas()
        base = 'trapezoid|any_edgeworth=%s,same=%s|cond_direction=%d|%s' % (
            any_e, same_e, direction, half)
        if len(deltas) != 1:
          raise AnalysisError('%s: %s moves %d cells; L8 reports this' % (
              fn.loc(inner), base, len(deltas)))
        (cell, d), = deltas.items()
        pos = all(c > 0 for c in d.t.values())
        neg = all(c < 0 for c in d.t.values())
        if not (pos or neg) or d.c != 0:
          raise AnalysisError('%s: %s is not a one-signed repair; L8 reports '
                              'this' % (fn.loc(inner), base))
        U = d if pos else -d
        V = _nonneg_dominating(U, violation_of)
        if V is None:
          raise AnalysisError('%s: %s: update is not >= relu(violation); L8 '
                              'reports this' % (fn.loc(inner), base))
        idx = _split_indices(cell)
        if len(idx) != 2 or idx[1].replace(' ', '') != jv + '+1':
          raise AnalysisError('%s: %s moves %s, not the vertex %s+1 of the '
                              'sweep' % (fn.loc(inner), base, cell, jv))
        partner = 'layers[%s][%s]' % (idx[0], jv)
        cells = {a[1]: c for a, c in V.t.items() if a[0] == 'cell'}
        if set(cells) != {cell, partner} or V.c != 0 or \
            cells[cell] + cells[partner] != 0 or abs(cells[cell]) != 1:
          raise AnalysisError('%s: %s: violation %s is not the difference of '
                              'the two adjacent vertices %s, %s' % (
                                  fn.loc(inner), base, V, partner, cell))
        # orientation in actual vertex order: swept index j+1 is the higher
        # vertex unless the axis was reversed
        s = cells[cell] * (-1 if rev else 1)
        exact = (len(U.t) == 1 and list(U.t.values())[0] == 1 and
                 list(U.t)[0][0] == 'relu' and list(U.t)[0][1].form == V)
        for cond_monotone in (False, True):
          key = '%s|cond_monotone=%s' % (base, cond_monotone)
          n += 1
          if not cond_monotone:
            res.ok(rule, key, fn.loc(inner.body[0]),
                   'free conditional feature: no opposed inequality on the '
                   'repaired pair')
          elif s < 0:
            res.ok(rule, key, fn.loc(inner.body[0]),
                   'repair demands lower-vertex >= ... in the same direction '
                   'as the monotonicity of the conditional feature (V = %s%s):'
                   ' the move widens the monotone gap' % (
                       V, ', axis reversed' if rev else ''))
          else:
            res.check(exact, rule, key, fn.loc(inner.body[0]),
                      'opposed pair (V = %s must end at 0): the update is '
                      'exactly relu(V), so V - U = min(V, 0) = 0' % V,
                      'the trapezoid repair (update %s) over-shoots on the '
                      'pair %s / %s whose monotonicity in the conditional '
                      'feature demands the opposite inequality: V - U < 0 for '
                      'every vertex that is not the arg-max, so with an '
                      'Edgeworth trust configured a trapezoid trust on a '
                      'monotonic conditional feature breaks that feature\'s '
                      'monotonicity (strict mode and finalize_constraints)' % (
                          U, partner, cell))
  res.floor(rule, 24)
  return n


def _judge_repair(res, rule, fn, key, deltas, main_axis, expect_cells,
                  prior_ok=False):
  if len(deltas) != expect_cells:
    res.violation(rule, key, fn.loc(),
                  'one repair step moves %d cells (%s), expected %d' % (
                      len(deltas), sorted(deltas), expect_cells))
    return 1
  (cell, d), = deltas.items()
  # sign and magnitude
  pos = all(c > 0 for c in d.t.values())
  neg = all(c < 0 for c in d.t.values())
  if not (pos or neg) or d.c != 0:
    res.violation(rule, key, fn.loc(),
                  'the update %s of %s is not a one-signed repair' % (d, cell))
    return 1
  sigma = 1 if pos else -1
  U = d if pos else -d
  V = _nonneg_dominating(U, violation_of)
  if V is None:
    res.violation(rule, key, fn.loc(),
                  'the update %s of %s is not >= relu(violation): it must be '
                  'relu(V), relu(max over units of V) or the running maximum '
                  'of those' % (d, cell))
    return 1
  coef = V.t.get(('cell', cell), 0)
  good = coef * sigma == -1
  res.check(good, rule, key, fn.loc(),
            'cell %s moves by %s(>= relu V), V = %s: V decreases by at least '
            'its violation' % (cell, '+' if sigma > 0 else '-', V),
            'cell %s has coefficient %s in the violation V = %s but is moved '
            'with sign %+d: the repair %s the violation' % (
                cell, coef, V, sigma, 'does not touch' if coef == 0
                else 'increases'))
  if main_axis is not None:
    idx = cell.split('[')[1 + main_axis].rstrip(']')
    upper = idx.endswith('+1') or 'max_main_dim' in idx
    res.check((sigma > 0) == upper, rule, key + '|corner', fn.loc(),
              '%s corner (main index %s) is %s: monotonicity in the main '
              'dimension cannot break' % ('upper' if upper else 'lower', idx,
                                          'raised' if sigma > 0 else
                                          'lowered'),
              'the repair %s the %s corner (main index %s): this can break '
              'monotonicity in the main dimension established by the '
              'previous step' % ('raises' if sigma > 0 else 'lowers',
                                 'upper' if upper else 'lower', idx))
  return 1


# ---------------------------------------------------------------------------
def check_bounds_map(prog, res, rule='L7'):
  """_approximately_project_bounds: the two-sided branch is the affine map
  sending (output_min - min_violation) to output_min and (output_max +
  max_violation) to output_max; the one-sided branches are gated shifts of
  the right sign."""
  from . import ratfun
  from .ratfun import Rat
  fn = prog.function(LL + '._approximately_project_bounds')
  res.analysed(fn)
  chain = [s for s in fn.node.body if isinstance(s, ast.If)]
  if not chain:
    raise AnalysisError('_approximately_project_bounds: dispatch vanished')
  from . import guards
  branches = {}
  for smin, smax in (('nonzero', 'none'), ('none', 'nonzero'),
                     ('nonzero', 'nonzero'), ('none', 'none')):
    env = {'output_min': guards.Val('bound', smin),
           'output_max': guards.Val('bound', smax)}
    stmts = guards.trace(prog, fn, env)
    sym_names = {'min_violation', 'max_violation', 'dims', 'axis'}
    branches[(smin != 'none', smax != 'none')] = [
        s for s in stmts if isinstance(s, (ast.AugAssign, ast.Assign))
        and not ({dotted(t) for t in (
            s.targets if isinstance(s, ast.Assign) else [s.target])} &
                 sym_names)
        and not (isinstance(s, ast.Assign) and dotted(s.value) == 'weights')]
  # the one-sided and unbounded branches are judged on the statements that
  # write the kernel; the two-sided branch keeps its helper locals
  def _writes_kernel(s):
    ts = s.targets if isinstance(s, ast.Assign) else [s.target]
    return 'final_projection' in {dotted(t) for t in ts}
  for k in list(branches):
    if k != (True, True):
      branches[k] = [s for s in branches[k] if _writes_kernel(s)]
  # one-sided: final += relu(min - aggmin(final)) ; final -= relu(aggmax - max)
  for key, (op, lhs, rhs, word) in {
      (True, False): (ast.Add, 'output_min', 'tf.reduce_min', 'min'),
      (False, True): (ast.Sub, 'tf.reduce_max', 'output_max', 'max')}.items():
    stmts = branches[key]
    good = len(stmts) == 1 and isinstance(stmts[0], ast.AugAssign) and \
        isinstance(stmts[0].op, op)
    if good:
      v = stmts[0].value
      good = (isinstance(v, ast.Call) and prog.ext_name(fn.module, v.func) in (
          'tf.maximum',) and const_value(v.args[1]) == 0 and isinstance(
              v.args[0], ast.BinOp) and isinstance(v.args[0].op, ast.Sub))
      if good:
        l, r = v.args[0].left, v.args[0].right
        def tag(e):
          if isinstance(e, ast.Call):
            return prog.ext_name(fn.module, e.func)
          return dotted(e)
        good = tag(l) == lhs and tag(r) == rhs
    res.check(good, rule, '_approximately_project_bounds|%s-only' % word,
              fn.loc(),
              'only %s: shift by relu(%s - %s) with sign %s' % (
                  word, lhs, rhs, '+' if op is ast.Add else '-'),
              'the %s-only branch is not the gated shift final %s= '
              'max(%s - %s, 0)' % (word, '+' if op is ast.Add else '-', lhs,
                                   rhs))
  res.check(not branches[(False, False)], rule,
            '_approximately_project_bounds|unbounded', fn.loc(),
            'no bounds: kernel unchanged',
            'without bounds the kernel is modified: %s' % [
                norm_text(s) for s in branches[(False, False)]])
  # two-sided: rational identity
  stmts = branches[(True, True)]

  class _NameViolations(ast.NodeTransformer):
    """max(output_min - reduce_min(kernel), 0) / max(reduce_max(kernel) -
    output_max, 0) written in place are the two violation amounts, whatever
    local name (if any) holds them"""

    def visit_Call(self, c):
      self.generic_visit(c)
      ext = prog.ext_name(fn.module, c.func) or ''
      if ext == 'tf.maximum' and len(c.args) == 2 and const_value(
          c.args[1], None) == 0 and isinstance(c.args[0], ast.BinOp) and \
          isinstance(c.args[0].op, ast.Sub):
        l, r = c.args[0].left, c.args[0].right
        def red(e, which):
          return isinstance(e, ast.Call) and (prog.ext_name(
              fn.module, e.func) or '') == which and e.args and dotted(
                  e.args[0]) == 'final_projection'
        if dotted(l) == 'output_min' and red(r, 'tf.reduce_min'):
          in_place['min_violation'] += 1
          return ast.copy_location(ast.Name(id='min_violation',
                                            ctx=ast.Load()), c)
        if red(l, 'tf.reduce_max') and dotted(r) == 'output_max':
          in_place['max_violation'] += 1
          return ast.copy_location(ast.Name(id='max_violation',
                                            ctx=ast.Load()), c)
      return c
  in_place = {'min_violation': 0, 'max_violation': 0}
  import copy as _copy
  stmts = [_NameViolations().visit(_copy.deepcopy(s)) for s in stmts]
  env = {'output_min': Rat.sym('m'), 'output_max': Rat.sym('M'),
         'min_violation': Rat.sym('a'), 'max_violation': Rat.sym('b'),
         'final_projection': Rat.sym('x')}
  x = env['final_projection']
  for s in stmts:
    if isinstance(s, ast.AugAssign):
      v = ratfun.eval_expr(s.value, env)
      if isinstance(s.op, ast.Add):
        x = x + v
      elif isinstance(s.op, ast.Sub):
        x = x - v
      elif isinstance(s.op, ast.Mult):
        x = x * v
      elif isinstance(s.op, ast.Div):
        x = x / v
      else:
        raise AnalysisError('%s: operator' % fn.loc(s))
      env['final_projection'] = x
    else:
      tgt = dotted(s.targets[0])
      try:
        v = ratfun.eval_expr(s.value, env)
      except AnalysisError:
        if tgt == 'final_projection':
          raise
        env.pop(tgt, None)       # unrelated local: an error only if used
        continue
      env[tgt] = v
      if tgt == 'final_projection':
        x = v
  lo = x.subs('x', Rat.sym('m') - Rat.sym('a'))
  hi = x.subs('x', Rat.sym('M') + Rat.sym('b'))
  res.check(lo.equals(Rat.sym('m')), rule,
            '_approximately_project_bounds|two-sided|low-end', fn.loc(),
            'the map sends output_min - min_violation to output_min',
            'two-sided rescaling maps (output_min - min_violation) to %s, '
            'not to output_min' % lo)
  res.check(hi.equals(Rat.sym('M')), rule,
            '_approximately_project_bounds|two-sided|high-end', fn.loc(),
            'the map sends output_max + max_violation to output_max',
            'two-sided rescaling maps (output_max + max_violation) to %s, '
            'not to output_max' % hi)
  # with no violation the map is the identity
  ident = x
  for nm in ('a', 'b'):
    ident = Rat(ident.n.subs(nm, ratfun.Poly()), ident.d.subs(
        nm, ratfun.Poly()))
  res.check(ident.equals(Rat.sym('x')), rule,
            '_approximately_project_bounds|two-sided|identity', fn.loc(),
            'with zero violations the map is the identity (feasible kernels '
            'are unchanged)',
            'with zero violations the two-sided map is %s, not the identity' %
            ident)
  # R2: ... and it is the identity STEP BY STEP.  Every operation applied to
  # the kernel tensor itself must be neutral when nothing is violated (add 0,
  # multiply by 1).  `x + (a - m)` ... `+ m` is algebraically the identity too,
  # but in float32 x - m is rounded to ulp(|m|) first, so a feasible kernel
  # is moved by up to ulp(|output_min|) and tight trust inequalities break.
  def at_feasible(r):
    for nm in ('a', 'b'):
      r = Rat(r.n.subs(nm, ratfun.Poly()), r.d.subs(nm, ratfun.Poly()))
    return r
  env2 = {'output_min': Rat.sym('m'), 'output_max': Rat.sym('M'),
          'min_violation': Rat.sym('a'), 'max_violation': Rat.sym('b'),
          'final_projection': Rat.sym('x')}
  one = Rat.sym('x') / Rat.sym('x')
  zero = Rat.sym('x') - Rat.sym('x')
  not_neutral = []

  def walk_kernel(e):
    """checks the operations on the path from the kernel name to the root of
    e; returns True when e contains the kernel."""
    if dotted(e) == 'final_projection':
      return True
    if isinstance(e, ast.BinOp):
      l, r = walk_kernel(e.left), walk_kernel(e.right)
      if l or r:
        other = e.right if l else e.left
        if l and r:
          not_neutral.append(norm_text(e))
          return True
        v = at_feasible(ratfun.eval_expr(other, env2))
        want = zero if isinstance(e.op, (ast.Add, ast.Sub)) else one
        if not v.equals(want):
          not_neutral.append('%s %s %s' % (
              'kernel', type(e.op).__name__, norm_text(other)[:40]))
        return True
    return False
  for s_ in stmts:
    if isinstance(s_, ast.AugAssign) and dotted(s_.target) == \
        'final_projection':
      v = at_feasible(ratfun.eval_expr(s_.value, env2))
      want = zero if isinstance(s_.op, (ast.Add, ast.Sub)) else one
      if not v.equals(want):
        not_neutral.append(norm_text(s_)[:60])
    elif isinstance(s_, ast.Assign):
      tgt = dotted(s_.targets[0])
      if tgt == 'final_projection':
        walk_kernel(s_.value)
      else:
        try:
          env2[tgt] = ratfun.eval_expr(s_.value, env2)
        except AnalysisError:
          env2.pop(tgt, None)
  res.check(not not_neutral, 'R2',
            '_approximately_project_bounds|two-sided|stepwise-identity',
            fn.loc(),
            'every operation on the kernel is neutral (add 0 / multiply by 1) '
            'when nothing is violated',
            'the two-sided map translates the kernel by a bound and back '
            '(%s): the identity holds only algebraically; in float32 the '
            'kernel is rounded to ulp(|output_min|), so with large bounds a '
            'feasible kernel is moved (bounds +-1e6 move weights of 0.03 to '
            'multiples of 0.0625) and trust inequalities break' % (
                '; '.join(not_neutral)))
  # the violations are the right gated quantities
  defs = {}
  for st in ast.walk(fn.node):
    if isinstance(st, ast.Assign) and isinstance(st.targets[0], ast.Name):
      defs[st.targets[0].id] = st.value
  for nm, (l, r) in (('max_violation', ('tf.reduce_max', 'output_max')),
                     ('min_violation', ('output_min', 'tf.reduce_min'))):
    v = defs.get(nm)
    good = False
    if v is None and in_place[nm]:
      good = True      # written in place, recognised by its structure
    if isinstance(v, ast.Call) and prog.ext_name(
        fn.module, v.func) == 'tf.maximum' and const_value(
            v.args[1]) == 0 and isinstance(v.args[0], ast.BinOp) and \
        isinstance(v.args[0].op, ast.Sub):
      def tag(e):
        if isinstance(e, ast.Call):
          return prog.ext_name(fn.module, e.func)
        return dotted(e)
      good = (tag(v.args[0].left), tag(v.args[0].right)) == (l, r)
    res.check(good, rule, '_approximately_project_bounds|%s' % nm, fn.loc(),
              '%s = max(%s - %s, 0)' % (nm, l, r),
              '%s is not max(%s - %s, 0)' % (nm, l, r))
  res.floor(rule, 8)


# ---------------------------------------------------------------------------
import re

_KEY = re.compile(r'\[([^\]]*)\]')


def _split_indices(key):
  """'L[a[b]-1][j+1]' -> ['a[b]-1', 'j+1'] (bracket aware)"""
  out, depth, cur = [], 0, ''
  for ch in key[key.index('['):]:
    if ch == '[':
      if depth > 0:
        cur += ch
      depth += 1
    elif ch == ']':
      depth -= 1
      if depth == 0:
        out.append(cur)
        cur = ''
      else:
        cur += ch
    elif depth > 0:
      cur += ch
  return out


def _canon(cells, reverse_second=False):
  """cells: {key text: coef}.  Index variables are replaced by their
  position, offsets are shifted so that the smallest one per position is 0,
  optionally the second index is reversed; coefficients are scaled so that
  the largest absolute value is 1 with a positive leading sign recorded
  separately.  Returns (sign, frozenset of (offset tuple, coef))."""
  parsed = []
  for key, coef in cells.items():
    idx = _split_indices(key)
    offs = []
    for e in idx:
      m = re.match(r'^(.*?)([+-]\d+)?$', e)
      if e.isdigit():
        offs.append(('#', int(e)))
      elif m and not e[0].isdigit():
        offs.append((m.group(1), int(m.group(2) or 0)))
      else:
        offs.append((e, 0))
    parsed.append((offs, coef))
  npos = max(len(p[0]) for p in parsed)
  mins = {}
  maxs = {}
  for offs, _ in parsed:
    for k, (v, o) in enumerate(offs):
      mins[(k, v)] = min(mins.get((k, v), o), o)
      maxs[(k, v)] = max(maxs.get((k, v), o), o)
  out = []
  for offs, coef in parsed:
    t = []
    for k, (v, o) in enumerate(offs):
      if v == 'max_main_dim' or (('lattice_sizes' in v or v.endswith(
          '_size')) and o == -1):
        t.append(('abs', 'last', 0))
      elif v == '#' or 'lattice_sizes' in v or v.endswith('_size'):
        t.append(('abs', v if v != '#' else o, o if v != '#' else 0))
      else:
        rel = o - mins[(k, v)]
        if reverse_second and k == 1:
          rel = maxs[(k, v)] - o
        t.append(('rel', k, rel))
    out.append((tuple(t), coef))
  scale = max(abs(c) for _, c in out)
  out = sorted(((t, c / scale) for t, c in out), key=repr)
  return frozenset(out)


def _slacks(prog, fn, loop, case_values):
  """{local name: slack Form} for `name = tf.reduce_min(expr)` inside loop"""
  case = Case(case_values)
  ref = [None]
  k = Kernel(prog, fn, ('weights_layers',), None, scalars={
      n: v for n, v in case_values.items()
      if isinstance(v, (int, float)) and n.isidentifier()})
  ref[0] = k
  k.decide = make_decider(ref, case, fn)
  out = {}

  def run(stmts):
    for st in stmts:
      if isinstance(st, ast.Expr):
        continue    # asserts.append(...)
      if isinstance(st, ast.For):
        run(st.body)
        continue
      if isinstance(st, ast.If):
        continue
      k.step(st)
      if isinstance(st, ast.Assign) and isinstance(st.targets[0], ast.Name):
        v = k.env.get(st.targets[0].id)
        if isinstance(v, Form) and len(v.t) == 1:
          (a, c), = v.t.items()
          if a[0] == 'aggmin' and c == 1:
            out[st.targets[0].id] = a[1].form
          elif a[0] == 'aggmin' and c < 0:
            # sign * reduce_min(E) with a negative sign is -min(E) = max(-E):
            # the direction was applied OUTSIDE the reduction
            out['!' + st.targets[0].id] = (st, c)
  run(loop.body)
  return out


def check_A4(prog, res, rule='A4'):
  """The slack each lattice assertion requires to be >= -eps is, up to a
  positive factor, minus the violation form of the matching group
  projection (same cells, same orientation, same conditional-direction
  handling)."""
  af = prog.function(LL + '.assert_constraints')
  res.analysed(af)
  loops = {}
  for st in af.node.body:
    if isinstance(st, ast.For):
      kinds = [n for n in names_read(st.iter) if n in af.all_params]
      if kinds:
        loops[kinds[0]] = st
  table = [
      # kind, slack name, case for the assertion, projection fn, projection
      # case, trapezoid half, reversed second index
      ('monotonicities', 'diff', {}, '_project_partial_monotonicity',
       {'monotonicities[dimension]': 1, 'unimodalities[dimension]': 0,
        'is_first_part': True}, None, False),
      ('edgeworth_trusts', 'diff', {'cond_direction': 1},
       '_project_partial_edgeworth', {'cond_direction': 1}, None, False),
      ('edgeworth_trusts', 'diff', {'cond_direction': -1},
       '_project_partial_edgeworth', {'cond_direction': -1}, None, True),
      ('trapezoid_trusts', 'lhs_diff', {'cond_direction': 1},
       '_project_partial_trapezoid', {'cond_direction': 1}, 'lhs', False),
      ('trapezoid_trusts', 'rhs_diff', {'cond_direction': 1},
       '_project_partial_trapezoid', {'cond_direction': 1}, 'rhs', False),
      ('trapezoid_trusts', 'lhs_diff', {'cond_direction': -1},
       '_project_partial_trapezoid', {'cond_direction': -1}, 'lhs', True),
      ('trapezoid_trusts', 'rhs_diff', {'cond_direction': -1},
       '_project_partial_trapezoid', {'cond_direction': -1}, 'rhs', True),
      ('monotonic_dominances', 'dominant_diff', {},
       '_project_partial_monotonic_dominance', {'constraint_group[2]': 1},
       None, False),
      ('monotonic_dominances', 'weak_diff', {},
       '_project_partial_monotonic_dominance', {'constraint_group[2]': 0},
       None, False),
      ('joint_monotonicities', 'lower_triangle_diff', {},
       '_project_partial_joint_monotonicity', {'constraint_group[2]': 1},
       None, False),
      ('joint_monotonicities', 'upper_triangle_diff', {},
       '_project_partial_joint_monotonicity', {'constraint_group[2]': 0},
       None, False),
  ]
  n = 0
  for kind, sname, acase, pname, pcase, half, rev in table:
    if kind not in loops:
      raise AnalysisError('assert_constraints: loop over %s vanished' % kind)
    sls = _slacks(prog, af, loops[kind], acase)
    sl = sls.get(sname)
    if sl is None and '!' + sname in sls:
      st_, c_ = sls['!' + sname]
      res.violation(rule, 'assert:%s.%s%s|direction-outside-reduction' % (
          kind, sname, acase or ''), af.loc(st_),
                    'for %s the slack `%s` is %s * reduce_min(...): the '
                    'direction multiplies the RESULT of the reduction, so the '
                    'assertion tests the largest instead of the smallest '
                    'slack and passes unless every cell violates' % (
                        acase, sname, c_))
      continue
    if sl is None:
      raise AnalysisError('assert_constraints: slack %s of %s not found' % (
          sname, kind))
    pf = prog.function('%s.%s' % (LL, pname))
    case = Case(pcase)
    if half is not None:
      loop = [s for s in pf.node.body if isinstance(s, ast.For)][0]
      stmts = loop.body[:4] if half == 'lhs' else loop.body[4:]
      k = extract(prog, pf, case, body=[
          s for s in pf.node.body if not isinstance(s, ast.For)] + stmts)
    else:
      k = extract(prog, pf, case)
    status, info = classify_projection(k.deltas())
    key = 'assert:%s.%s%s <-> %s%s' % (
        kind, sname, '[dir=%s]' % acase['cond_direction']
        if acase else '', pname, '|' + half if half else '')
    if status not in ('exact', 'repair'):
      n += 1
      res.violation(rule, key, pf.loc(),
                    'the group update of %s is not a half-space step (%s): it '
                    'cannot agree with the asserted constraint' % (
                        pname, info.get('why', status)))
      continue
    U = info['normal']
    S = {a[1]: c for a, c in sl.t.items() if a[0] == 'cell'}
    minusS = {kk: -v for kk, v in S.items()}
    cu = _canon(U, reverse_second=rev)
    cs = _canon(minusS)
    n += 1
    res.check(cu == cs, rule, key, af.loc(loops[kind]),
              'asserted slack = -(projected violation): same cells, same '
              'orientation',
              'the assertion requires %s >= -eps but the projection removes '
              'the violation %s: they do not describe the same half-space '
              '(canonical forms %s vs %s)' % (
                  sl, _fmt(U), sorted(cs, key=repr), sorted(cu, key=repr)))
  res.floor(rule, 11)
  return n


def check_A4_strict(prog, res, rule='A4'):
  """The violation forms repaired by the strict (approximate) projections
  are minus the slacks asserted by assert_constraints."""
  af = prog.function(LL + '.assert_constraints')
  loops = {}
  for st in af.node.body:
    if isinstance(st, ast.For):
      kinds = [n for n in names_read(st.iter) if n in af.all_params]
      if kinds:
        loops[kinds[0]] = st

  def violation(deltas):
    (cell, d), = deltas.items()
    U = d if all(c > 0 for c in d.t.values()) else -d
    V = _nonneg_dominating(U, violation_of)
    if V is None:
      raise AnalysisError('strict repair form not extractable')
    return {a[1]: c for a, c in V.t.items() if a[0] == 'cell'}

  items = []
  fn = prog.function(LL + '._approximately_project_edgeworth')
  for direction in (1, -1):
    k = extract(prog, fn, Case({'cond_direction': direction}))
    sl = _slacks(prog, af, loops['edgeworth_trusts'],
                 {'cond_direction': direction})['diff']
    items.append(('edgeworth[dir=%d]' % direction, violation(k.deltas()), sl,
                  False))
  fn = prog.function(LL + '._approximately_project_trapezoid')
  outer = [s for s in fn.node.body if isinstance(s, ast.For)][0]
  inner = [s for s in outer.body if isinstance(s, ast.For)][0]
  for half, stmts, sname in (('lhs', inner.body[:3], 'lhs_diff'),
                             ('rhs', inner.body[3:], 'rhs_diff')):
    case = Case({'any_edgeworth': False, 'same_edgeworth': False,
                 'cond_direction': 1})
    ref = [None]
    k = Kernel(prog, fn, ('layers',), None, scalars={
        'lhs_update': Form.atom(('cell', 'prior')),
        'rhs_update': Form.atom(('cell', 'prior'))})
    k.inline_helpers = True
    ref[0] = k
    k.decide = make_decider(ref, case, fn)
    k.run(stmts)
    sl = _slacks(prog, af, loops['trapezoid_trusts'],
                 {'cond_direction': 1})[sname]
    items.append(('trapezoid|%s' % half, violation(k.deltas()), sl, False))
  fn = prog.function(LL + '._approximately_project_monotonicity')
  loop = [l for l in ast.walk(fn.node) if isinstance(l, ast.For)
          and dotted(l.target) == 'i'][0]
  ref = [None]
  k = Kernel(prog, fn, ('layers',), None)
  ref[0] = k
  k.decide = make_decider(ref, Case({}), fn)
  k.run(loop.body)
  sl = _slacks(prog, af, loops['monotonicities'], {})['diff']
  items.append(('monotonicity', violation(k.deltas()), sl, False))
  for label, V, sl, rev in items:
    S = {a[1]: c for a, c in sl.t.items() if a[0] == 'cell'}
    cu = _canon(V, reverse_second=rev)
    cs = _canon({kk: -v for kk, v in S.items()})
    res.check(cu == cs, rule, 'strict:%s' % label, af.loc(),
              'strict repair removes exactly the violation the assertion '
              'tests',
              'strict %s repairs the violation %s but assert_constraints '
              'requires %s >= -eps: different half-spaces' % (label, _fmt(V),
                                                              sl))


# ---------------------------------------------------------------------------
def check_pwl_bounds(prog, res, rule='L2'):
  """pwl_calibration_lib._project_bounds_considering_monotonicity
  (increasing case): rational identities in the symbolic height count n.
  For every (min constraint) x (max constraint) x (violated / feasible) x
  (bias clipped to min / free) case the executed statements are evaluated
  over rational functions of b (bias), s (sum of heights), n, m, M:
    CLAMPED max, or BOUND max when violated:  bias' + s + n*delta == M
    BOUND max when feasible:                  heights unchanged
    CLAMPED min:                              bias' == m
    NONE min with violated/clamped max:       bias and every height move by
                                              the same amount (the Euclidean
                                              projection onto bias+sum = M)."""
  from . import ratfun
  from .ratfun import Rat
  fn = prog.function('pwl_calibration_lib._project_bounds_considering_'
                     'monotonicity')
  res.analysed(fn)
  body = fn.node.body
  # statements after the mirror-recursion block
  main = [s for s in body if isinstance(s, ast.If) and any(
      'output_max_constraints' in names_read(s.test) for _ in [0])]
  top = [s for s in body if isinstance(s, ast.If)
         and 'output_max_constraints' in names_read(s.test)
         and 'monotonicity' not in names_read(s.test)]
  if not top:
    raise AnalysisError('%s: bounds dispatch not found' % fn.qualname)
  # everything after the mirror-recursion block is evaluated (the dispatch
  # may be one nested block or a sequence of guarded steps with an early
  # return)
  first = min(body.index(t) for t in top)
  if any(isinstance(s, ast.If) and 'monotonicity' in names_read(s.test)
         for s in body[first:]):
    raise AnalysisError('%s: bounds dispatch is interleaved with the '
                        'monotonicity dispatch' % fn.qualname)
  main_stmts = body[first:]

  class _Returned(Exception):
    pass
  n_cases = 0
  for cmin in ('NONE', 'BOUND', 'CLAMPED'):
    for cmax in ('NONE', 'BOUND', 'CLAMPED'):
      for violated in (True, False):
        for bias_clipped in (False, True):
          if cmax == 'NONE' and not violated:
            continue
          if cmin != 'BOUND' and bias_clipped:
            continue
          if cmax == 'CLAMPED' and not violated:
            continue   # clamped max moves in both directions: one case
          env = {'bias': Rat.sym('b'), 'sum_heights': Rat.sym('s'),
                 'num_heights': Rat.sym('n'), 'output_min': Rat.sym('m'),
                 'output_max': Rat.sym('M')}
          state = {'dh': Rat.const(0), 'clipped_min': False}

          def enum_test(t):
            """evaluates `x_constraints ==/!= bct.KIND` tests"""
            if isinstance(t, ast.Compare) and len(t.ops) == 1:
              l = dotted(t.left)
              r = dotted(t.comparators[0])
              if l in ('output_min_constraints', 'output_max_constraints') \
                  and r:
                cur = cmin if 'min' in l else cmax
                eq = r.split('.')[-1] == cur
                return eq if isinstance(t.ops[0], ast.Eq) else (not eq)
            raise AnalysisError('%s: test %s' % (fn.loc(t), norm_text(t)))

          def ev(e):
            if isinstance(e, ast.Call):
              ext = prog.ext_name(fn.module, e.func) or dotted(e.func)
              if ext == 'tf.constant':
                return ev(e.args[0])
              if ext in ('tf.minimum', 'tf.math.minimum') and const_value(
                  e.args[1]) == 0.0:
                return ev(e.args[0]) if violated else Rat.const(0)
              if ext in ('tf.maximum', 'tf.math.maximum'):
                a, b2 = e.args
                if dotted(b2) == 'output_min':
                  state['clipped_min'] = True
                  return Rat.sym('m') if bias_clipped else ev(a)
              if ext == 'tf.reduce_sum' and dotted(e.args[0]) == 'heights':
                return Rat.sym('s')
              if ext == 'float':
                return Rat.sym('n')
              raise AnalysisError('%s: call %s' % (fn.loc(e),
                                                   norm_text(e)[:40]))
            if isinstance(e, ast.BinOp):
              l, r = ev(e.left), ev(e.right)
              if isinstance(e.op, ast.Add):
                return l + r
              if isinstance(e.op, ast.Sub):
                return l - r
              if isinstance(e.op, ast.Mult):
                return l * r
              if isinstance(e.op, ast.Div):
                return l / r
            if isinstance(e, ast.Constant):
              return Rat.const(Fraction(e.value))
            d = dotted(e)
            if d in env:
              return env[d]
            raise AnalysisError('%s: %s' % (fn.loc(e), norm_text(e)[:40]))

          def run(stmts):
            for st in stmts:
              if isinstance(st, ast.If):
                run(st.body if enum_test(st.test) else st.orelse)
              elif isinstance(st, ast.Assign):
                nm = dotted(st.targets[0])
                if nm == 'bct':
                  continue
                env[nm] = ev(st.value)
              elif isinstance(st, ast.AugAssign):
                nm = dotted(st.target)
                v = ev(st.value)
                if nm == 'heights':
                  state['dh'] = state['dh'] + v
                elif isinstance(st.op, ast.Add):
                  env[nm] = env[nm] + v
                else:
                  raise AnalysisError('%s: augmented op' % fn.loc(st))
              elif isinstance(st, ast.Expr):
                continue
              elif isinstance(st, ast.Return):
                if norm_text(st.value).replace(' ', '') not in (
                    '(bias,heights)', 'bias,heights'):
                  raise AnalysisError('%s: returns %s' % (
                      fn.loc(st), norm_text(st.value)[:40]))
                raise _Returned()
              else:
                raise AnalysisError('%s: statement' % fn.loc(st))
          try:
            run(main_stmts)
          except _Returned:
            pass
          n_cases += 1
          b1 = env['bias']
          dh = state['dh']
          last = b1 + Rat.sym('s') + Rat.sym('n') * dh
          key = 'pwl-bounds|min=%s,max=%s,%s%s' % (
              cmin, cmax, 'violated' if violated else 'feasible',
              ',bias-clipped' if bias_clipped else '')
          probs = []
          if cmax != 'NONE' and (cmax == 'CLAMPED' or violated):
            if not last.equals(Rat.sym('M')):
              probs.append('last keypoint output becomes %s, not output_max' %
                           last)
          if cmax == 'BOUND' and not violated and not dh.equals(Rat.const(0)):
            probs.append('a feasible kernel has its heights moved by %s' % dh)
          if cmax == 'NONE' and not dh.equals(Rat.const(0)):
            probs.append('heights move by %s although there is no upper '
                         'bound' % dh)
          if cmin == 'CLAMPED' and not b1.equals(Rat.sym('m')):
            probs.append('clamped minimum: bias becomes %s, not output_min' %
                         b1)
          if cmin == 'NONE' and cmax != 'NONE' and (
              cmax == 'CLAMPED' or violated):
            db = b1 - Rat.sym('b')
            if not db.equals(dh):
              probs.append('bias moves by %s but each height by %s: not the '
                           'equal-share Euclidean projection' % (db, dh))
          if cmin == 'BOUND' and bias_clipped and not b1.equals(Rat.sym('m')):
            probs.append('bias below output_min is not raised to it')
          if cmin == 'NONE' and cmax == 'NONE':
            if not b1.equals(Rat.sym('b')):
              probs.append('unbounded: bias changes')
          res.check(not probs, rule, key, fn.loc(top),
                    'bias\' = %s, heights += %s' % (b1, dh), '; '.join(probs))
  return n_cases
