"""L1 / L2 / L3 / L5 / L8 / A4 - rules over the affine forms extracted by E2."""
import ast
import itertools
from fractions import Fraction

from ..model import (AnalysisError, FunctionInfo, dotted, norm_text,
                     const_value, names_read)
from . import affine
from .affine import Kernel, Index, Form, classify_projection

LL = 'lattice_lib'


class Case(object):
  """One discrete configuration: expression text -> concrete value; index
  symbol -> position class."""

  def __init__(self, values, positions=None, sizes=None):
    self.values = values            # normalised text -> python value
    self.positions = positions or {}   # index var -> '0' | 'mid' | 'last'
    self.sizes = sizes or {}        # index var -> size symbol text

  def label(self):
    parts = ['%s=%s' % (k, v) for k, v in sorted(self.values.items())]
    parts += ['%s@%s' % (k, v) for k, v in sorted(self.positions.items())]
    return ','.join(parts).replace(' ', '')

  def subst(self):
    out = {}
    for var, pos in self.positions.items():
      if pos == '0':
        out[var] = Index({}, 0)
      elif pos == 'last':
        out[var] = Index({self.sizes[var]: 1}, -1)
    return out


def make_decider(kernel_ref, case, fn):
  def value_of(e):
    t = norm_text(e).replace(' ', '')
    if t in case.values:
      return case.values[t]
    c = const_value(e, default=None)
    if c is not None:
      return c
    if isinstance(e, ast.Name) and e.id in kernel_ref[0].env:
      v = kernel_ref[0].env[e.id]
      if isinstance(v, tuple) and v[0] == 'opaque':
        return value_of(v[1])
      if isinstance(v, bool):
        return v
    if isinstance(e, ast.Compare) and len(e.ops) == 1:
      return decide(e)
    if isinstance(e, ast.BoolOp) or (isinstance(e, ast.UnaryOp) and
                                     isinstance(e.op, ast.Not)):
      return decide(e)
    raise AnalysisError('%s: configuration value %s is not part of the '
                        'enumerated case' % (fn.loc(e), t))

  def decide(t):
    if isinstance(t, ast.BoolOp):
      vals = [decide(v) for v in t.values]
      return all(vals) if isinstance(t.op, ast.And) else any(vals)
    if isinstance(t, ast.UnaryOp) and isinstance(t.op, ast.Not):
      return not decide(t.operand)
    if isinstance(t, ast.Compare) and len(t.ops) == 1:
      l, r = t.left, t.comparators[0]
      # position tests on index variables
      if isinstance(l, ast.Name) and l.id in case.positions:
        k = kernel_ref[0]
        li, ri = k.index(l), k.index(r)
        eq = (li.t == ri.t and li.c == ri.c)
        if isinstance(t.ops[0], ast.Eq):
          return eq
        if isinstance(t.ops[0], ast.NotEq):
          return not eq
      lv, rv = value_of(l), value_of(r)
      op = t.ops[0]
      if isinstance(op, ast.Eq):
        return lv == rv
      if isinstance(op, ast.NotEq):
        return lv != rv
      if isinstance(op, ast.Lt):
        return lv < rv
      if isinstance(op, ast.Gt):
        return lv > rv
      if isinstance(op, ast.LtE):
        return lv <= rv
      if isinstance(op, ast.GtE):
        return lv >= rv
    v = value_of(t)
    return bool(v)
  return decide


def extract(prog, fn, case, containers=('layers',), body=None, scalars=None):
  ref = [None]
  k = Kernel(prog, fn, containers, None, subst=case.subst(), scalars=scalars)
  ref[0] = k
  k.decide = make_decider(ref, case, fn)
  stmts = body if body is not None else fn.node.body
  # skip docstring, top-level raise guards, unstack / stack plumbing
  for st in stmts:
    if isinstance(st, ast.Expr):
      continue
    if isinstance(st, ast.If) and any(isinstance(x, ast.Raise)
                                      for x in st.body):
      continue
    if isinstance(st, ast.Assign) and isinstance(st.value, ast.Call):
      callee = dotted(st.value.func) or ''
      r = prog.resolve_call(fn, st.value)
      nm = getattr(r, 'name', callee.split('.')[-1])
      if nm in ('_unstack_nd', 'unstack', '_reverse_second_list_dimension',
                '_stack_nd', 'stack'):
        continue
    if isinstance(st, ast.If) and all(
        isinstance(s, ast.Assign) and isinstance(s.value, ast.Call) and
        getattr(prog.resolve_call(fn, s.value), 'name', '') ==
        '_reverse_second_list_dimension' for s in st.body) and not st.orelse:
      continue       # symmetric reversal, checked by P4
    if isinstance(st, ast.Assign) and isinstance(st.targets[0], ast.Tuple):
      continue       # main_dim, cond_dim, ... = constraint
    k.step(st)
  return k


# ---------------------------------------------------------------------------
def _cases(domains, exclude=None, positions=None, sizes=None):
  keys = sorted(domains)
  pos_keys = sorted(positions or {})
  for combo in itertools.product(*[domains[k] for k in keys]):
    vals = dict(zip(keys, combo))
    if exclude and exclude(vals):
      continue
    if pos_keys:
      for pc in itertools.product(*[positions[k] for k in pos_keys]):
        yield Case(vals, dict(zip(pos_keys, pc)), sizes)
    else:
      yield Case(vals)


PARTIALS = {
    # function: (domains, exclusion, positions, sizes, expected status,
    #            expected squared norm of the normal (leading coef 1), reason)
    '_project_partial_monotonicity': dict(
        domains={'monotonicities[dimension]': [0, 1],
                 'unimodalities[dimension]': [-1, 0, 1],
                 'is_first_part': [True, False]},
        exclude=lambda v: (v['monotonicities[dimension]'] == 1 and
                           v['unimodalities[dimension]'] != 0) or (
                               v['monotonicities[dimension]'] == 0 and
                               v['unimodalities[dimension]'] == 0),
        expect='exact', norm2=2),
    '_project_partial_edgeworth': dict(
        domains={'cond_direction': [-1, 1]}, expect='exact', norm2=4),
    '_project_partial_trapezoid': dict(
        domains={'cond_direction': [-1, 1]}, expect='exact2', norm2=2),
    '_project_partial_monotonic_dominance': dict(
        domains={'constraint_group[2]': [0, 1]}, expect='exact', norm2=3),
    '_project_partial_joint_monotonicity': dict(
        domains={'constraint_group[2]': [0, 1]}, expect='exact', norm2=3),
    '_project_partial_range_dominance': dict(
        domains={}, positions={'i': ['0', 'mid', 'last'],
                               'j': ['0', 'mid', 'last']},
        sizes={'i': 'lattice_sizes[dom_dim]', 'j': 'lattice_sizes[weak_dim]'},
        expect='repair', norm2=None),
}


def check_partials(prog, res):
  n = 0
  for name, spec in sorted(PARTIALS.items()):
    fn = prog.function('%s.%s' % (LL, name))
    res.analysed(fn)
    for case in _cases(spec['domains'], spec.get('exclude'),
                       spec.get('positions'), spec.get('sizes')):
      n += 1
      if name == '_project_partial_trapezoid':
        # two independent updates (lhs at main index 0, rhs at the last main
        # index): analyse the halves separately
        loop = [s for s in fn.node.body if isinstance(s, ast.For)][0]
        halves = [loop.body[:4], loop.body[4:]]
        for hname, stmts in zip(('lhs', 'rhs'), halves):
          k = extract(prog, fn, case, body=[
              s for s in fn.node.body if not isinstance(s, ast.For)] + stmts)
          _judge(res, fn, '%s|%s|%s' % (name, case.label(), hname),
                 k.deltas(), 'exact', spec['norm2'])
        continue
      k = extract(prog, fn, case)
      _judge(res, fn, '%s|%s' % (name, case.label() or 'generic'),
             k.deltas(), spec['expect'], spec['norm2'])
  res.floor('L1', 14)
  res.floor('L2', 9)
  return n


def _judge(res, fn, key, deltas, expect, norm2):
  status, info = classify_projection(deltas)
  want_exact = expect.startswith('exact')
  rule = 'L1' if want_exact else 'L2'
  if want_exact:
    good = status == 'exact' and (norm2 is None or _scaled_norm(
        info) == norm2)
    res.check(good, rule, key, fn.loc(),
              'exact Euclidean projection onto the half-space with normal %s '
              '(steps %s)' % (_fmt(info.get('normal')), _fmt(info.get(
                  'steps'))),
              'the group update is not the Euclidean projection onto its '
              'half-space: status %s, normal %s, steps %s%s' % (
                  status, _fmt(info.get('normal')), _fmt(info.get('steps')),
                  '; ' + info['why'] if 'why' in info else ''))
  else:
    good = status in ('exact', 'repair')
    res.check(good, rule, key, fn.loc(),
              'gated repair to the boundary (u.delta = -1, %s; normal %s)' % (
                  status, _fmt(info.get('normal'))),
              'the group update does not move a violating kernel onto the '
              'constraint boundary: status %s, normal %s, steps %s%s' % (
                  status, _fmt(info.get('normal')), _fmt(info.get('steps')),
                  '; ' + info['why'] if 'why' in info else ''))


def _scaled_norm(info):
  """number of cells in the support of the violation's normal vector (the
  `norm2` field of the table is that count: 2 for an adjacent pair, 4 for a
  2x2 square, 3 for a triangle)"""
  return len(info.get('normal') or {})


def _fmt(d):
  if not d:
    return '{}'
  return '{' + ', '.join('%s: %s' % (k, v) for k, v in sorted(d.items())) + '}'


# ---------------------------------------------------------------------------
def check_partition(prog, res):
  """L3: the constraint groups enumerated in project_by_dykstra.body together
  with the stride-2 loops of each partial projection cover every constraint
  instance exactly once, and two iterations of one group touch disjoint
  cells."""
  dyk = prog.function(LL + '.project_by_dykstra')
  body = [n for n in ast.walk(dyk.node) if isinstance(n, ast.FunctionDef)
          and n.name == 'body'][0]
  res.analysed(dyk)
  n = 0
  for loop in ast.walk(body):
    if not (isinstance(loop, ast.For) and dotted(loop.target) ==
            'constraint_group'):
      continue
    groups = _literal_groups(loop.iter)
    callee = None
    for c in ast.walk(loop):
      if isinstance(c, ast.Call):
        r = prog.resolve_call(dyk, c)
        if isinstance(r, FunctionInfo) and r.name.startswith(
            '_project_partial'):
          callee = r
    if callee is None:
      continue
    n += 1
    key = '%s|groups' % callee.name
    if groups is None:
      # range dominance: one group per (i, j) pair of full index ranges
      ok = _is_full_product(loop.iter, body)
      res.check(ok, 'L3', key, dyk.loc(loop),
                'one group per (row, column) pair over the full ranges',
                'the groups of %s no longer enumerate every (row, column) '
                'pair' % callee.name)
      continue
    # stride loops of the callee
    strides = []
    for l2 in ast.walk(callee.node):
      if isinstance(l2, ast.For) and isinstance(l2.iter, ast.Call) and \
          dotted(l2.iter.func) == 'range' and len(l2.iter.args) == 3:
        a, b, s = l2.iter.args
        comp = None
        if isinstance(a, ast.Subscript) and dotted(a.value) == \
            'constraint_group':
          comp = const_value(a.slice)
        elif dotted(a) == 'constraint_group':
          comp = 'scalar'
        strides.append((comp, const_value(s), l2))
    selectors = set()
    for t in ast.walk(callee.node):
      if isinstance(t, ast.Subscript) and dotted(t.value) == \
          'constraint_group' and isinstance(t.ctx, ast.Load):
        selectors.add(const_value(t.slice))
    arity = 1 if any(c == 'scalar' for c, _, _ in strides) else (
        max(selectors) + 1 if selectors else 0)
    want = set(itertools.product([0, 1], repeat=arity)) if arity > 1 else {
        (0,), (1,)}
    got = {g if isinstance(g, tuple) else (g,) for g in groups}
    res.check(got == want, 'L3', key, dyk.loc(loop),
              'groups %s = {0,1}^%d: every parity class once' % (
                  sorted(got), arity),
              'the constraint groups of %s are %s, expected every element of '
              '{0,1}^%d exactly once: %s' % (
                  callee.name, sorted(got), arity,
                  'some instances are never projected' if want - got else
                  'unknown groups'))
    for comp, step, l2 in strides:
      n += 1
      width = _stencil_width(callee, l2)
      res.check(step == 2 and width == 2, 'L3',
                '%s|stride:%s' % (callee.name, dotted(l2.target)),
                callee.loc(l2),
                'stride 2 = stencil width 2: iterations of one group touch '
                'disjoint cells',
                'loop over %s has stride %s but each iteration touches %s '
                'consecutive indices: iterations of one group overlap / skip '
                'instances' % (dotted(l2.target), step, width))
  res.floor('L3', 12)
  return n


def _literal_groups(it):
  if isinstance(it, ast.List):
    out = []
    for e in it.elts:
      v = const_value(e, default=None)
      if v is not None:
        out.append(v)
      elif isinstance(e, ast.Tuple):
        out.append(tuple(const_value(x) for x in e.elts))
      else:
        return None
    return out
  if isinstance(it, ast.Call) and (dotted(it.func) or '').endswith('product'):
    lists = []
    for a in it.args:
      if isinstance(a, ast.List) and all(
          isinstance(const_value(x, default=None), int) for x in a.elts):
        lists.append([const_value(x) for x in a.elts])
      else:
        return None
    return list(itertools.product(*lists))
  return None


def _is_full_product(it, body):
  if not (isinstance(it, ast.Call) and (dotted(it.func) or '').endswith(
      'product') and len(it.args) == 2):
    return False
  ok = 0
  for a in it.args:
    nm = dotted(a)
    for st in ast.walk(body):
      if isinstance(st, ast.Assign) and dotted(st.targets[0]) == nm:
        v = st.value
        if isinstance(v, ast.Call) and dotted(v.func) == 'range' and len(
            v.args) == 1 and norm_text(v.args[0]).startswith('lattice_sizes['):
          ok += 1
  return ok == 2


def _stencil_width(fn, loop):
  var = dotted(loop.target)
  offs = set()
  for sub in ast.walk(loop):
    if isinstance(sub, ast.Subscript):
      e = sub.slice
      if dotted(e) == var:
        offs.add(0)
      elif isinstance(e, ast.BinOp) and isinstance(e.op, ast.Add) and dotted(
          e.left) == var and isinstance(const_value(e.right), int):
        offs.add(const_value(e.right))
  return (max(offs) - min(offs) + 1) if offs else None


# ---------------------------------------------------------------------------
def check_hyperplane(prog, res, rule='L2'):
  """Joint unimodality: _project_onto_hyperplane is x - clip(x.h)/(h.h) * h,
  clipped with min for 'valley' (constraint x.h >= 0) and max otherwise."""
  fn = prog.function(LL + '._project_onto_hyperplane')
  res.analysed(fn)
  defs = {}
  for st in ast.walk(fn.node):
    if isinstance(st, ast.Assign) and isinstance(st.targets[0], ast.Name):
      defs.setdefault(st.targets[0].id, []).append(st)

  def ext(c):
    return prog.ext_name(fn.module, c.func) if isinstance(c, ast.Call) else None

  def need(name):
    if name not in defs:
      raise AnalysisError('%s: definition of %s vanished' % (fn.qualname,
                                                             name))
    return defs[name]

  probs = []
  v0 = need('violation')[0].value
  if not (ext(v0) == 'tf.reduce_sum' and isinstance(v0.args[0], ast.BinOp)
          and isinstance(v0.args[0].op, ast.Mult) and {
              dotted(v0.args[0].left), dotted(v0.args[0].right)} == {
                  'affected_weights', 'hyperplane'}):
    raise AnalysisError('%s: violation is not reduce_sum(affected_weights * '
                        'hyperplane)' % fn.qualname)
  ax = const_value({k.arg: k.value for k in v0.keywords}.get('axis'))
  if ax != -1:
    probs.append('the violation is summed over axis %s, not over the stacked '
                 'vertex axis -1' % ax)
  clip = None
  for st in ast.walk(fn.node):
    if isinstance(st, ast.If) and 'direction' in names_read(st.test):
      lit = None
      if isinstance(st.test, ast.Compare):
        lit = const_value(st.test.comparators[0])
      ops = {}
      for branch, nm in ((st.body, lit), (st.orelse, 'other')):
        for a in branch:
          if isinstance(a, ast.Assign) and isinstance(a.value, ast.Call):
            ops[nm] = (ext(a.value), const_value(a.value.args[1]))
      clip = ops
  if not clip:
    raise AnalysisError('%s: clipping of the violation not found' %
                        fn.qualname)
  if clip.get('valley') != ('tf.minimum', 0.0):
    probs.append("'valley' must keep only negative violations "
                 "(tf.minimum(violation, 0.0)); found %s" % (clip.get(
                     'valley'),))
  if clip.get('other') != ('tf.maximum', 0.0):
    probs.append("'peak' must keep only positive violations "
                 "(tf.maximum(violation, 0.0)); found %s" % (clip.get(
                     'other'),))
  cf = need('correction_factor')[0].value
  if not (isinstance(cf, ast.BinOp) and isinstance(cf.op, ast.Div)
          and dotted(cf.left) == 'violation' and ext(cf.right) ==
          'tf.reduce_sum' and isinstance(cf.right.args[0], ast.BinOp)
          and isinstance(cf.right.args[0].op, ast.Mult)
          and dotted(cf.right.args[0].left) == 'hyperplane'
          and dotted(cf.right.args[0].right) == 'hyperplane'):
    probs.append('the step is not violation / (hyperplane . hyperplane): %s' %
                 norm_text(cf)[:60])
  co = need('correction')[0].value
  if not (isinstance(co, ast.BinOp) and isinstance(co.op, ast.Mult)
          and 'correction_factor' in names_read(co)
          and 'hyperplane' in names_read(co)):
    probs.append('the correction is not correction_factor * hyperplane')
  pr = need('projection')[0].value
  if not (isinstance(pr, ast.BinOp) and isinstance(pr.op, ast.Sub)
          and dotted(pr.left) == 'affected_weights'
          and dotted(pr.right) == 'correction'):
    probs.append('the projection is %s, expected affected_weights - '
                 'correction' % norm_text(pr)[:50])
  res.check(not probs, rule, '_project_onto_hyperplane|formula', fn.loc(),
            'x - clip(x.h) / (h.h) * h with min for valley, max for peak',
            '; '.join(probs))
  # the hyperplane built by _project_partial_joint_unimodality sums to zero
  ju = prog.function(LL + '._project_partial_joint_unimodality')
  res.analysed(ju)
  ok = any(isinstance(c, ast.Call) and isinstance(c.func, ast.Attribute)
           and c.func.attr == 'append' and dotted(c.func.value) == 'equation'
           and norm_text(c.args[0]).replace(' ', '') == '-sum(equation)'
           for c in ast.walk(ju.node))
  res.check(ok, rule, '_project_partial_joint_unimodality|balanced', ju.loc(),
            'the centre-ward vertex gets minus the sum of the other '
            'coefficients (constant kernels are feasible)',
            'the last hyperplane coefficient is no longer -sum(equation): a '
            'constant kernel would be reported as violating')
