"""N1 - None-safe subscripts in validators.

A validator receives optional hyper-parameters ("None or list ...") and the
canonicalisers return None for an omitted value.  `x[i]` on such a value
raises TypeError ('NoneType' object is not subscriptable) where the validator
promises a ValueError - typically on the very configuration it should reject
(a trust on a lattice without monotonicities).  Reaching definitions on the
CFG classify every definition of x reaching the subscript:
  maybe-None : a `None or ...` documented parameter, the result of a
               canonicalize_* helper
  not-None   : list / tuple displays, comprehensions, list(...), `x or [...]`
and the structural guards of the subscript are searched for a test that
implies x is not None (`x`, `x is not None`, `x and ...`, `not x ... raise`
earlier in the block)."""
import ast
import re

from ..model import AnalysisError, dotted, norm_text, names_read
from ..cfg import CFG, ReachingDefs, enclosing_stmt, structural_guards
from .seqkind import documented_kinds


def _maybe_none_value(e):
  if isinstance(e, ast.Call):
    f = dotted(e.func) or ''
    return f.split('.')[-1].startswith('canonicalize_')
  if isinstance(e, ast.Constant) and e.value is None:
    return True
  if isinstance(e, ast.IfExp):
    return _maybe_none_value(e.body) or _maybe_none_value(e.orelse)
  return False


def _guards_imply(tests, name):
  for t, pol in tests:
    for c in ast.walk(t):
      # `name` used as a truth value / compared with None
      if isinstance(c, ast.Compare) and dotted(c.left) == name and any(
          isinstance(x, ast.Constant) and x.value is None
          for x in c.comparators):
        op = c.ops[0]
        if (isinstance(op, ast.IsNot) and pol) or (isinstance(op, ast.Is)
                                                   and not pol):
          return True
    if pol:
      vals = t.values if isinstance(t, ast.BoolOp) and isinstance(
          t.op, ast.And) else [t]
      if any(dotted(v) == name for v in vals):
        return True
    else:
      # not (not name or ...)  i.e. the raising branch of `if not name: raise`
      vals = t.values if isinstance(t, ast.BoolOp) and isinstance(
          t.op, ast.Or) else [t]
      for v in vals:
        if isinstance(v, ast.UnaryOp) and isinstance(v.op, ast.Not) and \
            dotted(v.operand) == name:
          return True
  return False


def check_function(prog, res, fn, rule='N1', extra_maybe=()):
  docs = documented_kinds(fn.node)
  maybe_params = {p for p, d in docs.items()
                  if re.match(r'\s*(None|Optional)\b', d or '', re.I)}
  maybe_params |= set(extra_maybe)
  cfg = CFG(fn.node)
  rd = ReachingDefs(cfg, params=fn.all_params)
  n = 0
  seen = {}
  for s in ast.walk(fn.node):
    if not (isinstance(s, ast.Subscript) and isinstance(s.ctx, ast.Load)
            and isinstance(s.value, ast.Name)):
      continue
    name = s.value.id
    st = enclosing_stmt(fn.node, s)
    if st is None:
      continue
    try:
      nid = cfg.node_of(st)
    except AnalysisError:
      continue
    kinds = set()
    for d, val in rd.def_exprs(nid, name):
      if d == cfg.entry.id:
        kinds.add('maybe' if name in maybe_params else 'opaque')
      elif val is None:
        kinds.add('opaque')
      elif _maybe_none_value(val):
        kinds.add('maybe')
      else:
        kinds.add('notnone')
    if 'maybe' not in kinds:
      continue
    # short-circuit inside the same expression: `x and x[i]`, `x is None or`
    guarded = _guards_imply(structural_guards(fn.node, s) or [], name)
    if not guarded:
      # inside a loop over (x or []): the body only runs when x is given
      for lp in ast.walk(fn.node):
        if isinstance(lp, ast.For) and any(x is s for x in ast.walk(lp)) and \
            name in {dotted(x) for x in ast.walk(lp.iter)}:
          guarded = True
    if not guarded:
      # inside a BoolOp whose earlier operand tests the name
      for b in ast.walk(st):
        if isinstance(b, ast.BoolOp) and any(x is s for x in ast.walk(b)):
          idx = [i for i, v in enumerate(b.values)
                 if any(x is s for x in ast.walk(v))][0]
          for v in b.values[:idx]:
            if isinstance(b.op, ast.And) and (dotted(v) == name or (
                isinstance(v, ast.Compare) and dotted(v.left) == name and
                isinstance(v.ops[0], ast.IsNot))):
              guarded = True
            if isinstance(b.op, ast.Or) and (
                (isinstance(v, ast.UnaryOp) and isinstance(v.op, ast.Not) and
                 dotted(v.operand) == name) or (
                     isinstance(v, ast.Compare) and dotted(v.left) == name
                     and isinstance(v.ops[0], ast.Is))):
              guarded = True
    idx = seen.get(name, 0)
    seen[name] = idx + 1
    n += 1
    key = '%s|%s%s' % (fn.qualname, name, '#%d' % (idx + 1) if idx else '')
    res.check(guarded, rule, key, fn.loc(s),
              '`%s` is only subscripted where it is known to be given' % name,
              '`%s` may be None here (omitted hyper-parameter / result of a '
              'canonicalize_* helper) and is subscripted without a guard: the '
              'validator raises TypeError instead of the ValueError it '
              'promises, on exactly the configuration it should reject' %
              norm_text(s)[:40])
  return n


def maybe_none_args(prog, caller, callee):
  """parameters of callee that receive, at some call in caller, a name that
  may be None there (canonicalize_* result or None-documented parameter)."""
  from ..model import call_args
  docs = documented_kinds(caller.node)
  maybe = {p for p, d in docs.items()
           if re.match(r'\s*(None|Optional)\b', d or '', re.I)}
  for st in ast.walk(caller.node):
    if isinstance(st, ast.Assign) and isinstance(st.targets[0], ast.Name) and \
        _maybe_none_value(st.value):
      maybe.add(st.targets[0].id)
  out = set()
  for c in ast.walk(caller.node):
    if isinstance(c, ast.Call) and prog.resolve_call(caller, c) is callee:
      bound, _, _ = call_args(c, callee.all_params)
      for p, v in bound.items():
        if isinstance(v, ast.Name) and v.id in maybe:
          out.add(p)
  return out
