"""X6 - stale loop variable: a name bound only as the target of a `for` loop
(or comprehension-free loop) is read after that loop has finished.  Python
keeps the last value, so the read silently uses one arbitrary element - in
this code base per-dimension quantities (a lattice size, a bound) are then
applied to ALL dimensions.  Zero expected reports; an embedded positive
example keeps the rule honest."""
import ast

from ..model import AnalysisError, norm_text, dotted


def _targets(t):
  return [x.id for x in ast.walk(t) if isinstance(x, ast.Name) and
          isinstance(x.ctx, ast.Store)]


def find(fn_node):
  out = []
  loops = [n for n in ast.walk(fn_node) if isinstance(n, ast.For)]
  # names bound by something other than a for target anywhere in the function
  other = set()
  for n in ast.walk(fn_node):
    if isinstance(n, ast.Assign):
      for t in n.targets:
        other.update(_targets(t))
    elif isinstance(n, (ast.AugAssign, ast.AnnAssign)):
      other.update(_targets(n.target))
    elif isinstance(n, ast.arg):
      other.add(n.arg)
    elif isinstance(n, (ast.With,)):
      for it in n.items:
        if it.optional_vars is not None:
          other.update(_targets(it.optional_vars))
    elif isinstance(n, ast.comprehension):
      pass
  for lp in loops:
    names = set(_targets(lp.target)) - other
    if not names:
      continue
    inside = {id(x) for x in ast.walk(lp)}
    end = max(getattr(x, 'end_lineno', lp.lineno) for x in ast.walk(lp)
              if hasattr(x, 'lineno'))
    for x in ast.walk(fn_node):
      if isinstance(x, ast.Name) and isinstance(x.ctx, ast.Load) and \
          x.id in names and id(x) not in inside and x.lineno > end:
        # re-bound by a later loop / comprehension that encloses the read?
        rebound = False
        for other_lp in ast.walk(fn_node):
          if other_lp is lp:
            continue
          if isinstance(other_lp, ast.For) and x.id in _targets(
              other_lp.target) and any(y is x for y in ast.walk(other_lp)):
            rebound = True
          if isinstance(other_lp, (ast.ListComp, ast.SetComp, ast.DictComp,
                                   ast.GeneratorExp)):
            if any(x.id in _targets(g.target) for g in other_lp.generators) \
                and any(y is x for y in ast.walk(other_lp)):
              rebound = True
        if not rebound:
          out.append((x, lp))
  return out


_POSITIVE = '''
def f(inputs, sizes):
  bounds = {}
  for size in set(sizes):
    bounds[size] = size - 1
  return [clip(x, bounds[size]) for x in inputs]
'''


def selfcheck():
  hits = find(ast.parse(_POSITIVE).body[0])
  if len(hits) != 1:
    raise AnalysisError('X6 self-check: embedded example matched %d reads '
                        'instead of 1' % len(hits))


def check(prog, res, fns, rule='X6'):
  selfcheck()
  n = 0
  for fn in fns:
    res.analysed(fn)
    hits = find(fn.node)
    n += 1
    if not hits:
      res.ok(rule, fn.qualname, fn.loc(), 'no loop variable is read after its '
             'loop')
    for i, (x, lp) in enumerate(hits):
      res.violation(rule, '%s|%s%s' % (fn.qualname, x.id,
                                       '#%d' % (i + 1) if i else ''),
                    fn.loc(x),
                    '`%s` is read after the loop `for %s in %s` that bound it '
                    'has finished: the value of the last iteration is applied '
                    'to every element (e.g. one lattice size / bound for all '
                    'dimensions)' % (x.id, norm_text(lp.target),
                                     norm_text(lp.iter)[:30]))
  return n


# ---------------------------------------------------------------------------
# X8 - a normalised local is not bypassed
def check_shadowed_attributes(prog, res, fns, rule='X8'):
  """A method that copies `self.x` into a local `x` and then re-assigns the
  local (list -> tuple after a JSON round trip, None -> default, ...) has
  decided that the raw attribute is not what the rest of the method should
  use.  Passing `self.x` as an argument after that point bypasses the
  normalisation at one site while the sibling sites use the local."""
  n = 0
  for fn in fns:
    first = {}        # local name -> line of `x = ... self.x ...`
    reassigned = set()
    for st in ast.walk(fn.node):
      if isinstance(st, ast.Assign) and len(st.targets) == 1 and isinstance(
          st.targets[0], ast.Name):
        x = st.targets[0].id
        reads_attr = any(dotted(a) == 'self.' + x for a in ast.walk(st.value))
        if x not in first and dotted(st.value) == 'self.' + x:
          first[x] = (st.lineno, st.col_offset)
        elif x in first and (st.lineno, st.col_offset) > first[x]:
          reassigned.add(x)
    for x in sorted(reassigned):
      # statements that define the local or test the attribute to do so
      defining = set()
      for st in ast.walk(fn.node):
        if isinstance(st, ast.Assign) and any(
            isinstance(t, ast.Name) and t.id == x for t in st.targets):
          defining.update(id(a) for a in ast.walk(st))
        if isinstance(st, ast.If) and any(
            isinstance(a, ast.Assign) and any(
                isinstance(t, ast.Name) and t.id == x for t in a.targets)
            for b in (st.body, st.orelse) for s2 in b for a in ast.walk(s2)):
          defining.update(id(a) for a in ast.walk(st.test))
      for c in ast.walk(fn.node):
        if not isinstance(c, ast.Call):
          continue
        args = list(c.args) + [k.value for k in c.keywords]
        for a in args:
          if dotted(a) == 'self.' + x and id(a) not in defining and \
              (a.lineno, a.col_offset) > first[x]:
            n += 1
            res.violation(rule, '%s|self.%s@%s' % (
                fn.qualname, x, norm_text(c.func)[:30]), fn.loc(a),
                          '`self.%s` is passed to %s although the method '
                          'normalised it into the local `%s` (line %d) and '
                          'uses the local elsewhere: this site gets the raw '
                          'value (a list where tuples are expected after a '
                          'config round trip)' % (
                              x, norm_text(c.func)[:30], x, first[x][0]))
      n += 1
      res.ok(rule, '%s|%s' % (fn.qualname, x), fn.loc(),
             'the local `%s` shadows self.%s after its normalisation; no '
             'call gets the raw attribute afterwards' % (x, x))
  return n


# ---------------------------------------------------------------------------
# S13 - a list taken from a configuration object is not extended in place
def check_config_aliasing(prog, res, fns, rule='S13'):
  """`x = cfg.items or []` binds the configuration's OWN list whenever it is
  non-empty; `x.extend(...)` / `x.append(...)` / `x += [...]` afterwards
  grows the list inside the (model / feature) configuration: get_config()
  of a built model then already contains the additions, and every
  get_config() -> from_config() round adds them again.  A copy
  (`list(...)`, `[] + ...`, a new list that is extended) is required."""
  n = 0
  for fn in fns:
    params = set(fn.all_params) - {'self'}
    aliases = {}
    for st in ast.walk(fn.node):
      if isinstance(st, ast.Assign) and len(st.targets) == 1 and isinstance(
          st.targets[0], ast.Name):
        v = st.value
        cands = [v]
        if isinstance(v, ast.BoolOp) and isinstance(v.op, ast.Or):
          cands = list(v.values)
        for c in cands:
          d = dotted(c)
          if isinstance(c, ast.Attribute) and d and d.split('.')[0] in \
              params and d.split('.')[0].endswith('config'):
            aliases[st.targets[0].id] = (d, st)
    for name, (src, st0) in sorted(aliases.items()):
      n += 1
      bad = None
      for st in ast.walk(fn.node):
        if getattr(st, 'lineno', 0) <= st0.lineno:
          continue
        if isinstance(st, ast.Call) and isinstance(st.func, ast.Attribute) \
            and isinstance(st.func.value, ast.Name) and \
            st.func.value.id == name and st.func.attr in (
                'append', 'extend', 'insert', 'pop', 'remove', 'sort',
                'update', 'clear'):
          bad = st
        if isinstance(st, ast.AugAssign) and isinstance(
            st.target, ast.Name) and st.target.id == name:
          bad = st
        if isinstance(st, (ast.Assign, ast.AugAssign)):
          t = st.targets[0] if isinstance(st, ast.Assign) else st.target
          if isinstance(t, ast.Subscript) and isinstance(
              t.value, ast.Name) and t.value.id == name:
            bad = st
      res.check(bad is None, rule, '%s|%s' % (fn.qualname, name),
                fn.loc(bad if bad is not None else st0),
                '`%s` (= %s) is only read' % (name, src),
                '`%s` is `%s` itself whenever that list is non-empty, and '
                '`%s` changes it in place: the configuration object of the '
                'caller grows on every build / config round trip' % (
                    name, src, norm_text(bad)[:50] if bad is not None else
                    ''))
  return n


# ---------------------------------------------------------------------------
# X9 - an iteration that does not look at its element
def check_unused_iteration(prog, res, fns, rule='X9'):
  """`any(check(model.things) for item in model.items)` / `for item in items:
  check(model.things)`: what is evaluated for every element does not read the
  element.  The per-item test has become the same test repeated len(items)
  times - usually the whole-object attribute was passed where the item's
  attribute was meant.  Decided per comprehension / generator / for loop:
  at least one bound name must be read in the element expression, a filter
  or the body.  Exempt: targets named `_` / `unused*`, loops over `range(..)`
  (repeat n times) and comprehensions that only build n copies (`[0.0 for _
  in ...]`, `[[] for i in range(n)]`)."""
  n = 0
  for fn in fns:
    for node in ast.walk(fn.node):
      if isinstance(node, (ast.ListComp, ast.SetComp, ast.GeneratorExp,
                           ast.DictComp)):
        gens = node.generators
        parts = [node.key, node.value] if isinstance(node, ast.DictComp) \
            else [node.elt]
        for gi, g in enumerate(gens):
          names = {x.id for x in ast.walk(g.target) if isinstance(x, ast.Name)}
          if not names or all(x == '_' or x.startswith('unused')
                              for x in names):
            continue
          if isinstance(g.iter, ast.Call) and dotted(g.iter.func) == 'range':
            continue
          readers = parts + list(g.ifs) + [h.iter for h in gens[gi + 1:]] + [
              t for h in gens[gi + 1:] for t in h.ifs]
          used = any(isinstance(x, ast.Name) and x.id in names
                     for r in readers for x in ast.walk(r))
          # n copies of a constant / fresh empty container
          trivial = all(isinstance(p_, ast.Constant) or (
              isinstance(p_, (ast.List, ast.Dict, ast.Tuple)) and not getattr(
                  p_, 'elts', getattr(p_, 'keys', None))) for p_ in parts)
          if trivial:
            continue
          n += 1
          key = '%s|%s in %s' % (fn.qualname, norm_text(g.target),
                                 norm_text(g.iter)[:40])
          res.check(used, rule, key, fn.loc(node),
                    'the element is read by what is evaluated for it',
                    '`%s` is evaluated for every `%s` in `%s` but does not '
                    'read it: the per-element test is one test repeated' % (
                        norm_text(parts[0])[:60], norm_text(g.target),
                        norm_text(g.iter)[:40]))
      elif isinstance(node, ast.For):
        names = {x.id for x in ast.walk(node.target)
                 if isinstance(x, ast.Name)}
        if not names or all(x == '_' or x.startswith('unused')
                            for x in names):
          continue
        if isinstance(node.iter, ast.Call) and dotted(node.iter.func) in (
            'range', 'six.moves.range', 'xrange'):
          continue
        used = any(isinstance(x, ast.Name) and x.id in names and isinstance(
            x.ctx, ast.Load) for st in node.body for x in ast.walk(st))
        n += 1
        key = '%s|for %s in %s' % (fn.qualname, norm_text(node.target),
                                   norm_text(node.iter)[:40])
        res.check(used, rule, key, fn.loc(node),
                  'the loop body reads its element',
                  'the body of `for %s in %s` never reads `%s`: every '
                  'iteration does the same thing' % (
                      norm_text(node.target), norm_text(node.iter)[:40],
                      norm_text(node.target)))
  return n


# ---------------------------------------------------------------------------
# X10 - a value is not handed out before the function has normalised it
def check_raw_before_normalised(prog, res, fns, rule='X10'):
  """`if isinstance(p, tuple) and ...: self.p = [p]  else: self.p = p`
  says that callers may pass ONE constraint where a list of constraints is
  meant, and that the rest of the code works on the list form.  Passing the
  raw parameter `p` as an argument of a call that is executed BEFORE that
  normalisation hands the un-normalised form to code that iterates it (a
  single `(0, 2, 1)` is then read as three constraints).  Decided per
  function: for every parameter with such a wrap, no call before the wrap
  takes the bare parameter as an argument."""
  n = 0
  for fn in fns:
    params = set(fn.all_params)
    wraps = {}      # parameter -> position of the normalising statement
    for st in ast.walk(fn.node):
      if not isinstance(st, ast.Assign) or len(st.targets) != 1:
        continue
      v = st.value
      if isinstance(v, ast.List) and len(v.elts) == 1 and isinstance(
          v.elts[0], ast.Name) and v.elts[0].id in params:
        p_ = v.elts[0].id
        tgt = dotted(st.targets[0]) or ''
        if tgt in (p_, 'self.' + p_):
          pos = (st.lineno, st.col_offset)
          # position of the enclosing if, when the wrap is conditional
          wraps[p_] = min(wraps.get(p_, pos), pos)
    for p_, pos in sorted(wraps.items()):
      n += 1
      bad = None
      for c in ast.walk(fn.node):
        if not isinstance(c, ast.Call) or (c.lineno, c.col_offset) >= pos:
          continue
        fname = dotted(c.func) or ''
        if fname in ('isinstance', 'len', 'type', 'callable', 'list',
                     'tuple'):
          continue
        args = list(c.args) + [k.value for k in c.keywords]
        if any(isinstance(a, ast.Name) and a.id == p_ for a in args):
          bad = c
          break
      res.check(bad is None, rule, '%s|%s' % (fn.qualname, p_), fn.loc(
          bad) if bad is not None else fn.loc(),
                'the parameter is not handed out before it is normalised',
                '`%s` is passed to `%s(...)` before the function wraps a '
                'single constraint into a list: the callee receives the '
                'un-normalised form' % (p_, norm_text(bad.func)[:40]
                                        if bad is not None else ''))
  return n


# ---------------------------------------------------------------------------
# X11 - a value carried through a loop is read by the loop
def check_carried_values(prog, res, fns, rule='X11'):
  """x = start
     for item in items:
       ... x = step(...)        # the body never reads x
     use(x)
  Only the last iteration survives: each one starts again from whatever the
  body reads instead of x (typically the un-updated input that x was copied
  from - `layers = unstack(weights)` where `unstack(trust_projection)` is the
  running value).  Decided per for loop: a name that is bound before the loop
  in the same block, re-bound at the top level of the loop body and read after
  the loop must be read somewhere in the body.  Names bound to a constant
  before the loop (`found = False`, `best = None`) are flags / search results,
  not running values, and are exempt."""
  n = 0
  for fn in fns:
    for owner in ast.walk(fn.node):
      for f in ('body', 'orelse', 'finalbody'):
        block = getattr(owner, f, None)
        if not (isinstance(block, list) and block and isinstance(
            block[0], ast.stmt)):
          continue
        for j, loop in enumerate(block):
          if not isinstance(loop, ast.For):
            continue
          bound_in_body = {}
          for st in loop.body:
            if isinstance(st, ast.Assign):
              for t in st.targets:
                if isinstance(t, ast.Name):
                  bound_in_body.setdefault(t.id, st)
          if not bound_in_body:
            continue
          tvars = {x.id for x in ast.walk(loop.target)
                   if isinstance(x, ast.Name)}
          for name, st in sorted(bound_in_body.items()):
            if name in tvars:
              continue
            before = None
            for k in range(j - 1, -1, -1):
              b = block[k]
              if isinstance(b, ast.Assign) and any(
                  isinstance(t, ast.Name) and t.id == name
                  for t in b.targets):
                before = b
                break
            if before is None or isinstance(before.value, ast.Constant) or (
                isinstance(before.value, (ast.List, ast.Dict, ast.Tuple))
                and not getattr(before.value, 'elts',
                                getattr(before.value, 'keys', None))):
              continue
            after = any(isinstance(x, ast.Name) and x.id == name and
                        isinstance(x.ctx, ast.Load)
                        for b in block[j + 1:] for x in ast.walk(b))
            if not after:
              continue
            n += 1
            read = any(isinstance(x, ast.Name) and x.id == name and
                       isinstance(x.ctx, ast.Load)
                       for b in loop.body for x in ast.walk(b))
            res.check(read, rule, '%s|%s in for %s' % (
                fn.qualname, name, norm_text(loop.target)[:30]), fn.loc(st),
                      'the running value `%s` is read by the loop that '
                      'updates it' % name,
                      '`%s` is set before the loop, re-assigned in every '
                      'iteration (`%s`) and used afterwards, but no iteration '
                      'reads it: every pass starts over and only the last one '
                      'survives' % (name, norm_text(st)[:60]))
  return n
