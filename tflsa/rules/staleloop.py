"""X6 - stale loop variable: a name bound only as the target of a `for` loop
(or comprehension-free loop) is read after that loop has finished.  Python
keeps the last value, so the read silently uses one arbitrary element - in
this code base per-dimension quantities (a lattice size, a bound) are then
applied to ALL dimensions.  Zero expected reports; an embedded positive
example keeps the rule honest."""
import ast

from ..model import AnalysisError, norm_text


def _targets(t):
  return [x.id for x in ast.walk(t) if isinstance(x, ast.Name) and
          isinstance(x.ctx, ast.Store)]


def find(fn_node):
  out = []
  loops = [n for n in ast.walk(fn_node) if isinstance(n, ast.For)]
  # names bound by something other than a for target anywhere in the function
  other = set()
  for n in ast.walk(fn_node):
    if isinstance(n, ast.Assign):
      for t in n.targets:
        other.update(_targets(t))
    elif isinstance(n, (ast.AugAssign, ast.AnnAssign)):
      other.update(_targets(n.target))
    elif isinstance(n, ast.arg):
      other.add(n.arg)
    elif isinstance(n, (ast.With,)):
      for it in n.items:
        if it.optional_vars is not None:
          other.update(_targets(it.optional_vars))
    elif isinstance(n, ast.comprehension):
      pass
  for lp in loops:
    names = set(_targets(lp.target)) - other
    if not names:
      continue
    inside = {id(x) for x in ast.walk(lp)}
    end = max(getattr(x, 'end_lineno', lp.lineno) for x in ast.walk(lp)
              if hasattr(x, 'lineno'))
    for x in ast.walk(fn_node):
      if isinstance(x, ast.Name) and isinstance(x.ctx, ast.Load) and \
          x.id in names and id(x) not in inside and x.lineno > end:
        # re-bound by a later loop / comprehension that encloses the read?
        rebound = False
        for other_lp in ast.walk(fn_node):
          if other_lp is lp:
            continue
          if isinstance(other_lp, ast.For) and x.id in _targets(
              other_lp.target) and any(y is x for y in ast.walk(other_lp)):
            rebound = True
          if isinstance(other_lp, (ast.ListComp, ast.SetComp, ast.DictComp,
                                   ast.GeneratorExp)):
            if any(x.id in _targets(g.target) for g in other_lp.generators) \
                and any(y is x for y in ast.walk(other_lp)):
              rebound = True
        if not rebound:
          out.append((x, lp))
  return out


_POSITIVE = '''
def f(inputs, sizes):
  bounds = {}
  for size in set(sizes):
    bounds[size] = size - 1
  return [clip(x, bounds[size]) for x in inputs]
'''


def selfcheck():
  hits = find(ast.parse(_POSITIVE).body[0])
  if len(hits) != 1:
    raise AnalysisError('X6 self-check: embedded example matched %d reads '
                        'instead of 1' % len(hits))


def check(prog, res, fns, rule='X6'):
  selfcheck()
  n = 0
  for fn in fns:
    res.analysed(fn)
    hits = find(fn.node)
    n += 1
    if not hits:
      res.ok(rule, fn.qualname, fn.loc(), 'no loop variable is read after its '
             'loop')
    for i, (x, lp) in enumerate(hits):
      res.violation(rule, '%s|%s%s' % (fn.qualname, x.id,
                                       '#%d' % (i + 1) if i else ''),
                    fn.loc(x),
                    '`%s` is read after the loop `for %s in %s` that bound it '
                    'has finished: the value of the last iteration is applied '
                    'to every element (e.g. one lattice size / bound for all '
                    'dimensions)' % (x.id, norm_text(lp.target),
                                     norm_text(lp.iter)[:30]))
  return n
