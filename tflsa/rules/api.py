"""V5 - installed-API conformance: every np.* (quick) and tf.*/keras.*
(thorough) call is accepted by the installed callee's signature.  The library
is imported only to read inspect.signature - the job stubs do for a type
checker.  Nothing of /repo is imported."""
import ast
import importlib
import inspect

from ..model import AnalysisError, dotted, norm_text

_ROOTS = {}


def _root(name):
  if name not in _ROOTS:
    modname = {'np': 'numpy', 'tf': 'tensorflow', 'keras': 'tf_keras'}.get(name)
    if modname is None:
      _ROOTS[name] = None
    else:
      try:
        import os
        os.environ.setdefault('TF_CPP_MIN_LOG_LEVEL', '3')
        _ROOTS[name] = importlib.import_module(modname)
      except Exception as e:  # pragma: no cover
        raise AnalysisError('cannot import %s to read signatures: %s' % (
            modname, e))
  return _ROOTS[name]


def resolve_ext(ext):
  parts = ext.split('.')
  obj = _root(parts[0])
  if obj is None:
    return None
  for p in parts[1:]:
    try:
      obj = getattr(obj, p)
    except AttributeError:
      return AttributeError
  return obj


class _P(object):
  """placeholder argument"""


def check_calls(prog, res, fn, roots=('np',), rule='V5'):
  """Returns (#checked, #unresolvable)."""
  res.analysed(fn)
  checked = 0
  unres = 0
  for c in ast.walk(fn.node):
    if not isinstance(c, ast.Call):
      continue
    ext = prog.ext_name(fn.module, c.func)
    if not ext or ext.split('.')[0] not in roots:
      continue
    key = '%s|%s' % (fn.qualname, norm_text(c.func))
    obj = resolve_ext(ext)
    if obj is AttributeError:
      checked += 1
      res.violation(rule, key, fn.loc(c),
                    '%s does not exist in the installed library' % ext)
      continue
    if obj is None:
      continue
    try:
      sig = inspect.signature(obj)
    except (TypeError, ValueError):
      unres += 1
      continue
    if any(isinstance(a, ast.Starred) for a in c.args) or any(
        k.arg is None for k in c.keywords):
      unres += 1
      continue
    checked += 1
    try:
      sig.bind(*[_P() for _ in c.args], **{k.arg: _P() for k in c.keywords})
      res.ok(rule, key, fn.loc(c), '%s accepts (%d positional, %s)' % (
          ext, len(c.args), ','.join(k.arg for k in c.keywords) or '-'))
    except TypeError as e:
      res.violation(rule, key, fn.loc(c),
                    'installed %s rejects this call: %s  [%s]' % (
                        ext, e, norm_text(c)[:70]))
  return checked, unres


# ---------------------------------------------------------------------------
# V5t - typed arguments of installed API functions whose signature accepts
# anything but whose contract is "a dtype (or type), not a value".
DTYPE_ARGS = {'np.issubdtype': (0, 1), 'np.can_cast': (1,),
              'np.finfo': (0,), 'np.iinfo': (0,)}


def _is_dtype_expr(prog, fn, e):
  if isinstance(e, ast.Attribute) and e.attr in ('dtype', 'type'):
    return True
  if isinstance(e, ast.Call):
    f = prog.ext_name(fn.module, e.func) or dotted(e.func) or ''
    if f in ('np.dtype', 'np.result_type', 'np.promote_types', 'type',
             'np.min_scalar_type'):
      return True
    return False
  ext = prog.ext_name(fn.module, e) or ''
  if ext.startswith(('np.', 'tf.')) and ext.count('.') == 1:
    return True          # np.number, np.float32, tf.float32 ...
  d = dotted(e)
  if d in ('int', 'float', 'bool', 'str', 'complex', 'object'):
    return True
  if isinstance(e, ast.Name) and 'dtype' in e.id.lower():
    return True
  if isinstance(e, ast.Constant) and isinstance(e.value, str):
    return True          # dtype name such as 'float32'
  return False


def check_dtype_args(prog, res, fn, rule='V5t'):
  n = 0
  for c in ast.walk(fn.node):
    if not isinstance(c, ast.Call):
      continue
    ext = prog.ext_name(fn.module, c.func)
    if ext not in DTYPE_ARGS:
      continue
    for pos in DTYPE_ARGS[ext]:
      if pos >= len(c.args):
        continue
      a = c.args[pos]
      n += 1
      key = '%s|%s#%d' % (fn.qualname, ext, pos)
      res.check(_is_dtype_expr(prog, fn, a), rule, key, fn.loc(c),
                '%s argument %d is a dtype / type expression' % (ext, pos),
                '%s expects a dtype or type in position %d but gets the value '
                'expression `%s`: numpy tries to interpret the value as a '
                'dtype specification (a str element such as \'cat\' raises '
                'TypeError, \'f8\' is taken for float64)' % (
                    ext, pos, norm_text(a)[:40]))
  return n
