"""V5 - installed-API conformance: every np.* (quick) and tf.*/keras.*
(thorough) call is accepted by the installed callee's signature.  The library
is imported only to read inspect.signature - the job stubs do for a type
checker.  Nothing of /repo is imported."""
import ast
import importlib
import inspect

from ..model import AnalysisError, dotted, norm_text

_ROOTS = {}


def _root(name):
  if name not in _ROOTS:
    modname = {'np': 'numpy', 'tf': 'tensorflow', 'keras': 'tf_keras'}.get(name)
    if modname is None:
      _ROOTS[name] = None
    else:
      try:
        import os
        os.environ.setdefault('TF_CPP_MIN_LOG_LEVEL', '3')
        _ROOTS[name] = importlib.import_module(modname)
      except Exception as e:  # pragma: no cover
        raise AnalysisError('cannot import %s to read signatures: %s' % (
            modname, e))
  return _ROOTS[name]


def resolve_ext(ext):
  parts = ext.split('.')
  obj = _root(parts[0])
  if obj is None:
    return None
  for p in parts[1:]:
    try:
      obj = getattr(obj, p)
    except AttributeError:
      return AttributeError
  return obj


class _P(object):
  """placeholder argument"""


def check_calls(prog, res, fn, roots=('np',), rule='V5'):
  """Returns (#checked, #unresolvable)."""
  res.analysed(fn)
  checked = 0
  unres = 0
  for c in ast.walk(fn.node):
    if not isinstance(c, ast.Call):
      continue
    ext = prog.ext_name(fn.module, c.func)
    if not ext or ext.split('.')[0] not in roots:
      continue
    key = '%s|%s' % (fn.qualname, norm_text(c.func))
    obj = resolve_ext(ext)
    if obj is AttributeError:
      checked += 1
      res.violation(rule, key, fn.loc(c),
                    '%s does not exist in the installed library' % ext)
      continue
    if obj is None:
      continue
    try:
      sig = inspect.signature(obj)
    except (TypeError, ValueError):
      unres += 1
      continue
    if any(isinstance(a, ast.Starred) for a in c.args) or any(
        k.arg is None for k in c.keywords):
      unres += 1
      continue
    checked += 1
    try:
      sig.bind(*[_P() for _ in c.args], **{k.arg: _P() for k in c.keywords})
      res.ok(rule, key, fn.loc(c), '%s accepts (%d positional, %s)' % (
          ext, len(c.args), ','.join(k.arg for k in c.keywords) or '-'))
    except TypeError as e:
      res.violation(rule, key, fn.loc(c),
                    'installed %s rejects this call: %s  [%s]' % (
                        ext, e, norm_text(c)[:70]))
  return checked, unres
