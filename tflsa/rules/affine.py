"""E2 - symbolic extraction of the numeric kernels into affine forms.

Nothing is executed: tensors are symbols.  A value is an affine form with
Fraction coefficients over *cells* (layers[i+1][j], heights[k], ...) and
opaque atoms relu(form).  tf.maximum(x, 0) -> relu(x), tf.minimum(x, 0) ->
-relu(-x), max(a, b) -> a + relu(b - a), min(a, b) -> a - relu(a - b);
positive scalars are pulled out of relu.  A loop is analysed once for a
generic iteration (symbolic loop variable); `if` on discrete configuration is
resolved by the caller-supplied case, every combination being one instance.
Anything else inside a targeted function is ANALYSIS-ERROR (fail closed)."""
import ast
from fractions import Fraction

from ..model import AnalysisError, dotted, norm_text, const_value, fold_ifexp


class Form(object):
  """sum coef * atom + const ; atoms are hashable tuples"""
  __slots__ = ('t', 'c')

  def __init__(self, terms=None, c=0):
    self.t = {k: Fraction(v) for k, v in (terms or {}).items() if v != 0}
    self.c = Fraction(c)

  @staticmethod
  def const(v):
    return Form({}, v)

  @staticmethod
  def atom(a):
    return Form({a: 1})

  def __add__(self, o):
    o = as_form(o)
    t = dict(self.t)
    for k, v in o.t.items():
      t[k] = t.get(k, 0) + v
    return Form(t, self.c + o.c)

  def __neg__(self):
    return Form({k: -v for k, v in self.t.items()}, -self.c)

  def __sub__(self, o):
    return self + (-as_form(o))

  def scale(self, s):
    s = Fraction(s)
    return Form({k: v * s for k, v in self.t.items()}, self.c * s)

  def is_zero(self):
    return not self.t and self.c == 0

  def is_const(self):
    return not self.t

  def key(self):
    return (tuple(sorted((repr(k), v) for k, v in self.t.items())), self.c)

  def __eq__(self, o):
    o = as_form(o)
    return self.t == o.t and self.c == o.c

  def __hash__(self):
    return hash(self.key())

  def atoms(self):
    return set(self.t)

  def __repr__(self):
    parts = []
    for k, v in sorted(self.t.items(), key=lambda kv: repr(kv[0])):
      name = k[1] if k[0] == 'cell' else '%s(%s)' % (k[0], k[1],)
      parts.append('%s*%s' % (v, name) if v != 1 else str(name))
    if self.c or not parts:
      parts.append(str(self.c))
    return ' + '.join(parts).replace('+ -', '- ')


def as_form(x):
  if isinstance(x, Form):
    return x
  if isinstance(x, (int, Fraction)):
    return Form.const(x)
  if isinstance(x, float):
    return Form.const(Fraction(x).limit_denominator(10 ** 6))
  raise AnalysisError('not a number: %r' % (x,))


class ReluArg(object):
  """normalised argument of a relu atom (leading coefficient +-1)"""

  def __init__(self, form):
    self.form = form

  def __repr__(self):
    return repr(self.form)

  def __eq__(self, o):
    return isinstance(o, ReluArg) and self.form == o.form

  def __hash__(self):
    return hash(self.form.key())


def relu(form):
  """relu(form) as a Form; positive scale pulled out."""
  form = as_form(form)
  if form.is_const():
    return Form.const(max(form.c, 0))
  lead = sorted(form.t.items(), key=lambda kv: repr(kv[0]))[0][1]
  s = abs(lead)
  arg = form.scale(Fraction(1) / s)
  return Form({('relu', ReluArg(arg)): s})


def fmax(a, b):
  a, b = as_form(a), as_form(b)
  if b.is_zero():
    return relu(a)
  if a.is_zero():
    return relu(b)
  return a + relu(b - a)


def fmin(a, b):
  a, b = as_form(a), as_form(b)
  if b.is_zero():
    return -relu(-a)
  if a.is_zero():
    return -relu(-b)
  return a - relu(a - b)


# ---------------------------------------------------------------------------
class Index(object):
  """affine index expression in symbols: {sym: coef} + const, printable"""

  def __init__(self, terms=None, c=0):
    self.t = {k: v for k, v in (terms or {}).items() if v}
    self.c = c

  def __add__(self, o):
    t = dict(self.t)
    for k, v in o.t.items():
      t[k] = t.get(k, 0) + v
    return Index(t, self.c + o.c)

  def neg(self):
    return Index({k: -v for k, v in self.t.items()}, -self.c)

  def text(self):
    parts = []
    for k, v in sorted(self.t.items()):
      parts.append(k if v == 1 else '%d*%s' % (v, k))
    s = '+'.join(parts)
    if self.c or not s:
      s += ('%+d' % self.c) if s else str(self.c)
    return s.replace('+-', '-')


PLUMBING = ('_unstack_nd', '_stack_nd', '_reverse_second_list_dimension',
            'tf.unstack', 'tf.stack', '_unstack_nested_lists',
            '_stack_nested_lists')


class Kernel(object):
  """Symbolic interpreter for one function body."""

  def __init__(self, prog, fn, containers, decide, subst=None, scalars=None):
    """containers: names of list-of-tensors (cells are container[i]...[k]).
    decide(test_node) -> True/False for configuration tests (raises
    AnalysisError when it cannot).  subst: index symbol -> Index replacing it
    (position cases).  scalars: name -> Form/number for known locals."""
    self.prog, self.fn = prog, fn
    self.containers = set(containers)
    self.decide = decide
    self.subst = subst or {}
    self.env = dict(scalars or {})   # name -> Form | Index | ('list', ...)
    self.cells = {}                  # key -> Form (current value)
    self.touched = []                # keys written, in order
    self.read = set()
    self.inline_helpers = False

  # -- indices -----------------------------------------------------------
  def index(self, e):
    if isinstance(e, ast.Constant) and isinstance(e.value, int):
      return Index({}, e.value)
    v = const_value(e, default=None)
    if isinstance(v, int):
      return Index({}, v)
    if isinstance(e, ast.Name):
      if e.id in self.subst:
        return self.subst[e.id]
      b = self.env.get(e.id)
      if isinstance(b, Index):
        return b
      return Index({e.id: 1})
    if isinstance(e, ast.BinOp) and isinstance(e.op, (ast.Add, ast.Sub)):
      l, r = self.index(e.left), self.index(e.right)
      return l + (r if isinstance(e.op, ast.Add) else r.neg())
    if isinstance(e, ast.Subscript):
      # lattice_sizes[dim] - a size symbol
      return Index({norm_text(e).replace(' ', ''): 1})
    raise AnalysisError('%s: index expression %s not affine' % (
        self.fn.loc(e), norm_text(e)))

  def cell_key(self, sub):
    chain = []
    cur = sub
    while isinstance(cur, ast.Subscript):
      chain.append(cur.slice)
      cur = cur.value
    base = dotted(cur)
    if base not in self.containers:
      return None
    chain.reverse()
    return base + ''.join('[%s]' % self.index(e).text() for e in chain)

  # -- values ------------------------------------------------------------
  def val(self, e):
    if isinstance(e, ast.Constant) and isinstance(e.value, (int, float)) and \
        not isinstance(e.value, bool):
      return as_form(e.value)
    if isinstance(e, ast.UnaryOp) and isinstance(e.op, ast.USub):
      return -self.val(e.operand)
    if isinstance(e, ast.Name):
      if e.id in self.env:
        v = self.env[e.id]
        if isinstance(v, (Form, int, Fraction, float)):
          return as_form(v)
      raise AnalysisError('%s: value of %s is not modelled' % (
          self.fn.loc(e), e.id))
    if isinstance(e, ast.Subscript):
      k = self.cell_key(e)
      if k is None:
        raise AnalysisError('%s: subscript %s is not a cell' % (
            self.fn.loc(e), norm_text(e)))
      self.read.add(k)
      if k not in self.cells:
        self.cells[k] = Form.atom(('cell', k))
      return self.cells[k]
    if isinstance(e, ast.BinOp):
      if isinstance(e.op, ast.Add):
        return self.val(e.left) + self.val(e.right)
      if isinstance(e.op, ast.Sub):
        return self.val(e.left) - self.val(e.right)
      if isinstance(e.op, ast.Mult):
        l, r = self.val(e.left), self.val(e.right)
        if l.is_const():
          return r.scale(l.c)
        if r.is_const():
          return l.scale(r.c)
        raise AnalysisError('%s: product of two non-constants' %
                            self.fn.loc(e))
      if isinstance(e.op, ast.Div):
        l, r = self.val(e.left), self.val(e.right)
        if r.is_const() and r.c != 0:
          return l.scale(Fraction(1) / r.c)
        raise AnalysisError('%s: division by a non-constant' % self.fn.loc(e))
    if isinstance(e, ast.Call):
      ext = self.prog.ext_name(self.fn.module, e.func)
      if ext in ('tf.maximum', 'tf.math.maximum'):
        return fmax(self.val(e.args[0]), self.val(e.args[1]))
      if ext in ('tf.minimum', 'tf.math.minimum'):
        return fmin(self.val(e.args[0]), self.val(e.args[1]))
      if ext == 'tf.nn.relu':
        return relu(self.val(e.args[0]))
      if ext in ('tf.identity',):
        return self.val(e.args[0])
      if ext in ('tf.reduce_max', 'tf.reduce_min'):
        # opaque aggregate of a form: aggmax(F) >= F, aggmin(F) <= F
        inner = self.val(e.args[0])
        kind = 'aggmax' if ext.endswith('max') else 'aggmin'
        return Form.atom((kind, ReluArg(inner)))
      # repo helper: interpret its body with the arguments bound
      from ..model import FunctionInfo, call_args
      r = self.prog.resolve_call(self.fn, e)
      if isinstance(r, FunctionInfo) and r.cls is None and \
          self.inline_helpers:
        bound, _, _ = call_args(e, r.all_params)
        sub = Kernel(self.prog, r, self.containers, self.decide, self.subst)
        sub.inline_helpers = True
        sub.cells = self.cells
        for pname in r.all_params:
          if pname not in bound:
            continue
          try:
            sub.env[pname] = self.val(bound[pname])
          except AnalysisError:
            sub.env[pname] = ('opaque', bound[pname])
        ret = sub.run_function(r)
        if ret is not None:
          return ret
    raise AnalysisError('%s: expression %s is outside the affine subset' % (
        self.fn.loc(e), norm_text(e)[:60]))

  # -- statements --------------------------------------------------------
  def run(self, stmts):
    for st in stmts:
      self.step(st)

  def assign_cell(self, key, form):
    self.cells[key] = form
    if key not in self.touched:
      self.touched.append(key)

  def step(self, st):
    if isinstance(st, ast.Expr):
      return
    st = fold_ifexp(st)
    if isinstance(st, ast.Assign) and len(st.targets) == 1:
      t = st.targets[0]
      if isinstance(t, ast.Subscript):
        k = self.cell_key(t)
        if k is None:
          raise AnalysisError('%s: assignment target %s' % (
              self.fn.loc(st), norm_text(t)))
        self.assign_cell(k, self.val(st.value))
        return
      if isinstance(t, ast.Name):
        if isinstance(st.value, ast.Call):
          r = self.prog.resolve_call(self.fn, st.value)
          nm = getattr(r, 'name', None) or (
              self.prog.ext_name(self.fn.module, st.value.func) or '')
          if nm in PLUMBING:
            return     # list <-> tensor plumbing: index maps, not arithmetic
        try:
          self.env[t.id] = self.val(st.value)
        except AnalysisError:
          # an index / size local
          try:
            self.env[t.id] = self.index(st.value)
          except AnalysisError:
            self.env.pop(t.id, None)
            self.env[t.id] = ('opaque', st.value)
        return
    if isinstance(st, ast.Assign) and len(st.targets) == 1 and isinstance(
        st.targets[0], ast.Tuple):
      return       # unpacking of configuration tuples / initial zeros
    if isinstance(st, ast.AugAssign) and isinstance(st.target, ast.Subscript):
      k = self.cell_key(st.target)
      if k is None:
        raise AnalysisError('%s: target %s' % (self.fn.loc(st),
                                               norm_text(st.target)))
      cur = self.val(st.target)
      v = self.val(st.value)
      if isinstance(st.op, ast.Add):
        self.assign_cell(k, cur + v)
      elif isinstance(st.op, ast.Sub):
        self.assign_cell(k, cur - v)
      else:
        raise AnalysisError('%s: augmented op' % self.fn.loc(st))
      return
    if isinstance(st, ast.AugAssign) and isinstance(st.target, ast.Name):
      cur = self.val(st.target)
      v = self.val(st.value)
      if isinstance(st.op, ast.Add):
        self.env[st.target.id] = cur + v
      elif isinstance(st.op, ast.Sub):
        self.env[st.target.id] = cur - v
      else:
        raise AnalysisError('%s: augmented op' % self.fn.loc(st))
      return
    if isinstance(st, ast.If):
      t = self.decide(st.test)
      self.run(st.body if t else st.orelse)
      return
    if isinstance(st, ast.For):
      # generic iteration: loop variables stay symbolic
      self.run(st.body)
      return
    if isinstance(st, (ast.Return, ast.Pass)):
      return
    raise AnalysisError('%s: statement %s is outside the modelled subset' % (
        self.fn.loc(st), type(st).__name__))

  def run_function(self, fn):
    """interprets fn's body until its return; returns the returned Form"""
    def block(stmts):
      for st in stmts:
        if isinstance(st, ast.Expr):
          continue
        if isinstance(st, ast.If) and isinstance(fold_ifexp(st), ast.Assign):
          st = fold_ifexp(st)
        if isinstance(st, ast.Return):
          return self.val(st.value)
        if isinstance(st, ast.If):
          t = self.decide(st.test)
          r = block(st.body if t else st.orelse)
          if r is not None:
            return r
          continue
        self.step(st)
      return None
    return block(fn.node.body)

  def deltas(self):
    """cell key -> Form of (final - initial) for touched cells"""
    out = {}
    for k in self.touched:
      d = self.cells[k] - Form.atom(('cell', k))
      if not d.is_zero():
        out[k] = d
    return out


# ---------------------------------------------------------------------------
def classify_projection(deltas):
  """Given cell deltas of one group update returns
  (status, info): status in exact | repair | none | irregular."""
  if not deltas:
    return 'none', {}
  relus = set()
  for d in deltas.values():
    for a in d.atoms():
      if a[0] != 'relu':
        return 'irregular', {'why': 'delta %s is not a multiple of a relu' % d}
      relus.add(a)
    if d.c != 0:
      return 'irregular', {'why': 'delta with a constant part'}
  if len(relus) != 1:
    return 'irregular', {'why': '%d different relu atoms: %s' % (
        len(relus), sorted(map(repr, relus)))}
  r = relus.pop()
  u = r[1].form            # normalised violation form U
  if u.c != 0:
    return 'irregular', {'why': 'violation form with a constant'}
  ucoef = {a[1]: v for a, v in u.t.items() if a[0] == 'cell'}
  if len(ucoef) != len(u.t):
    return 'irregular', {'why': 'nested relu in the violation form'}
  k = {c: d.t[r] for c, d in deltas.items()}
  norm2 = sum(v * v for v in ucoef.values())
  dot = sum(ucoef.get(c, 0) * kc for c, kc in k.items())
  info = {'normal': ucoef, 'steps': k, 'norm2': norm2, 'u_dot_delta': dot}
  outside = [c for c in k if c not in ucoef]
  if outside:
    info['why'] = 'cells %s move but are not part of the violation' % outside
    return 'irregular', info
  exact = all(k.get(c, 0) * norm2 + uc == 0 for c, uc in ucoef.items())
  if exact:
    return 'exact', info
  if dot == -1:
    return 'repair', info
  info['why'] = 'u.delta = %s (must be -1 to land on the boundary)' % dot
  return 'irregular', info
