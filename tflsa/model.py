"""E0 - resolved program model of tensorflow_lattice (stdlib ast only).

Nothing from /repo is imported or executed.  The model gives every rule:
  * modules with import-alias resolution,
  * classes (bases resolved to kinds), methods, __init__ signatures,
  * functions with parameter lists,
  * callee resolution for  lib.func(..),  Class(..),  self.method(..),
    self._attr(..) where _attr holds an instance of a repo class,
  * helpers to print / normalise expressions.
"""
import ast
import os

PKG_DIR = os.path.join('tensorflow_lattice', 'python')

# Modules every run must be able to parse; a missing one is analysis-broken.
REQUIRED_MODULES = [
    'aggregation_layer', 'categorical_calibration_layer',
    'categorical_calibration_lib', 'cdf_layer', 'conditional_cdf',
    'conditional_pwl_calibration', 'configs', 'internal_utils',
    'kronecker_factored_lattice_layer', 'kronecker_factored_lattice_lib',
    'lattice_layer', 'lattice_lib', 'linear_layer', 'linear_lib',
    'parallel_combination_layer', 'premade', 'premade_lib',
    'pwl_calibration_layer', 'pwl_calibration_lib', 'rtl_layer', 'rtl_lib',
    'utils',
]

EXT_ROOTS = {
    'numpy': 'np', 'tensorflow': 'tf', 'tf_keras': 'keras', 'math': 'math',
    'itertools': 'itertools', 'collections': 'collections', 'copy': 'copy',
    'enum': 'enum', 'six': 'six', 'functools': 'functools', 're': 're',
    'json': 'json', 'absl': 'absl', 'tempfile': 'tempfile', 'os': 'os',
    'inspect': 'inspect', 'random': 'random', 'sys': 'sys', 'time': 'time',
}


class AnalysisError(Exception):
  """The analysis cannot give a verdict (exit 2); never a silent pass."""


def dotted(expr):
  """a.b.c  ->  'a.b.c' ; anything else -> None."""
  parts = []
  while isinstance(expr, ast.Attribute):
    parts.append(expr.attr)
    expr = expr.value
  if isinstance(expr, ast.Name):
    parts.append(expr.id)
    return '.'.join(reversed(parts))
  return None


def unparse(node):
  try:
    return ast.unparse(node)
  except Exception:  # pragma: no cover
    return '<%s>' % type(node).__name__


def norm_text(node):
  """Normalised one-line text of a node (used in finding keys/samples)."""
  return ' '.join(unparse(node).split())


def const_value(node, default=None):
  if isinstance(node, ast.Constant):
    return node.value
  if (isinstance(node, ast.UnaryOp) and isinstance(node.op, ast.USub)
      and isinstance(node.operand, ast.Constant)
      and isinstance(node.operand.value, (int, float))):
    return -node.operand.value
  return default


def is_none(node):
  return isinstance(node, ast.Constant) and node.value is None


def walk_no_nested_defs(node):
  """ast.walk that does not descend into nested function/class/lambda bodies
  (the node itself is always yielded)."""
  stack = [node]
  first = True
  while stack:
    n = stack.pop()
    if not first and isinstance(
        n, (ast.FunctionDef, ast.AsyncFunctionDef, ast.ClassDef, ast.Lambda)):
      yield n
      continue
    first = False
    yield n
    stack.extend(reversed(list(ast.iter_child_nodes(n))))


class FunctionInfo(object):

  def __init__(self, module, node, cls=None, parent=None):
    self.module = module
    self.node = node
    self.cls = cls
    self.parent = parent  # enclosing FunctionInfo for nested defs
    self.name = node.name
    a = node.args
    self.posonly = [x.arg for x in a.posonlyargs]
    self.params = [x.arg for x in a.posonlyargs + a.args]
    self.kwonly = [x.arg for x in a.kwonlyargs]
    self.vararg = a.vararg.arg if a.vararg else None
    self.kwarg = a.kwarg.arg if a.kwarg else None
    self.defaults = {}
    pos = a.posonlyargs + a.args
    for p, d in zip(pos[len(pos) - len(a.defaults):], a.defaults):
      self.defaults[p.arg] = d
    for p, d in zip(a.kwonlyargs, a.kw_defaults):
      if d is not None:
        self.defaults[p.arg] = d

  @property
  def qualname(self):
    if self.cls is not None:
      return '%s.%s.%s' % (self.module.name, self.cls.name, self.name)
    if self.parent is not None:
      return '%s.<locals>.%s' % (self.parent.qualname, self.name)
    return '%s.%s' % (self.module.name, self.name)

  @property
  def all_params(self):
    """Named parameters excluding self/cls."""
    ps = self.params + self.kwonly
    if self.cls is not None and ps and ps[0] in ('self', 'cls'):
      if not self.is_static:
        ps = ps[1:]
    return ps

  @property
  def is_static(self):
    for d in self.node.decorator_list:
      if dotted(d) == 'staticmethod':
        return True
    return False

  @property
  def is_classmethod(self):
    for d in self.node.decorator_list:
      if dotted(d) == 'classmethod':
        return True
    return False

  def loc(self, node=None):
    n = node if node is not None else self.node
    return '%s:%d' % (self.module.relpath, getattr(n, 'lineno', 0))

  def __repr__(self):
    return '<fn %s>' % self.qualname


KIND_BY_BASE = {
    'keras.layers.Layer': 'Layer',
    'keras.models.Model': 'Model',
    'keras.Model': 'Model',
    'keras.constraints.Constraint': 'Constraint',
    'keras.initializers.Initializer': 'Initializer',
    'keras.regularizers.Regularizer': 'Regularizer',
    'enum.Enum': 'Enum',
    'object': 'object',
}


class ClassInfo(object):

  def __init__(self, module, node):
    self.module = module
    self.node = node
    self.name = node.name
    self.base_names = [dotted(b) or unparse(b) for b in node.bases]
    self.methods = {}
    self.class_attrs = {}
    for st in node.body:
      if isinstance(st, ast.FunctionDef):
        self.methods[st.name] = FunctionInfo(module, st, cls=self)
      elif isinstance(st, ast.Assign):
        for t in st.targets:
          if isinstance(t, ast.Name):
            self.class_attrs[t.id] = st.value
    self.bases = []  # resolved ClassInfo bases (filled by Program)
    self.kind = None

  @property
  def qualname(self):
    return '%s.%s' % (self.module.name, self.name)

  def mro(self):
    out, seen, todo = [], set(), [self]
    while todo:
      c = todo.pop(0)
      if id(c) in seen:
        continue
      seen.add(id(c))
      out.append(c)
      todo.extend(c.bases)
    return out

  def find_method(self, name):
    for c in self.mro():
      if name in c.methods:
        return c.methods[name]
    return None

  def loc(self, node=None):
    n = node if node is not None else self.node
    return '%s:%d' % (self.module.relpath, getattr(n, 'lineno', 0))

  def __repr__(self):
    return '<class %s>' % self.qualname


def _is_literal(e):
  if isinstance(e, ast.Constant):
    return True
  if isinstance(e, ast.UnaryOp) and isinstance(e.op, (ast.USub, ast.UAdd)) \
      and isinstance(e.operand, ast.Constant):
    return True
  return False


_FLIP = {ast.Lt: ast.Gt, ast.Gt: ast.Lt, ast.LtE: ast.GtE, ast.GtE: ast.LtE,
         ast.Eq: ast.Eq, ast.NotEq: ast.NotEq}


# names for which tf.math.X / tf.nn.X / tf.linalg.X is the very same object as
# tf.X (computed once from the installed TensorFlow: `getattr(tf, n) is
# getattr(tf.math, n)`); the short spelling is the normal form
_TF_SAME = {
    'math': {'abs', 'acos', 'acosh', 'add', 'add_n', 'argmax', 'argmin',
             'asin', 'asinh', 'atan', 'atan2', 'atanh', 'cos', 'cosh',
             'cumsum', 'divide', 'equal', 'exp', 'floor', 'greater',
             'greater_equal', 'less', 'less_equal', 'logical_and',
             'logical_not', 'logical_or', 'maximum', 'minimum', 'multiply',
             'negative', 'not_equal', 'pow', 'reduce_all', 'reduce_any',
             'reduce_logsumexp', 'reduce_max', 'reduce_mean', 'reduce_min',
             'reduce_prod', 'reduce_sum', 'round', 'scalar_mul', 'sigmoid',
             'sign', 'sin', 'sinh', 'sqrt', 'square', 'subtract', 'tan',
             'tanh', 'truediv'},
    'nn': {'sigmoid', 'tanh'},
    'linalg': {'einsum', 'eye', 'matmul', 'norm', 'tensordot'},
}
# tf.math.X that is the same object as tf.nn.X: the tf.nn spelling is kept
_TF_MATH_IS_NN = {'softmax', 'softplus', 'log_softmax', 'top_k', 'softsign',
                  'l2_normalize', 'in_top_k'}


_NEG_CMP = {ast.Eq: ast.NotEq, ast.NotEq: ast.Eq, ast.Is: ast.IsNot,
            ast.IsNot: ast.Is, ast.In: ast.NotIn, ast.NotIn: ast.In,
            ast.Lt: ast.GtE, ast.GtE: ast.Lt, ast.Gt: ast.LtE, ast.LtE: ast.Gt}
_NEGATIVE_CMP = (ast.NotEq, ast.IsNot, ast.NotIn, ast.GtE, ast.LtE)


def _is_negative_test(t):
  if isinstance(t, ast.UnaryOp) and isinstance(t.op, ast.Not):
    return True
  return isinstance(t, ast.Compare) and len(t.ops) == 1 and isinstance(
      t.ops[0], _NEGATIVE_CMP)


def _negate(t):
  """the negation of a test, with the negation folded into comparisons and
  pushed through and / or"""
  import copy
  if isinstance(t, ast.UnaryOp) and isinstance(t.op, ast.Not):
    return t.operand
  if isinstance(t, ast.Compare) and len(t.ops) == 1 and type(
      t.ops[0]) in _NEG_CMP:
    n = copy.copy(t)
    n.ops = [_NEG_CMP[type(t.ops[0])]()]
    return n
  if isinstance(t, ast.BoolOp):
    return ast.copy_location(ast.BoolOp(
        op=ast.Or() if isinstance(t.op, ast.And) else ast.And(),
        values=[_negate(v) for v in t.values]), t)
  return ast.copy_location(ast.UnaryOp(op=ast.Not(), operand=t), t)


def _same_text(a, b):
  return ast.dump(a).replace('Store()', 'Load()') == ast.dump(b).replace(
      'Store()', 'Load()')


class _Spelling(ast.NodeTransformer):
  """Spellings that denote the same program:
    tf.math.maximum / tf.nn.sigmoid ...  -> tf.maximum / tf.sigmoid (aliases
      of one object);
    isinstance(x, A) or isinstance(x, B) -> isinstance(x, (A, B));
    x = x - y  ->  x -= y : the augmented form is the normal form, except
      with a list display on the right: `x += [..]` extends a list in place
      (aliases see it) while `x = x + [..]` builds a new one - those two are
      different programs and both are left as written;
    `if c: ...; return/raise  else: B` -> `if c: ...; return/raise` followed
      by B (early-return form; an else after a terminated arm is only
      layout)."""

  @staticmethod
  def _terminated(body):
    return bool(body) and isinstance(
        body[-1], (ast.Return, ast.Raise, ast.Continue, ast.Break))

  @staticmethod
  def _size(stmts):
    return sum(1 for st in stmts for _ in ast.walk(st))

  @staticmethod
  def _merge_same_test(body):
    """if c: A1 else: B1 ; if c: A2 else: B2  ->  if c: A1; A2 else: B1; B2
    when the first statement cannot change c (nothing it assigns, and no
    container it changes in place, is read by the test), no arm leaves the
    block and neither is an elif chain"""
    out = []
    for s in body:
      p = out[-1] if out else None
      if isinstance(s, ast.If) and isinstance(p, ast.If) and ast.dump(
          s.test) == ast.dump(p.test) and not any(
              len(x.orelse) == 1 and isinstance(x.orelse[0], ast.If)
              for x in (s, p)) and bool(s.orelse) == bool(p.orelse):
        reads = {n.id for n in ast.walk(p.test) if isinstance(n, ast.Name)}
        touched = set()
        leaves = False
        calls = False
        for x in ast.walk(p):
          if isinstance(x, ast.Name) and isinstance(x.ctx, (ast.Store,
                                                            ast.Del)):
            touched.add(x.id)
          if isinstance(x, (ast.Attribute, ast.Subscript)) and isinstance(
              x.ctx, (ast.Store, ast.Del)):
            root = x
            while isinstance(root, (ast.Attribute, ast.Subscript)):
              root = root.value
            if isinstance(root, ast.Name):
              touched.add(root.id)
          if isinstance(x, (ast.Return, ast.Raise, ast.Continue, ast.Break)):
            leaves = True
        if not (reads & touched) and not leaves and not any(
            isinstance(x, ast.Call) for x in ast.walk(p.test)):
          p.body = p.body + s.body
          p.orelse = p.orelse + s.orelse
          continue
      out.append(s)
    return out

  def _flatten(self, body, in_chain=False):
    """early-return form.  When exactly one arm of an if leaves the block
    (return / raise / continue / break) that arm becomes the guard; when both
    do - written as if / else or as a guard followed by the rest of the block
    - the smaller arm is the guard (ties: the positive test), so that the
    form does not depend on which of the two spellings was used."""
    out = []
    todo = list(body)
    while todo:
      s = todo.pop(0)
      if not isinstance(s, ast.If):
        out.append(s)
        continue
      a_term = self._terminated(s.body)
      # (a guard followed by the rest of the block is left as written: only
      # real two-armed ifs are re-oriented, which makes them agree with the
      # guard spelling whenever the guard is the smaller arm - the usual case)
      b, virtual = (s.orelse, False) if s.orelse else ([], False)
      b_term = bool(b) and self._terminated(b)
      # an if that continues with elif, or is itself the elif arm of a
      # chain, is a dispatch: its arms keep their order
      is_elif = in_chain or (len(s.orelse) == 1 and isinstance(
          s.orelse[0], ast.If))
      swap = False
      if in_chain and s.orelse and not (len(s.orelse) == 1 and isinstance(
          s.orelse[0], ast.If)) and (a_term or b_term) and \
          _is_negative_test(s.test):
        # last arm of an elif chain: polarity decides (positive test first)
        s.test = _negate(s.test)
        s.body, s.orelse = s.orelse, s.body
        a_term, b_term = b_term, a_term
        b = s.orelse
      if a_term and b_term and not is_elif:
        sa, sb = self._size(s.body), self._size(b)
        swap = sb < sa or (sb == sa and _is_negative_test(s.test))
      elif b_term and not a_term and s.orelse and not is_elif:
        swap = True
      if swap:
        guard, rest = list(b), list(s.body)
        s.test = _negate(s.test)
        s.body = guard
        s.orelse = []
        out.append(s)
        todo = rest + ([] if virtual else todo)
      elif s.orelse and a_term:
        rest = s.orelse
        s.orelse = []
        out.append(s)
        todo = list(rest) + todo
      else:
        out.append(s)
    return out

  def generic_visit(self, n):
    super().generic_visit(n)
    for f in ('body', 'orelse', 'finalbody'):
      b = getattr(n, f, None)
      if isinstance(b, list) and b and isinstance(b[0], ast.stmt):
        b = [y for st in b for y in self._split_chain(st)]
        b = [y for st in b for y in self._ifexp_assign(st)]
        chain = f == 'orelse' and isinstance(n, ast.If) and len(b) == 1 and \
            isinstance(b[0], ast.If)
        setattr(n, f, self._merge_same_test(self._flatten(b, in_chain=chain)))
    return n

  def visit_Attribute(self, n):
    self.generic_visit(n)
    v = n.value
    if isinstance(v, ast.Attribute) and isinstance(v.value, ast.Name) and \
        v.value.id == 'tf':
      if n.attr in _TF_SAME.get(v.attr, ()):
        return ast.copy_location(
            ast.Attribute(value=v.value, attr=n.attr, ctx=n.ctx), n)
      if v.attr == 'math' and n.attr in _TF_MATH_IS_NN:
        v.attr = 'nn'
    return n

  def visit_BoolOp(self, n):
    self.generic_visit(n)
    if isinstance(n.op, ast.Or):
      out = []
      for v in n.values:
        if self._isinst(v) and out and self._isinst(out[-1]) and _same_text(
            v.args[0], out[-1].args[0]):
          prev = out[-1]
          types = self._types(prev) + self._types(v)
          prev.args[1] = ast.copy_location(
              ast.Tuple(elts=types, ctx=ast.Load()), prev.args[1])
        else:
          out.append(v)
      if len(out) == 1:
        return out[0]
      n.values = out
    return n

  @staticmethod
  def _isinst(v):
    return isinstance(v, ast.Call) and isinstance(v.func, ast.Name) and \
        v.func.id == 'isinstance' and len(v.args) == 2 and not v.keywords

  @staticmethod
  def _types(c):
    t = c.args[1]
    return list(t.elts) if isinstance(t, ast.Tuple) else [t]

  @staticmethod
  def _seq_display(e):
    return isinstance(e, (ast.List, ast.ListComp))

  _numpy_depth = 0

  def visit_FunctionDef(self, n):
    # numpy code: `a = a / b` builds a new array (float result, the caller's
    # array untouched) while `a /= b` divides IN PLACE (fails for an integer
    # array, mutates the caller's data): different programs, left as written
    uses_np = any(isinstance(x, ast.Attribute) and isinstance(
        x.value, ast.Name) and x.value.id == 'np' for x in ast.walk(n))
    if uses_np:
      self._numpy_depth += 1
    try:
      return self.generic_visit(n)
    finally:
      if uses_np:
        self._numpy_depth -= 1

  def visit_Assign(self, n):
    self.generic_visit(n)
    if self._numpy_depth == 0 and len(n.targets) == 1 and isinstance(
        n.targets[0], (ast.Name, ast.Subscript, ast.Attribute)) and \
        isinstance(n.value, ast.BinOp) and _same_text(
            n.targets[0], n.value.left) and not self._seq_display(
                n.value.right):
      return ast.copy_location(
          ast.AugAssign(target=n.targets[0], op=n.value.op,
                        value=n.value.right), n)
    return n

  @staticmethod
  def _unreversed(it):
    """reversed(x) as the iterable of a loop is x[::-1]"""
    if isinstance(it, ast.Call) and isinstance(it.func, ast.Name) and \
        it.func.id == 'reversed' and len(it.args) == 1 and not it.keywords:
      return ast.copy_location(ast.Subscript(
          value=it.args[0], slice=ast.Slice(
              lower=None, upper=None, step=ast.UnaryOp(
                  op=ast.USub(), operand=ast.Constant(value=1))),
          ctx=ast.Load()), it)
    return it

  def visit_For(self, n):
    n.iter = self._unreversed(n.iter)
    return self.generic_visit(n)

  def visit_comprehension(self, n):
    n.iter = self._unreversed(n.iter)
    return self.generic_visit(n)

  def visit_Subscript(self, n):
    # x[0:k] is x[:k]
    self.generic_visit(n)
    sl = n.slice
    parts = sl.elts if isinstance(sl, ast.Tuple) else [sl]
    for p_ in parts:
      if isinstance(p_, ast.Slice) and isinstance(
          p_.lower, ast.Constant) and p_.lower.value == 0 and type(
              p_.lower.value) is int:
        p_.lower = None
    return n

  def visit_Call(self, n):
    self.generic_visit(n)
    # (A if c else B)(args) -> A(args) if c else B(args)
    if isinstance(n.func, ast.IfExp):
      import copy
      f = n.func
      return ast.copy_location(ast.IfExp(
          test=f.test,
          body=ast.copy_location(ast.Call(
              func=f.body, args=n.args, keywords=n.keywords), n),
          orelse=ast.copy_location(ast.Call(
              func=f.orelse, args=copy.deepcopy(n.args),
              keywords=copy.deepcopy(n.keywords)), n)), n)
    return n

  @staticmethod
  def _ifexp_assign(st):
    """x = A if c else B  ->  if c: x = A  else: x = B ;
    return A if c else B  ->  if c: return A  else: return B"""
    import copy
    if isinstance(st, (ast.Assign, ast.Return)) and isinstance(
        st.value, ast.IfExp):
      v = st.value
      if isinstance(st, ast.Assign):
        a = ast.Assign(targets=st.targets, value=v.body)
        b = ast.Assign(targets=copy.deepcopy(st.targets), value=v.orelse)
      else:
        a = ast.Return(value=v.body)
        b = ast.Return(value=v.orelse)
      ast.copy_location(a, st)
      ast.copy_location(b, st)
      out = []
      for arm in (a, b):
        out.append(_Spelling._ifexp_assign(arm))
      return [ast.copy_location(ast.If(test=v.test, body=out[0],
                                       orelse=out[1]), st)]
    # xs.append(A if c else B)  ->  if c: xs.append(A)  else: xs.append(B)
    # (a call statement on a plain name / attribute path whose only argument
    # is the conditional expression)
    if isinstance(st, ast.Expr) and isinstance(st.value, ast.Call) and \
        dotted(st.value.func) and len(st.value.args) == 1 and \
        not st.value.keywords and isinstance(st.value.args[0], ast.IfExp):
      v = st.value.args[0]
      arms = []
      for val in (v.body, v.orelse):
        c = ast.Call(func=copy.deepcopy(st.value.func), args=[val],
                     keywords=[])
        e = ast.Expr(value=ast.copy_location(c, st.value))
        ast.copy_location(e, st)
        arms.append(_Spelling._ifexp_assign(e))
      return [ast.copy_location(ast.If(test=v.test, body=arms[0],
                                       orelse=arms[1]), st)]
    return [st]

  @staticmethod
  def _split_chain(st):
    """x = f(g(x, a), b) -> x = g(x, a); x = f(x, b)  (the outer arguments
    must not read x)"""
    if not (isinstance(st, ast.Assign) and len(st.targets) == 1 and
            isinstance(st.targets[0], ast.Name) and isinstance(
                st.value, ast.Call)):
      return [st]
    x = st.targets[0].id
    outer = st.value
    if not (outer.args and isinstance(outer.args[0], ast.Call)):
      return [st]
    inner = outer.args[0]
    if not (inner.args and (
        (isinstance(inner.args[0], ast.Name) and inner.args[0].id == x) or
        isinstance(inner.args[0], ast.Call))):
      return [st]
    # the chain must bottom out in x
    cur = inner
    while isinstance(cur, ast.Call) and cur.args:
      cur = cur.args[0]
    if not (isinstance(cur, ast.Name) and cur.id == x):
      return [st]
    rest = list(outer.args[1:]) + [k.value for k in outer.keywords]
    if any(isinstance(m, ast.Name) and m.id == x
           for r in rest for m in ast.walk(r)):
      return [st]
    if any(isinstance(m, ast.Name) and m.id == x
           for m in ast.walk(outer.func)):
      return [st]
    first = ast.copy_location(ast.Assign(
        targets=[ast.Name(id=x, ctx=ast.Store())], value=inner), st)
    outer.args[0] = ast.copy_location(ast.Name(id=x, ctx=ast.Load()), inner)
    return _Spelling._split_chain(first) + [st]

  def visit_AugAssign(self, n):
    # `x += [..]` is NOT rewritten to `x = x + [..]`: on a list the augmented
    # form extends the object in place (visible through every alias, e.g. the
    # caller's hyper-parameter list), the binary form builds a new list
    self.generic_visit(n)
    return n


def orelse_view(fn_node):
  """orelse_of(if_node): the else branch of an If in the normal form, where
  `if c: ...; return` followed by B is the spelling of `if c: ... return
  else: B`: the real orelse if there is one, otherwise - when the body always
  leaves (return / raise / continue / break) - the statements that follow the
  If in its block.  Rules that walk if / elif / else chains use this instead
  of `.orelse`."""
  where = {}
  owner_of = {}
  for n in ast.walk(fn_node):
    for f in ('body', 'orelse', 'finalbody'):
      b = getattr(n, f, None)
      if isinstance(b, list):
        for i, st in enumerate(b):
          where[id(st)] = (b, i)
          owner_of[id(st)] = n

  def orelse_of(n):
    if n.orelse:
      return n.orelse
    if n.body and isinstance(n.body[-1], (ast.Return, ast.Raise, ast.Continue,
                                          ast.Break)) and id(n) in where:
      b, i = where[id(n)]
      rest = b[i + 1:]
      # the last statement of an if-body falls through to what follows that
      # if: `if a: if b: return X` + `raise` has the raise as its else
      cur = n
      while not rest and isinstance(owner_of.get(id(cur)), ast.If) and \
          id(owner_of[id(cur)]) in where:
        cur = owner_of[id(cur)]
        b2, i2 = where[id(cur)]
        rest = b2[i2 + 1:]
      return rest
    return []

  def next_arm(n):
    """the If that continues the chain after n (elif), or None"""
    oe = orelse_of(n)
    if oe and isinstance(oe[0], ast.If) and (len(oe) == 1 or not n.orelse):
      return oe[0]
    return None

  def chain(head):
    """(arms, else_body) of the if / elif chain that starts at head"""
    arms = [head]
    while next_arm(arms[-1]) is not None:
      arms.append(next_arm(arms[-1]))
    return arms, orelse_of(arms[-1])

  orelse_of.next_arm = next_arm
  orelse_of.chain = chain
  return orelse_of


def conditional_def(fn_node, name):
  """(test, value if true, value if false) when `name` is defined by
  `if test: name = A  else: name = B` (the normal form of
  `name = A if test else B`), taking the last such definition; else None"""
  found = None
  for st in ast.walk(fn_node):
    if isinstance(st, ast.If) and len(st.body) == 1 and len(st.orelse) == 1 \
        and all(isinstance(a, ast.Assign) and len(a.targets) == 1 and
                dotted(a.targets[0]) == name
                for a in (st.body[0], st.orelse[0])):
      found = (st.test, st.body[0].value, st.orelse[0].value)
    elif isinstance(st, ast.Assign) and len(st.targets) == 1 and dotted(
        st.targets[0]) == name and isinstance(st.value, ast.IfExp):
      found = (st.value.test, st.value.body, st.value.orelse)
  return found


def fold_ifexp(st):
  """`if c: x = A  else: x = B` (the normal form) as the single statement
  `x = A if c else B`, for evaluators that want the value as one expression;
  other statements are returned unchanged"""
  if isinstance(st, ast.If) and len(st.body) == 1 and len(st.orelse) == 1:
    a, b = fold_ifexp(st.body[0]), fold_ifexp(st.orelse[0])
    if all(isinstance(x, ast.Assign) and len(x.targets) == 1
           for x in (a, b)) and _same_text(a.targets[0], b.targets[0]):
      new = ast.Assign(targets=a.targets, value=ast.copy_location(ast.IfExp(
          test=st.test, body=a.value, orelse=b.value), st), type_comment=None)
      return ast.copy_location(new, st)
    if all(isinstance(x, ast.Return) for x in (a, b)):
      return ast.copy_location(ast.Return(value=ast.copy_location(ast.IfExp(
          test=st.test, body=a.value, orelse=b.value), st)), st)
  return st


def stmts_in_order(node):
  """the statements below node in execution (document) order of the normal
  form - NOT by line number: statements inlined from a helper keep the
  helper's line numbers"""
  out = []

  def walk(n):
    for f in ('body', 'orelse', 'handlers', 'finalbody'):
      for s in getattr(n, f, []) or []:
        if isinstance(s, ast.stmt):
          out.append(s)
        walk(s)
  walk(node)
  return out


def straightline_value(fn_node):
  """value_of(expr): expr with every *straight-line local* replaced by its
  definition.  A straight-line local occurs only in simple top-level
  statements of the function body (plain assignments to a Name, the final
  return, expression statements) - never inside a compound statement, a
  nested function, a subscript / attribute store or an augmented assignment -
  so each read sees exactly the assignment before it.  Rules that decide what
  VALUE reaches a call read through this view; how many temporaries the value
  passes through, and what they are called, does not matter."""
  import copy as _copy
  body = fn_node.body
  compound = set()
  for st in body:
    simple = isinstance(st, (ast.Return, ast.Expr)) or (
        isinstance(st, ast.Assign) and len(st.targets) == 1 and isinstance(
            st.targets[0], ast.Name))
    if not simple:
      for n in ast.walk(st):
        if isinstance(n, ast.Name):
          compound.add(n.id)
        elif isinstance(n, ast.arg):
          compound.add(n.arg)
    else:
      for n in ast.walk(st):
        if isinstance(n, (ast.Lambda, ast.ListComp, ast.SetComp, ast.DictComp,
                          ast.GeneratorExp)):
          for m in ast.walk(n):
            if isinstance(m, ast.Name) and isinstance(m.ctx, ast.Store):
              compound.add(m.id)
  params = {a.arg for a in ast.walk(fn_node.args) if isinstance(a, ast.arg)}

  class Sub(ast.NodeTransformer):
    def __init__(self, env):
      self.env = env

    def visit_Name(self, n):
      if isinstance(n.ctx, ast.Load) and n.id in self.env:
        return _copy.deepcopy(self.env[n.id])
      return n
  env = {}
  at = {}
  for st in body:
    at[id(st)] = dict(env)
    if isinstance(st, ast.Assign) and len(st.targets) == 1 and isinstance(
        st.targets[0], ast.Name):
      nm = st.targets[0].id
      if nm in compound or nm in params:
        env.pop(nm, None)
        continue
      env[nm] = Sub(env).visit(_copy.deepcopy(st.value))
  final = dict(env)

  def value_of(expr, stmt=None):
    e = at.get(id(stmt), final) if stmt is not None else final
    return Sub(e).visit(_copy.deepcopy(expr))
  return value_of


def expand_aug(st):
  """`x op= y` as the equivalent `x = x op y` statement (a synthesised
  ast.Assign with the position of the original); other statements are
  returned unchanged.  For rules that tabulate the defining expressions of a
  name."""
  if not isinstance(st, ast.AugAssign):
    return st
  import copy
  load = copy.deepcopy(st.target)
  load.ctx = ast.Load()
  new = ast.Assign(targets=[st.target], value=ast.copy_location(
      ast.BinOp(left=load, op=st.op, right=st.value), st), type_comment=None)
  new = ast.copy_location(new, st)
  new._aug = st
  return new


class _Unroll(ast.NodeTransformer):
  """for x in (c1, c2): B   ->   B[x := c1]; B[x := c2]

  for a loop over a short display of literals (at most 4 elements, each a
  literal or a tuple of literals), without break / else, whose variables are
  not re-assigned in the body.  A guard `if c: continue` at the top level of
  the body becomes `if not c: <rest of the body>`.  String formatting of the
  substituted constants is folded ('K_%d' % 0 -> 'K_0').  Two copies of a
  block and a loop over their differences are the same program."""

  MAX_ELEMS = 4
  MAX_BODY = 30

  def __init__(self, known_iters=(), known_targets=()):
    # loops the reference function has itself are part of its shape: only
    # loops it does not have are unrolled (inventory-relative, see inline.py)
    self.known_iters = set(known_iters)
    # a loop with the target of a reference loop over a display IS that
    # reference loop, possibly with a changed display (an element dropped or
    # added is a change of behaviour the rules must see as a loop)
    self.known_targets = set(known_targets)

  def _literal(self, e):
    """a literal, a plain name / dotted attribute (read once when the display
    is built; visit_For checks that the body does not re-bind it), or a tuple
    of those"""
    if isinstance(e, ast.Tuple):
      return all(self._literal(x) for x in e.elts)
    if isinstance(e, ast.Name) or (isinstance(e, ast.Attribute) and dotted(e)):
      return True
    try:
      ast.literal_eval(e)
      return True
    except (ValueError, SyntaxError, TypeError):
      return False

  def _structure_continues(self, body):
    out = []
    for i, st in enumerate(body):
      if isinstance(st, ast.If) and not st.orelse and len(st.body) == 1 and \
          isinstance(st.body[0], ast.Continue):
        rest = self._structure_continues(body[i + 1:])
        if rest is None:
          return None
        if rest:
          out.append(ast.copy_location(ast.If(
              test=_negate(st.test), body=rest, orelse=[]), st))
        return out
      if any(isinstance(x, (ast.Continue, ast.Break)) for x in ast.walk(st)):
        return None
      out.append(st)
    return out

  def visit_For(self, n):
    self.generic_visit(n)
    it = n.iter
    if ast.unparse(it) in self.known_iters:
      return n
    if ast.unparse(n.target) in self.known_targets:
      return n
    if n.orelse or not isinstance(it, (ast.Tuple, ast.List)) or not (
        1 < len(it.elts) <= self.MAX_ELEMS) or not all(
            self._literal(e) for e in it.elts):
      return n
    if isinstance(n.target, ast.Name):
      names = [n.target.id]
    elif isinstance(n.target, ast.Tuple) and all(
        isinstance(t, ast.Name) for t in n.target.elts):
      names = [t.id for t in n.target.elts]
      if not all(isinstance(e, ast.Tuple) and len(e.elts) == len(names)
                 for e in it.elts):
        return n
    else:
      return n
    if sum(1 for st in n.body for _ in ast.walk(st)) > 40 * self.MAX_BODY:
      return n
    read = {x.id for x in ast.walk(it) if isinstance(x, ast.Name)}
    read_attrs = {x.attr for x in ast.walk(it) if isinstance(x, ast.Attribute)}
    for st in n.body:
      for x in ast.walk(st):
        if isinstance(x, ast.Name) and x.id in names and isinstance(
            x.ctx, (ast.Store, ast.Del)):
          return n
        # the display is evaluated once: what it reads must not change
        if isinstance(x, ast.Name) and x.id in read and isinstance(
            x.ctx, (ast.Store, ast.Del)):
          return n
        if isinstance(x, ast.Attribute) and x.attr in read_attrs and \
            isinstance(x.ctx, (ast.Store, ast.Del)):
          return n
        if read_attrs and isinstance(x, ast.Call):
          return n          # a call may re-bind an attribute that is read
        if isinstance(x, (ast.Lambda, ast.FunctionDef)):
          return n          # late binding of the loop variable
    body = self._structure_continues(n.body)
    if body is None:
      return n
    import copy
    out = []
    for e in it.elts:
      vals = [e] if len(names) == 1 else list(e.elts)
      mapping = dict(zip(names, vals))

      class _S(ast.NodeTransformer):
        def visit_Name(self_, x):
          if x.id in mapping and isinstance(x.ctx, ast.Load):
            return ast.copy_location(copy.deepcopy(mapping[x.id]), x)
          return x
      for st in body:
        out.append(_fold_format(_S().visit(copy.deepcopy(st))))
    return out


def _fold_format(node):
  """'%d' % 3, '{}'.format(3), f'{3}' with literal operands -> the string"""
  class _F(ast.NodeTransformer):
    def visit_BinOp(self, b):
      self.generic_visit(b)
      if isinstance(b.op, ast.Mod) and isinstance(
          b.left, ast.Constant) and isinstance(b.left.value, str):
        try:
          return ast.copy_location(ast.Constant(
              value=b.left.value % ast.literal_eval(b.right)), b)
        except (ValueError, SyntaxError, TypeError):
          pass
      # integer arithmetic on the substituted constants: 0 + 2 -> 2
      if isinstance(b.op, (ast.Add, ast.Sub, ast.Mult)) and all(
          isinstance(x, ast.Constant) and type(x.value) is int
          for x in (b.left, b.right)):
        l, r = b.left.value, b.right.value
        v = l + r if isinstance(b.op, ast.Add) else (
            l - r if isinstance(b.op, ast.Sub) else l * r)
        return ast.copy_location(ast.Constant(value=v), b)
      return b

    def visit_Call(self, c):
      self.generic_visit(c)
      if isinstance(c.func, ast.Attribute) and c.func.attr == 'format' and \
          isinstance(c.func.value, ast.Constant) and isinstance(
              c.func.value.value, str) and not c.keywords:
        try:
          return ast.copy_location(ast.Constant(value=c.func.value.value.format(
              *[ast.literal_eval(a) for a in c.args])), c)
        except (ValueError, SyntaxError, TypeError, IndexError, KeyError):
          pass
      return c

    def visit_JoinedStr(self, j):
      self.generic_visit(j)
      try:
        parts = []
        for v in j.values:
          if isinstance(v, ast.Constant):
            parts.append(str(v.value))
          elif isinstance(v, ast.FormattedValue) and v.conversion == -1 and \
              v.format_spec is None:
            parts.append(format(ast.literal_eval(v.value)))
          else:
            return j
        return ast.copy_location(ast.Constant(value=''.join(parts)), j)
      except (ValueError, SyntaxError, TypeError):
        return j
  return _F().visit(node)


def canonicalise(tree):
  """Behaviour-preserving normal form applied to every module before any rule
  reads it, so that no rule depends on the spelling: keyword arguments of a
  call are ordered by name, and a comparison with a literal on the left
  (`0 == x`, `1 < n`) is turned round (`x == 0`, `n > 1`); for == / != between
  two non-literals the operands are ordered by their text.  Positions are
  kept."""
  _NEG = {ast.Eq: ast.NotEq, ast.NotEq: ast.Eq, ast.Is: ast.IsNot,
          ast.IsNot: ast.Is, ast.In: ast.NotIn, ast.NotIn: ast.In,
          ast.Lt: ast.GtE, ast.GtE: ast.Lt, ast.Gt: ast.LtE, ast.LtE: ast.Gt}

  def strip_not(t):
    """(positive test, negated?) with `not <compare>` folded into the
    comparison operator"""
    neg = False
    while isinstance(t, ast.UnaryOp) and isinstance(t.op, ast.Not):
      t = t.operand
      neg = not neg
    if neg and isinstance(t, ast.Compare) and len(t.ops) == 1 and type(
        t.ops[0]) in _NEG:
      t.ops = [_NEG[type(t.ops[0])]()]
      neg = False
    return t, neg

  class _Polarity(ast.NodeTransformer):
    """`if not c: A else: B` -> `if c: B else: A` (two-armed ifs that are
    not elif chains), `a if not c else b` -> `b if c else a`, and
    `not x == y` -> `x != y` everywhere."""

    def visit_UnaryOp(self, n):
      self.generic_visit(n)
      if isinstance(n.op, ast.Not):
        t, neg = strip_not(n)
        if not neg:
          return ast.copy_location(t, n)
        if isinstance(t, ast.BoolOp):
          # De Morgan: not (a and b) -> not a or not b (negations folded)
          vals = []
          for v in t.values:
            nv = ast.copy_location(ast.UnaryOp(op=ast.Not(), operand=v), v)
            vals.append(self.visit_UnaryOp(nv))
          return ast.copy_location(ast.BoolOp(
              op=ast.Or() if isinstance(t.op, ast.And) else ast.And(),
              values=vals), n)
        if t is not n.operand:
          n.operand = t
      return n

    @staticmethod
    def _peel(t):
      neg = False
      while isinstance(t, ast.UnaryOp) and isinstance(t.op, ast.Not):
        t = t.operand
        neg = not neg
      return t, neg

    _NEGATIVE = (ast.NotEq, ast.IsNot, ast.NotIn, ast.GtE, ast.LtE)

    def _positive(self, t):
      """(test, swapped?): a two-armed conditional never tests with `not`,
      nor with a single != / is not / not in / >= / <= comparison (the
      arms are swapped and the operator negated instead)"""
      t, neg = self._peel(t)
      if isinstance(t, ast.Compare) and len(t.ops) == 1 and isinstance(
          t.ops[0], self._NEGATIVE):
        t.ops = [_NEG[type(t.ops[0])]()]
        neg = not neg
      return t, neg

    def visit_If(self, n):
      # the arms are swapped BEFORE negations are folded into comparison
      # operators, so that `if not x in s: A else: B` and
      # `if x in s: B else: A` get the same normal form
      def leaves(b):
        return bool(b) and isinstance(b[-1], (ast.Return, ast.Raise,
                                              ast.Continue, ast.Break))
      if n.orelse and not (len(n.orelse) == 1 and isinstance(
          n.orelse[0], ast.If)) and not leaves(n.body) and not leaves(
              n.orelse):
        # (ifs with an arm that leaves the block are oriented by the
        # early-return normal form instead)
        t, neg = self._positive(n.test)
        n.test = t
        if neg:
          n.body, n.orelse = n.orelse, n.body
      self.generic_visit(n)
      return n

    def visit_IfExp(self, n):
      t, neg = self._positive(n.test)
      n.test = t
      if neg:
        n.body, n.orelse = n.orelse, n.body
      self.generic_visit(n)
      return n

  tree = _Polarity().visit(tree)
  tree = _Spelling().visit(tree)
  for n in ast.walk(tree):
    if isinstance(n, ast.Call) and len(n.keywords) > 1 and all(
        k.arg is not None for k in n.keywords):
      n.keywords.sort(key=lambda k: k.arg)
    elif isinstance(n, ast.Compare) and len(n.ops) == 1 and type(
        n.ops[0]) in _FLIP:
      l, r = n.left, n.comparators[0]
      swap = False
      if _is_literal(l) and not _is_literal(r):
        swap = True
      elif isinstance(n.ops[0], (ast.Eq, ast.NotEq)) and not _is_literal(l) \
          and not _is_literal(r):
        # enum-like constants (bct.NONE) on the right; otherwise the simpler
        # operand (name < attribute < subscript < call < anything else) on
        # the left, ties keep the source order
        def rank(e):
          t = ast.unparse(e)
          if isinstance(e, (ast.Name, ast.Attribute)) and t.split('.')[
              -1].isupper():
            return 9
          for i, k in enumerate((ast.Name, ast.Attribute, ast.Subscript,
                                 ast.Call)):
            if isinstance(e, k):
              return i
          return 5
        if rank(l) > rank(r):
          swap = True
      if swap:
        n.left, n.comparators = r, [l]
        n.ops = [_FLIP[type(n.ops[0])]()]
  return tree


class Module(object):

  def __init__(self, name, path, relpath, src):
    self.name = name
    self.path = path
    self.relpath = relpath
    self.src = src
    self.tree = canonicalise(ast.parse(src, filename=path))
    from . import inline
    self.tree = canonicalise(inline.normalise_module(name, self.tree))
    self.aliases = {}     # local name -> ('mod', name) | ('ext', root) | ('sym', mod, name)
    self.functions = {}
    self.classes = {}
    self.constants = {}
    self.nested_functions = []
    self._index()

  def _index(self):
    for st in ast.walk(self.tree):
      if isinstance(st, ast.Import):
        for a in st.names:
          root = a.name.split('.')[0]
          local = a.asname or root
          if a.name.startswith('tensorflow_lattice.python.'):
            self.aliases[a.asname or a.name] = ('mod', a.name.split('.')[-1])
          elif root in EXT_ROOTS:
            if a.asname:
              self.aliases[local] = ('ext', EXT_ROOTS[root] if a.name == root
                                     else a.name)
            else:
              self.aliases[local] = ('ext', EXT_ROOTS[root])
          else:
            self.aliases[local] = ('ext', a.name)
      elif isinstance(st, ast.ImportFrom):
        mod = st.module or ''
        for a in st.names:
          local = a.asname or a.name
          if (st.level > 0 and not mod) or mod == 'tensorflow_lattice.python':
            self.aliases[local] = ('mod', a.name)
          elif st.level > 0 or mod.startswith('tensorflow_lattice.python.'):
            self.aliases[local] = ('sym', mod.split('.')[-1], a.name)
          elif mod == '__future__':
            pass
          else:
            root = mod.split('.')[0]
            self.aliases[local] = ('ext', '%s.%s' % (
                EXT_ROOTS.get(root, root) if mod == root else mod, a.name))
    # the "keras = tf.keras / import tf_keras as keras" idiom
    for st in ast.walk(self.tree):
      if isinstance(st, ast.Assign) and len(st.targets) == 1:
        t = st.targets[0]
        if isinstance(t, ast.Name) and t.id == 'keras':
          self.aliases['keras'] = ('ext', 'keras')
    for st in self.tree.body:
      if isinstance(st, ast.FunctionDef):
        self.functions[st.name] = FunctionInfo(self, st)
      elif isinstance(st, ast.ClassDef):
        self.classes[st.name] = ClassInfo(self, st)
      elif isinstance(st, ast.Assign):
        for t in st.targets:
          if isinstance(t, ast.Name):
            self.constants[t.id] = st.value

  def all_functions(self):
    """Top-level functions, methods and nested defs (with parents)."""
    out = []

    def nested(fi):
      for n in ast.walk(fi.node):
        if n is fi.node:
          continue
        if isinstance(n, ast.FunctionDef):
          # only direct nesting level is attributed; deeper ones get nearest
          pass
      return

    for f in self.functions.values():
      out.append(f)
    for c in self.classes.values():
      out.extend(c.methods.values())
    res = []
    for f in out:
      res.append(f)
      res.extend(self._nested_of(f))
    return res

  def _nested_of(self, fi):
    res = []
    for st in ast.walk(fi.node):
      if st is fi.node:
        continue
      if isinstance(st, ast.FunctionDef):
        par = self._nearest_parent(fi, st)
        if par is fi.node:
          sub = FunctionInfo(self, st, cls=None, parent=fi)
          sub.outer_cls = fi.cls
          res.append(sub)
          res.extend(self._nested_of(sub))
    return res

  @staticmethod
  def _nearest_parent(fi, target):
    # nearest enclosing FunctionDef of target inside fi.node
    best = [None]

    def rec(node, cur):
      for ch in ast.iter_child_nodes(node):
        if ch is target:
          best[0] = cur
          return True
        nxt = ch if isinstance(ch, ast.FunctionDef) else cur
        if rec(ch, nxt):
          return True
      return False

    rec(fi.node, fi.node)
    return best[0]


class Program(object):
  """All non-test modules of tensorflow_lattice/python."""

  def __init__(self, repo_root):
    self.repo_root = repo_root
    self.modules = {}
    pkg = os.path.join(repo_root, PKG_DIR)
    if not os.path.isdir(pkg):
      raise AnalysisError('package directory missing: %s' % pkg)
    for fn in sorted(os.listdir(pkg)):
      if not fn.endswith('.py') or fn.endswith('_test.py'):
        continue
      if fn in ('__init__.py', 'test_utils.py'):
        continue
      name = fn[:-3]
      path = os.path.join(pkg, fn)
      with open(path, encoding='utf-8') as f:
        src = f.read()
      try:
        self.modules[name] = Module(name, path, os.path.join(PKG_DIR, fn), src)
      except SyntaxError as e:
        raise AnalysisError('module %s does not parse: %s' % (fn, e))
    missing = [m for m in REQUIRED_MODULES if m not in self.modules]
    if missing:
      raise AnalysisError('anchored modules missing: %s' % ', '.join(missing))
    self._resolve_classes()

  # -- lookup ------------------------------------------------------------
  def module(self, name):
    if name not in self.modules:
      raise AnalysisError('module %s not found' % name)
    return self.modules[name]

  def function(self, qual):
    """'lattice_lib.project_by_dykstra' or 'lattice_layer.Lattice.build'."""
    parts = qual.split('.')
    m = self.module(parts[0])
    if len(parts) == 2:
      if parts[1] in m.functions:
        return m.functions[parts[1]]
    elif len(parts) == 3:
      c = m.classes.get(parts[1])
      if c is not None and parts[2] in c.methods:
        return c.methods[parts[2]]
    raise AnalysisError('anchor vanished: function %s' % qual)

  def cls(self, qual):
    parts = qual.split('.')
    m = self.module(parts[0])
    if parts[1] in m.classes:
      return m.classes[parts[1]]
    raise AnalysisError('anchor vanished: class %s' % qual)

  def all_classes(self):
    for m in self.modules.values():
      for c in m.classes.values():
        yield c

  def all_functions(self):
    for m in self.modules.values():
      for f in m.all_functions():
        yield f

  # -- resolution --------------------------------------------------------
  def _resolve_classes(self):
    for c in self.all_classes():
      for b in c.base_names:
        r = self.resolve_dotted(c.module, b)
        if isinstance(r, ClassInfo):
          c.bases.append(r)
    for c in self.all_classes():
      c.kind = self._kind(c)

  def _kind(self, c, depth=0):
    for b in c.base_names:
      r = self.resolve_dotted(c.module, b)
      if isinstance(r, ClassInfo):
        if depth < 10:
          k = self._kind(r, depth + 1)
          if k:
            return k
      elif isinstance(r, tuple) and r[0] == 'ext':
        if r[1] in KIND_BY_BASE:
          return KIND_BY_BASE[r[1]]
        last = r[1].split('.')[-1]
        for k, v in KIND_BY_BASE.items():
          if k.split('.')[-1] == last:
            return v
    return None

  def resolve_dotted(self, module, name):
    """Resolve a dotted name used in `module`.

    Returns FunctionInfo | ClassInfo | Module | ('ext', 'tf.reduce_max') |
    ('const', expr) | None.
    """
    if not name:
      return None
    parts = name.split('.')
    head = parts[0]
    cur = None
    if head in module.classes:
      cur = module.classes[head]
    elif head in module.functions:
      cur = module.functions[head]
    elif head in module.aliases:
      al = module.aliases[head]
      if al[0] == 'mod':
        cur = self.modules.get(al[1])
        if cur is None:
          return ('ext', 'tensorflow_lattice.python.' + '.'.join([al[1]] + parts[1:]))
      elif al[0] == 'sym':
        m = self.modules.get(al[1])
        if m is None:
          return None
        cur = self.resolve_dotted(m, al[2])
      else:
        return ('ext', '.'.join([al[1]] + parts[1:]))
    elif head in module.constants:
      cur = ('const', module.constants[head])
    else:
      return None
    for p in parts[1:]:
      if isinstance(cur, Module):
        if p in cur.classes:
          cur = cur.classes[p]
        elif p in cur.functions:
          cur = cur.functions[p]
        elif p in cur.constants:
          cur = ('const', cur.constants[p])
        elif p in cur.aliases:
          cur = self.resolve_dotted(cur, p)
        else:
          return None
      elif isinstance(cur, ClassInfo):
        m = cur.find_method(p)
        if m is not None:
          cur = m
        else:
          found = None
          for c in cur.mro():
            if p in c.class_attrs:
              found = ('classattr', c, p)
              break
          cur = found
          if cur is None:
            return None
      else:
        return None
    return cur

  def ext_name(self, module, expr):
    """Canonical external dotted name of an expression such as tf.maximum,
    or None when it is not an external reference."""
    d = dotted(expr)
    if d is None:
      return None
    r = self.resolve_dotted(module, d)
    if isinstance(r, tuple) and r[0] == 'ext':
      return r[1]
    return None

  def resolve_call(self, fn, call, attr_types=None):
    """Resolve the callee of `call` occurring inside FunctionInfo `fn`.

    Returns FunctionInfo (function or method; for Class(...) the ClassInfo),
    ('ext', name) or None.  attr_types: optional map attribute name ->
    ClassInfo for self.<attr> instances.
    """
    f = call.func
    d = dotted(f)
    module = fn.module
    cls = fn.cls or getattr(fn, 'outer_cls', None)
    if d is not None:
      parts = d.split('.')
      if parts[0] == 'self' and cls is not None:
        if len(parts) == 2:
          m = cls.find_method(parts[1])
          if m is not None:
            return m
          if attr_types and parts[1] in attr_types:
            c = attr_types[parts[1]]
            return c.find_method('__call__') or c
          return None
        if len(parts) == 3 and attr_types and parts[1] in attr_types:
          return attr_types[parts[1]].find_method(parts[2])
        return None
      if parts[0] == 'cls' and cls is not None and len(parts) == 1:
        return cls
      r = self.resolve_dotted(module, d)
      if isinstance(r, (FunctionInfo, ClassInfo)):
        return r
      if isinstance(r, tuple) and r[0] == 'ext':
        return r
      return None
    # super(X, self).method(...)
    if (isinstance(f, ast.Attribute) and isinstance(f.value, ast.Call)
        and dotted(f.value.func) == 'super' and cls is not None):
      for b in cls.mro()[1:]:
        if f.attr in b.methods:
          return b.methods[f.attr]
      return ('ext', 'super.%s' % f.attr)
    return None


def call_args(call, callee_params):
  """Map a Call's arguments to parameter names of the callee.

  Returns (bound: dict name -> expr, extras: list of unmatched, has_star)."""
  bound = {}
  extras = []
  has_star = False
  i = 0
  for a in call.args:
    if isinstance(a, ast.Starred):
      has_star = True
      continue
    if i < len(callee_params):
      bound[callee_params[i]] = a
    else:
      extras.append(a)
    i += 1
  for kw in call.keywords:
    if kw.arg is None:
      has_star = True
      continue
    bound[kw.arg] = kw.value
  return bound, extras, has_star


def init_params(cls_info):
  """Parameters of the effective __init__ (own or inherited in-repo)."""
  m = cls_info.find_method('__init__')
  if m is None:
    return None
  return m


_SELF_ASSIGN_CACHE = {}


def self_attr_assigns(fn):
  """[(attr, value_expr, stmt)] for `self.attr = value` in fn (incl. tuple
  targets, augmented assigns are reported with value None)."""
  k = id(fn.node)
  hit = _SELF_ASSIGN_CACHE.get(k)
  if hit is not None and hit[0] is fn.node:
    return list(hit[1])
  out = _self_attr_assigns(fn)
  _SELF_ASSIGN_CACHE[k] = (fn.node, tuple(out))
  return out


def _self_attr_assigns(fn):
  out = []
  for n in walk_no_nested_defs(fn.node):
    if isinstance(n, ast.Assign):
      for t in n.targets:
        for tt, vv in _flatten_target(t, n.value):
          if (isinstance(tt, ast.Attribute) and isinstance(tt.value, ast.Name)
              and tt.value.id == 'self'):
            out.append((tt.attr, vv, n))
    elif isinstance(n, ast.AugAssign):
      tt = n.target
      if (isinstance(tt, ast.Attribute) and isinstance(tt.value, ast.Name)
          and tt.value.id == 'self'):
        out.append((tt.attr, None, n))
    elif isinstance(n, ast.AnnAssign) and n.value is not None:
      tt = n.target
      if (isinstance(tt, ast.Attribute) and isinstance(tt.value, ast.Name)
          and tt.value.id == 'self'):
        out.append((tt.attr, n.value, n))
  return out


def _flatten_target(t, v):
  if isinstance(t, (ast.Tuple, ast.List)):
    if isinstance(v, (ast.Tuple, ast.List)) and len(v.elts) == len(t.elts):
      for a, b in zip(t.elts, v.elts):
        for x in _flatten_target(a, b):
          yield x
    else:
      for a in t.elts:
        for x in _flatten_target(a, None):
          yield x
  else:
    yield t, v


_NAMES_READ_CACHE = {}


def names_read(expr):
  """Set of Name ids and 'self.attr' strings read in expr (cached per node;
  callers must not mutate the result)."""
  if expr is None:
    return set()
  k = id(expr)
  hit = _NAMES_READ_CACHE.get(k)
  if hit is not None and hit[0] is expr:
    return set(hit[1])
  out = _names_read(expr)
  _NAMES_READ_CACHE[k] = (expr, frozenset(out))
  return out


def _names_read(expr):
  out = set()
  for n in ast.walk(expr):
    if isinstance(n, ast.Name):
      out.add(n.id)
    elif (isinstance(n, ast.Attribute) and isinstance(n.value, ast.Name)
          and n.value.id == 'self'):
      out.add('self.' + n.attr)
  return out


def find_calls(node, include_nested=True):
  it = ast.walk(node) if include_nested else walk_no_nested_defs(node)
  for n in it:
    if isinstance(n, ast.Call):
      yield n
