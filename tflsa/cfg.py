"""Statement-level control-flow graph, dominators, reaching definitions and
structural guards for one function (hand built; the repo uses no generators,
match statements or async code)."""
import ast

from .model import AnalysisError, walk_no_nested_defs


class Node(object):
  __slots__ = ('id', 'kind', 'stmt', 'expr')

  def __init__(self, nid, kind, stmt=None, expr=None):
    self.id = nid
    self.kind = kind    # entry | exit | raise | stmt | test | iter | with
    self.stmt = stmt
    self.expr = expr

  def __repr__(self):
    return '<%d %s L%s>' % (self.id, self.kind,
                            getattr(self.stmt, 'lineno', '-'))


class CFG(object):

  def __init__(self, fn_node):
    self.fn_node = fn_node
    self.nodes = []
    self.succ = {}
    self.pred = {}
    self.by_stmt = {}
    self.entry = self._new('entry')
    self.exit = self._new('exit')
    self.raise_exit = self._new('raise')
    outs = self._seq(fn_node.body, [(self.entry.id, None)], None, [])
    for o in outs:
      self._edge(o, self.exit.id)
    self._dom = None
    self._pdom = None

  # -- construction ------------------------------------------------------
  def _new(self, kind, stmt=None, expr=None):
    n = Node(len(self.nodes), kind, stmt, expr)
    self.nodes.append(n)
    self.succ[n.id] = []
    self.pred[n.id] = []
    if stmt is not None and id(stmt) not in self.by_stmt:
      self.by_stmt[id(stmt)] = n.id
    return n

  def _edge(self, src, dst):
    sid, label = src
    if (dst, label) not in self.succ[sid]:
      self.succ[sid].append((dst, label))
      self.pred[dst].append((sid, label))

  def _seq(self, stmts, preds, loop, handlers):
    """Adds stmts; preds: dangling (node, label) edges.  Returns dangling
    edges after the sequence.  loop = (continue_target, break_list)."""
    for st in stmts:
      if not preds:
        # unreachable code: still index nodes so lookups work
        pass
      preds = self._stmt(st, preds, loop, handlers)
    return preds

  def _link(self, preds, nid):
    for p in preds:
      self._edge(p, nid)

  def _stmt(self, st, preds, loop, handlers):
    if isinstance(st, ast.If):
      n = self._new('test', st, st.test)
      self._link(preds, n.id)
      self._to_handlers(n, handlers)
      t = self._seq(st.body, [(n.id, 'T')], loop, handlers)
      if st.orelse:
        f = self._seq(st.orelse, [(n.id, 'F')], loop, handlers)
      else:
        f = [(n.id, 'F')]
      return t + f
    if isinstance(st, (ast.For, ast.While)):
      kind = 'iter' if isinstance(st, ast.For) else 'test'
      n = self._new(kind, st, st.iter if isinstance(st, ast.For) else st.test)
      self._link(preds, n.id)
      self._to_handlers(n, handlers)
      breaks = []
      body_out = self._seq(st.body, [(n.id, 'T')], (n.id, breaks), handlers)
      self._link(body_out, n.id)
      out = [(n.id, 'F')]
      if st.orelse:
        out = self._seq(st.orelse, out, loop, handlers)
      return out + breaks
    if isinstance(st, ast.Try):
      hnodes = []
      for h in st.handlers:
        hn = self._new('stmt', h, h.type)
        hnodes.append(hn)
      inner_handlers = handlers + [hn.id for hn in hnodes]
      body_out = self._seq(st.body, preds, loop,
                           inner_handlers if hnodes else handlers)
      if st.orelse:
        body_out = self._seq(st.orelse, body_out, loop, handlers)
      outs = list(body_out)
      for h, hn in zip(st.handlers, hnodes):
        outs += self._seq(h.body, [(hn.id, None)], loop, handlers)
      if st.finalbody:
        outs = self._seq(st.finalbody, outs, loop, handlers)
      return outs
    if isinstance(st, ast.With):
      n = self._new('with', st, None)
      self._link(preds, n.id)
      self._to_handlers(n, handlers)
      return self._seq(st.body, [(n.id, None)], loop, handlers)
    if isinstance(st, (ast.FunctionDef, ast.ClassDef)):
      n = self._new('stmt', st)
      self._link(preds, n.id)
      return [(n.id, None)]
    n = self._new('stmt', st)
    self._link(preds, n.id)
    self._to_handlers(n, handlers)
    if isinstance(st, ast.Return):
      self._edge((n.id, None), self.exit.id)
      return []
    if isinstance(st, ast.Raise):
      if handlers:
        return []
      self._edge((n.id, None), self.raise_exit.id)
      return []
    if isinstance(st, ast.Continue):
      if loop is None:
        raise AnalysisError('continue outside loop')
      self._edge((n.id, None), loop[0])
      return []
    if isinstance(st, ast.Break):
      if loop is None:
        raise AnalysisError('break outside loop')
      loop[1].append((n.id, None))
      return []
    if (isinstance(st, ast.Match) if hasattr(ast, 'Match') else False):
      raise AnalysisError('match statement not modelled')
    return [(n.id, None)]

  def _to_handlers(self, n, handlers):
    for h in handlers:
      self._edge((n.id, 'exc'), h)

  # -- queries -----------------------------------------------------------
  def node_of(self, stmt):
    nid = self.by_stmt.get(id(stmt))
    if nid is None:
      raise AnalysisError('statement at line %s is not a CFG node' %
                          getattr(stmt, 'lineno', '?'))
    return nid

  def node_containing(self, expr):
    """The CFG node whose statement (or test expression) contains expr."""
    best = None
    for n in self.nodes:
      if n.stmt is None:
        continue
      root = n.stmt
      if n.kind in ('test', 'iter'):
        root = n.expr
      elif n.kind == 'with':
        for item in n.stmt.items:
          for x in ast.walk(item):
            if x is expr:
              return n.id
        continue
      for x in walk_no_nested_defs(root) if not isinstance(
          root, (ast.FunctionDef, ast.ClassDef)) else ast.walk(root):
        if x is expr:
          best = n.id
          break
      if best is not None:
        return best
    return None

  def reachable_from(self, src, avoid=()):
    avoid = set(avoid)
    seen = set()
    todo = [src]
    while todo:
      x = todo.pop()
      if x in seen or x in avoid:
        continue
      seen.add(x)
      for (d, _) in self.succ[x]:
        todo.append(d)
    return seen

  def must_pass_through(self, target_set, src=None, dst=None):
    """True iff every path src->dst passes a node of target_set."""
    src = self.entry.id if src is None else src
    dst = self.exit.id if dst is None else dst
    if src in target_set:
      return True
    return dst not in self.reachable_from(src, avoid=target_set)

  def dominators(self):
    if self._dom is None:
      self._dom = self._compute_dom(self.entry.id, self.succ, self.pred)
    return self._dom

  def _compute_dom(self, root, succ, pred):
    reach = set()
    todo = [root]
    while todo:
      x = todo.pop()
      if x in reach:
        continue
      reach.add(x)
      todo.extend(d for d, _ in succ[x])
    allset = set(reach)
    dom = {n: set(allset) for n in reach}
    dom[root] = {root}
    changed = True
    order = sorted(reach)
    while changed:
      changed = False
      for n in order:
        if n == root:
          continue
        ps = [p for p, _ in pred[n] if p in reach]
        if not ps:
          continue
        new = set.intersection(*[dom[p] for p in ps]) | {n}
        if new != dom[n]:
          dom[n] = new
          changed = True
    return dom

  def dominates(self, a, b):
    d = self.dominators()
    return b in d and a in d[b]

  def precedes_on_all_paths(self, a, b):
    """Every path entry->b passes a (a dominates b)."""
    return self.dominates(a, b)

  def can_reach(self, a, b):
    return b in self.reachable_from(a) and a != b or (
        a == b and any(a in self.reachable_from(d) for d, _ in self.succ[a]))


# -- reaching definitions ----------------------------------------------------
def _targets(t):
  if isinstance(t, ast.Name):
    yield t.id
  elif isinstance(t, (ast.Tuple, ast.List)):
    for e in t.elts:
      for x in _targets(e):
        yield x
  elif isinstance(t, ast.Starred):
    for x in _targets(t.value):
      yield x


def node_defs(node):
  """Names (re)defined at a CFG node."""
  st = node.stmt
  out = set()
  if st is None:
    return out
  if node.kind == 'stmt':
    if isinstance(st, ast.Assign):
      for t in st.targets:
        out.update(_targets(t))
    elif isinstance(st, (ast.AugAssign, ast.AnnAssign)):
      out.update(_targets(st.target))
    elif isinstance(st, (ast.FunctionDef, ast.ClassDef)):
      out.add(st.name)
    elif isinstance(st, (ast.Import, ast.ImportFrom)):
      for a in st.names:
        out.add((a.asname or a.name).split('.')[0])
    elif isinstance(st, ast.Delete):
      for t in st.targets:
        out.update(_targets(t))
    elif isinstance(st, ast.ExceptHandler) and st.name:
      out.add(st.name)
    # walrus
    for n in walk_no_nested_defs(st) if not isinstance(
        st, (ast.FunctionDef, ast.ClassDef)) else ():
      if isinstance(n, ast.NamedExpr):
        out.update(_targets(n.target))
  elif node.kind == 'iter':
    out.update(_targets(st.target))
  elif node.kind == 'with':
    for item in st.items:
      if item.optional_vars is not None:
        out.update(_targets(item.optional_vars))
  return out


class ReachingDefs(object):
  """Classic forward may-analysis; definitions are (name, node id); the
  pseudo node cfg.entry.id defines the parameters."""

  def __init__(self, cfg, params=()):
    self.cfg = cfg
    self.gen = {}
    for n in cfg.nodes:
      self.gen[n.id] = node_defs(n)
    self.gen[cfg.entry.id] = set(params)
    self.in_ = {n.id: {} for n in cfg.nodes}
    self.out = {n.id: {} for n in cfg.nodes}
    self._solve()

  def _solve(self):
    cfg = self.cfg
    work = [n.id for n in cfg.nodes]
    while work:
      nid = work.pop(0)
      inn = {}
      for p, _ in cfg.pred[nid]:
        for k, v in self.out[p].items():
          inn.setdefault(k, set()).update(v)
      self.in_[nid] = inn
      out = {k: set(v) for k, v in inn.items()}
      for name in self.gen[nid]:
        out[name] = {nid}
      if out != self.out[nid]:
        self.out[nid] = out
        for d, _ in cfg.succ[nid]:
          if d not in work:
            work.append(d)

  def defs_reaching(self, nid, name):
    """Node ids whose definition of `name` may reach the start of nid."""
    return set(self.in_[nid].get(name, ()))

  def def_exprs(self, nid, name):
    """[(def node id, value expr or None)] reaching nid for simple
    `name = expr` definitions; parameters give (entry, None)."""
    out = []
    for d in sorted(self.defs_reaching(nid, name)):
      n = self.cfg.nodes[d]
      val = None
      st = n.stmt
      if n.kind == 'stmt' and isinstance(st, ast.Assign):
        for t in st.targets:
          if isinstance(t, ast.Name) and t.id == name:
            val = st.value
          elif isinstance(t, (ast.Tuple, ast.List)) and isinstance(
              st.value, (ast.Tuple, ast.List)) and len(t.elts) == len(
                  st.value.elts):
            for a, b in zip(t.elts, st.value.elts):
              if isinstance(a, ast.Name) and a.id == name:
                val = b
      elif n.kind == 'stmt' and isinstance(st, ast.AnnAssign):
        val = st.value
      out.append((d, val))
    return out


# -- structural guards -------------------------------------------------------
def _terminates(stmts):
  """True when the statement list always leaves the enclosing block
  (return / raise / continue / break as last effective statement)."""
  if not stmts:
    return False
  last = stmts[-1]
  if isinstance(last, (ast.Return, ast.Raise, ast.Continue, ast.Break)):
    return True
  if isinstance(last, ast.If) and last.orelse:
    return _terminates(last.body) and _terminates(last.orelse)
  return False


_NEG_OPS = {ast.NotEq: ast.Eq, ast.IsNot: ast.Is, ast.NotIn: ast.In,
            ast.GtE: ast.Lt, ast.LtE: ast.Gt}


def canon_guard(test, pol):
  """(text, polarity) of a guard with the comparison operator in its positive
  form: (`x is not None`, True) and (`x is None`, False) are the same atom,
  written ('x is None', False)."""
  import copy
  from .model import norm_text
  while isinstance(test, ast.UnaryOp) and isinstance(test.op, ast.Not):
    test, pol = test.operand, not pol
  if isinstance(test, ast.Compare) and len(test.ops) == 1 and type(
      test.ops[0]) in _NEG_OPS:
    test = copy.copy(test)
    test.ops = [_NEG_OPS[type(test.ops[0])]()]
    pol = not pol
  return norm_text(test), pol


def structural_guards(fn_node, target):
  """Conditions known to hold when `target` (a stmt or expr node inside
  fn_node) executes, as [(test_expr, polarity)].  Includes enclosing
  if/elif/else/while tests, conditional expressions (IfExp), boolean
  short-circuit operands and early exits of the form
  `if c: return/raise/continue` earlier in any enclosing block."""
  path = _path_to(fn_node, target)
  if path is None:
    return None
  guards = []
  for parent, field, idx, child in path:
    if isinstance(parent, (ast.If, ast.While)):
      if field == 'body':
        guards.append((parent.test, True))
      elif field == 'orelse' and isinstance(parent, ast.If):
        guards.append((parent.test, False))
    elif isinstance(parent, ast.IfExp):
      if field == 'body':
        guards.append((parent.test, True))
      elif field == 'orelse':
        guards.append((parent.test, False))
    elif isinstance(parent, ast.BoolOp) and field == 'values' and idx:
      pol = isinstance(parent.op, ast.And)
      for prev in parent.values[:idx]:
        guards.append((prev, pol))
    elif isinstance(parent, (ast.ListComp, ast.SetComp, ast.GeneratorExp,
                             ast.DictComp)):
      if field in ('elt', 'key', 'value'):
        for g in parent.generators:
          for c in g.ifs:
            guards.append((c, True))
    elif isinstance(parent, ast.Assert):
      pass
    # early exits in the same block, before idx
    if field in ('body', 'orelse', 'finalbody') and idx is not None:
      block = getattr(parent, field)
      for st in block[:idx]:
        if isinstance(st, ast.If):
          if _terminates(st.body) and not _terminates(st.orelse):
            guards.append((st.test, False))
          elif st.orelse and _terminates(st.orelse) and not _terminates(
              st.body):
            guards.append((st.test, True))
        elif isinstance(st, ast.Assert):
          guards.append((st.test, True))
  # `not c` holding is `c` not holding
  out = []
  for t, p in guards:
    while isinstance(t, ast.UnaryOp) and isinstance(t.op, ast.Not):
      t, p = t.operand, not p
    out.append((t, p))
  return out


def _path_to(root, target):
  """[(parent, field, index_or_None, child)] from root down to target."""
  for field, value in ast.iter_fields(root):
    if isinstance(value, list):
      for i, v in enumerate(value):
        if isinstance(v, ast.AST):
          if v is target:
            return [(root, field, i, v)]
          sub = _path_to(v, target)
          if sub is not None:
            return [(root, field, i, v)] + sub
    elif isinstance(value, ast.AST):
      if value is target:
        return [(root, field, None, value)]
      sub = _path_to(value, target)
      if sub is not None:
        return [(root, field, None, value)] + sub
  return None


def enclosing_stmt(fn_node, target):
  path = _path_to(fn_node, target)
  if path is None:
    return None
  st = None
  for parent, field, idx, child in path:
    if isinstance(child, ast.stmt):
      st = child
  return st
