"""C14 - sibling implementations agree step by step (Y1..Y4)."""
import ast
from fractions import Fraction

from ..model import (AnalysisError, dotted, norm_text, names_read,
                     stmts_in_order, expand_aug,
                     const_value)
from ..cfg import structural_guards

TECHNIQUE = ('cross-checking sibling implementations of one interface: the '
             'corresponding steps of the functional and the layer form are '
             'extracted by role and compared after role renaming '
             '(polynomial normal form for the affine pre-activation, '
             'argument-wise comparison for reductions, clips and reshapes), '
             'plus structural rules for the combinators')
EXPLANATION = (
    'Static analysis of structural clauses of C14; equality of outputs up to '
    'rounding for all parameters is a numeric identity and is NOT decided, '
    'nor is the KroneckerFactoredLattice / Lattice equivalence (different '
    'algorithms, no common steps). Decided: (Y1) cdf_fn and CDF.call use the '
    'same pre-activation scaling * (input - location) on inputs expanded by '
    'two trailing axes, the same activation step per activation id (mean '
    'over the keypoint axis 2, relu6 divided by 6), the same sparsity guard '
    'and reshape target (-1, input_dim // sparsity_factor, units) and the '
    'same mean reduction over axis 1; the geometric mean is only required to '
    'be exp(mean or sum/num_terms of log(result + epsilon)) over axis 1 '
    '(epsilon deliberately differs). (Y2) the two PWL interpolation weight '
    'functions compute (inputs - keypoints) / lengths clipped to [0, 1] with '
    'a leading 1. (Y3) ParallelCombination splits a tensor input along axis '
    '1 into one column per calibrator, applies calibrator i to column i and '
    'concatenates along axis 1; Aggregation is the mean over axis 1 of the '
    'wrapped model mapped over the flat values. (Y4) RTL evaluates each '
    'lattice on the gather of its recorded input indices (rules shared with '
    'C17: flatten order, keys, structure).'
    ' In pwl_calibration_fn the learned missing output is taken off before the cyclic closing column is appended (W4).')
ASSUMPTIONS = ['tf.reduce_mean / reshape / clip / split / concat semantics',
               'role table below (which name plays location / scaling)']

ROLES_LAYER = {'self.kernel': 'LOC', 'self.input_scaling': 'SCALE',
               'inputs': 'INP'}
ROLES_FN = {'location_parameters': 'LOC', 'scaling_parameters': 'SCALE',
            'inputs': 'INP'}


def run(prog, res):
  from ..rules import guards as _g
  for q in ('kronecker_factored_lattice_lib.evaluate_with_hypercube_interpolation',):
    _g.check_clip_paths(prog, res, prog.function(q))
  res.floor('X5', 1)
  # the formula (size-2 closed form (1 - x, x) vs. the general hat functions)
  # is chosen by the lattice size alone: tied to clip_inputs as well, an
  # unclipped size-2 KFL would decay outside [0, 1] where the equivalent
  # Lattice extrapolates
  kf = prog.function('kronecker_factored_lattice_lib.'
                     'evaluate_with_hypercube_interpolation')
  fast = [st for st in ast.walk(kf.node) if isinstance(st, ast.If) and any(
      isinstance(c, ast.Compare) and dotted(c.left) == 'lattice_sizes' and
      const_value(c.comparators[0], None) == 2 for c in ast.walk(st.test))]
  if not fast:
    raise AnalysisError('KFL evaluate: the size-2 dispatch was not found')
  for i, st in enumerate(fast):
    extra = names_read(st.test) - {'lattice_sizes'}
    res.check(not extra, 'Y4', 'kfl|size-2-dispatch%s' % (
        '#%d' % (i + 1) if i else ''), kf.loc(st),
              'the size-2 closed form is chosen by lattice_sizes alone',
              'the size-2 closed form is only used when %s as well (`%s`): '
              'otherwise the general hat functions decay outside [0, 1] where '
              'the 2-vertex Lattice extrapolates linearly - the two '
              'parameterisations disagree for unclipped out-of-range inputs'
              % (sorted(extra), norm_text(st.test)))
  res.floor('Y4', 1)
  _cdf_pair(prog, res)
  _pwl_weights(prog, res)
  _combinators(prog, res)
  from . import C17
  C17._w7_structure(prog, res)
  C17._w7_flatten(prog, res)
  C17._w7_keys(prog, res)
  from . import C15
  C15._missing_before_cyclic(prog, res)
  res.floor('W4', 1)
  res.floor('Y1', 7)
  res.floor('Y2', 3)
  res.floor('Y3', 5)
  res.floor('W7', 6)


# ---------------------------------------------------------------------------
class Poly(object):
  """multivariate polynomial with rational coefficients (dict monomial->c)"""

  def __init__(self, t=None):
    self.t = {k: v for k, v in (t or {}).items() if v != 0}

  @staticmethod
  def sym(n):
    return Poly({((n, 1),): Fraction(1)})

  @staticmethod
  def const(c):
    return Poly({(): Fraction(c)})

  def __add__(self, o):
    t = dict(self.t)
    for k, v in o.t.items():
      t[k] = t.get(k, 0) + v
    return Poly(t)

  def __neg__(self):
    return Poly({k: -v for k, v in self.t.items()})

  def __sub__(self, o):
    return self + (-o)

  def __mul__(self, o):
    t = {}
    for k1, v1 in self.t.items():
      for k2, v2 in o.t.items():
        d = dict(k1)
        for n, e in k2:
          d[n] = d.get(n, 0) + e
        k = tuple(sorted(d.items()))
        t[k] = t.get(k, 0) + v1 * v2
    return Poly(t)

  def __eq__(self, o):
    return self.t == o.t

  def __repr__(self):
    return ' + '.join('%s*%s' % (v, '*'.join('%s^%d' % ne for ne in k) or '1')
                      for k, v in sorted(self.t.items())) or '0'


def _strip(e):
  """int(x) -> x ; self.a -> a (textual role of configuration values)"""
  if isinstance(e, ast.Call) and dotted(e.func) in ('int', 'float') and \
      len(e.args) == 1:
    return _strip(e.args[0])
  return e


def _cfg_text(e):
  e = _strip(e)
  t = norm_text(e)
  return t.replace('self.', '').replace('int(', '(').replace(' ', '')


def _symbolic(fn, roles, target_call, trace=None):
  """polynomial of the argument of the activation call, following simple
  assignments / augmented assignments of local names in statement order."""
  env = {}

  def val(e):
    d = dotted(e)
    if d in roles:
      return Poly.sym(roles[d])
    if isinstance(e, ast.Name) and e.id in env:
      return env[e.id]
    if isinstance(e, ast.Subscript):
      # inputs[..., tf.newaxis, tf.newaxis]: shape bookkeeping only, but the
      # number of added axes is part of the form
      base = val(e.value)
      axes = [x for x in (e.slice.elts if isinstance(e.slice, ast.Tuple)
                          else [e.slice])]
      n_new = sum(1 for x in axes if (dotted(x) or '').endswith('newaxis')
                  or (isinstance(x, ast.Constant) and x.value is None))
      return base * Poly.sym('NEWAXIS%d' % n_new) if n_new else base
    if isinstance(e, ast.BinOp):
      a, b = val(e.left), val(e.right)
      if isinstance(e.op, ast.Add):
        return a + b
      if isinstance(e.op, ast.Sub):
        return a - b
      if isinstance(e.op, ast.Mult):
        return a * b
    c = const_value(e, None)
    if isinstance(c, (int, float)) and not isinstance(c, bool):
      return Poly.const(Fraction(c).limit_denominator(10 ** 9))
    raise AnalysisError('%s: pre-activation `%s` is outside the polynomial '
                        'subset' % (fn.loc(e), norm_text(e)[:50]))

  def reassigned_nonpoly(st):
    return False

  # walk statements in source order up to the one holding target_call
  stmts = [s for s in (trace if trace is not None else
                       stmts_in_order(fn.node))
           if isinstance(s, (ast.Assign, ast.AugAssign))]
  for st in stmts:
    if any(x is target_call for x in ast.walk(st)):
      return val(target_call.args[0])
    try:
      if isinstance(st, ast.Assign) and isinstance(st.targets[0], ast.Name):
        env[st.targets[0].id] = val(st.value)
      elif isinstance(st, ast.AugAssign) and isinstance(st.target, ast.Name) \
          and isinstance(st.op, ast.Mult):
        env[st.target.id] = env[st.target.id] * val(st.value) \
            if st.target.id in env else val(st.target) * val(st.value)
    except (AnalysisError, KeyError):
      continue       # unrelated local
  raise AnalysisError('%s: activation call not inside an assignment' %
                      fn.qualname)


def _kw(c):
  return {k.arg: k.value for k in c.keywords}


_CDF_CFG = {'scaling_parameters': 'given',
            'scaling_exp_transform_multiplier': None,
            'return_derived_parameters': False}


def _cfg_trace(fn, cfg):
  """simple statements fn executes under the configuration cfg ({role text:
  value}; roles are _cfg_text of the tested expression): tests are
  comparisons of a role with a literal, `role is (not) None`, a bare role,
  `not`, and / or of those; a test outside that language is an analysis
  error"""
  def value(e):
    k = _cfg_text(e)
    if k in cfg:
      return True, cfg[k]
    return False, None

  def decide(t):
    if isinstance(t, ast.UnaryOp) and isinstance(t.op, ast.Not):
      return not decide(t.operand)
    if isinstance(t, ast.BoolOp):
      vs = [decide(v) for v in t.values]
      return all(vs) if isinstance(t.op, ast.And) else any(vs)
    if isinstance(t, ast.Compare) and len(t.ops) == 1:
      known, v = value(t.left)
      r = t.comparators[0]
      if known and isinstance(r, ast.Constant):
        op = t.ops[0]
        if isinstance(op, (ast.Is, ast.IsNot)) and r.value is None:
          return (v is None) == isinstance(op, ast.Is)
        if isinstance(op, (ast.Eq, ast.NotEq)):
          return (v == r.value) == isinstance(op, ast.Eq)
    known, v = value(t)
    if known:
      return bool(v)
    raise AnalysisError('%s: test `%s` is not decided by the configuration' %
                        (fn.loc(t), norm_text(t)[:60]))
  out = []

  def block(stmts):
    for st in stmts:
      if isinstance(st, ast.If):
        if block(st.body if decide(st.test) else st.orelse):
          return True
        continue
      if isinstance(st, ast.Raise):
        raise AnalysisError('%s: the configuration %s raises' % (
            fn.loc(st), sorted(cfg.items(), key=str)))
      if isinstance(st, (ast.For, ast.While, ast.With, ast.Try)):
        raise AnalysisError('%s: compound statement on the evaluation path' %
                            fn.loc(st))
      out.append(st)
      if isinstance(st, ast.Return):
        return True
    return False
  block(fn.node.body)
  return out


def _closed_return(fn, trace, keep):
  """the returned expression with every local outside `keep` replaced by the
  value assigned along the trace"""
  import copy
  env = {}

  class S(ast.NodeTransformer):
    def visit_Name(self, n):
      if isinstance(n.ctx, ast.Load) and n.id in env:
        return copy.deepcopy(env[n.id])
      return n
  for st in trace:
    st = expand_aug(st)
    if isinstance(st, ast.Assign) and len(st.targets) == 1 and isinstance(
        st.targets[0], ast.Name):
      nm = st.targets[0].id
      if nm in keep:
        env.pop(nm, None)
        continue
      env[nm] = S().visit(copy.deepcopy(st.value))
    elif isinstance(st, ast.Return) and st.value is not None:
      return ast.fix_missing_locations(S().visit(copy.deepcopy(st.value)))
  raise AnalysisError('%s: no value returned on the evaluation path' %
                      fn.qualname)


_CDF_KEEP = {'x', 'input_dim', 'num_terms', 'inputs'}


def _cdf_value(fn, activation, sparsity, reduction):
  cfg = dict(_CDF_CFG, activation=activation, sparsity_factor=sparsity,
             reduction=reduction)
  trace = _cfg_trace(fn, cfg)
  return trace, _closed_return(fn, trace, _CDF_KEEP)


def _activation_steps(prog, fn):
  """{activation id: (outer form with Z, call, trace)} - by value: what the
  function returns for that activation with sparsity_factor 1 and reduction
  'none' (every later step is then the identity)"""
  out = {}
  for kind in ('relu6', 'sigmoid'):
    trace, val = _cdf_value(fn, kind, 1, 'none')

    def acts(node):
      return [c for c in ast.walk(node) if isinstance(c, ast.Call) and (
          prog.ext_name(fn.module, c.func) or '') in (
              'tf.nn.relu6', 'tf.nn.sigmoid', 'tf.sigmoid')]
    orig = [c for st in trace for c in acts(st)]
    inside = acts(val)
    if len(orig) != 1 or len(inside) != 1:
      raise AnalysisError('%s: expected one activation call for activation '
                          '%s (found %d)' % (fn.qualname, kind, len(orig)))
    ext = prog.ext_name(fn.module, inside[0].func)
    got = 'relu6' if ext.endswith('relu6') else 'sigmoid'
    src = norm_text(val)
    arg = norm_text(inside[0].args[0])
    outer = src.replace(arg, 'Z', 1).replace(' ', '')
    if got != kind:
      outer = '%s!=%s:' % (got, kind) + outer
    out[kind] = (outer, orig[0], trace)
  return out


def _cdf_pair(prog, res):
  layer = prog.function('cdf_layer.CDF.call')
  fn = prog.function('conditional_cdf.cdf_fn')
  res.analysed(layer, fn)
  la, fa = _activation_steps(prog, layer), _activation_steps(prog, fn)
  for kind in ('relu6', 'sigmoid'):
    res.check(la[kind][0] == fa[kind][0], 'Y1', 'cdf|activation:%s' % kind,
              fn.loc(fa[kind][1]),
              'both forms compute %s' % la[kind][0],
              'CDF.call computes `%s` but cdf_fn computes `%s` for activation '
              '%s' % (la[kind][0], fa[kind][0], kind))
    pl = _symbolic(layer, ROLES_LAYER, la[kind][1], la[kind][2])
    pf = _symbolic(fn, ROLES_FN, fa[kind][1], fa[kind][2])
    res.check(pl == pf, 'Y1', 'cdf|pre-activation:%s' % kind,
              fn.loc(fa[kind][1]),
              'pre-activation is %s in both forms' % pl,
              'the argument of %s is %s in CDF.call but %s in cdf_fn (roles: '
              'LOC = kernel / location_parameters, SCALE = input_scaling / '
              'scaling_parameters)' % (kind, pl, pf))
  # sparsity reshape
  def reshape_of(f):
    for c in ast.walk(f.node):
      if isinstance(c, ast.Call) and prog.ext_name(
          f.module, c.func) == 'tf.reshape':
        shp = c.args[1] if len(c.args) > 1 else _kw(c).get('shape')
        if isinstance(shp, (ast.List, ast.Tuple)):
          gs = structural_guards(f.node, c) or []
          return c, [_cfg_text(x) for x in shp.elts], [
              ('' if pol else 'not ') + _cfg_text(t) for t, pol in gs]
    raise AnalysisError('%s: sparsity reshape not found' % f.qualname)
  cl, dl, gl = reshape_of(layer)
  cf, df, gf = reshape_of(fn)
  res.check(dl == df, 'Y1', 'cdf|sparsity-reshape', fn.loc(cf),
            'both forms reshape to (%s)' % ', '.join(dl),
            'CDF.call reshapes to (%s) but cdf_fn to (%s): with '
            'sparsity_factor > 1 the two group different (input, unit) pairs '
            '(and a wrong middle dimension is absorbed by the batch axis)' % (
                ', '.join(dl), ', '.join(df)))
  res.check(gl == gf and gl, 'Y1', 'cdf|sparsity-guard', fn.loc(cf),
            'both reshapes run under `%s`' % ' and '.join(gl),
            'the sparsity reshape is guarded by %s in CDF.call and by %s in '
            'cdf_fn' % (gl, gf))
  # reductions, by value: what is returned for reduction r, written over
  # `result` = what is returned for reduction 'none'
  def reductions(f):
    # with sparsity_factor != 1, so that the value before and after the
    # sparsity reshape are different expressions: the reduction must be
    # applied to the reshaped one (what reduction 'none' returns)
    out = {}
    _, base = _cdf_value(f, 'sigmoid', 2, 'none')
    bt = norm_text(base)
    for rid in ('mean', 'geometric_mean'):
      _, v = _cdf_value(f, 'sigmoid', 2, rid)
      vt = norm_text(v)
      res.check(bt in vt, 'Y1', 'cdf|reduction:%s:operand:%s' % (
          rid, f.qualname), f.loc(),
                'the %s reduction is applied to the value that reduction '
                "'none' returns" % rid,
                'with sparsity_factor != 1 the %s reduction of %s is `%s`: it '
                "does not reduce the value that reduction 'none' returns "
                '(the tensor after the sparsity reshape)' % (
                    rid, f.qualname, vt[:90]))
      if bt not in vt:
        _, b1 = _cdf_value(f, 'sigmoid', 1, 'none')
        _, v1 = _cdf_value(f, 'sigmoid', 1, rid)
        bt1, vt1 = norm_text(b1), norm_text(v1)
        if bt1 not in vt1:
          raise AnalysisError('CDF pair: reduction %s of %s does not reduce '
                              'the unreduced value' % (rid, f.qualname))
        e = ast.parse(vt1.replace(bt1, 'result'), mode='eval').body
        out[rid] = ast.copy_location(ast.fix_missing_locations(e), f.node)
        for n in ast.walk(out[rid]):
          ast.copy_location(n, f.node)
        continue
      e = ast.parse(vt.replace(bt, 'result'), mode='eval').body
      out[rid] = ast.copy_location(ast.fix_missing_locations(e), f.node)
      for n in ast.walk(out[rid]):
        ast.copy_location(n, f.node)
    return out
  rl, rf = reductions(layer), reductions(fn)
  def _red(f, e):
    # (op, operand, axis normalised on the rank-3 (batch, inputs, units) tensor)
    if isinstance(e, ast.Call):
      ax = const_value(_kw(e).get('axis', e.args[1] if len(e.args) > 1
                                  else None), None)
      if isinstance(ax, int) and ax < 0:
        ax += 3
      return '%s(%s,axis=%s)' % (prog.ext_name(f.module, e.func),
                                 norm_text(e.args[0]) if e.args else '', ax)
    return norm_text(e).replace(' ', '')
  ml = _red(layer, rl['mean'])
  mf = _red(fn, rf['mean'])
  res.check(ml == mf, 'Y1', 'cdf|reduction:mean', fn.loc(rf['mean']),
            'both forms compute %s' % ml,
            'mean reduction is `%s` in CDF.call but `%s` in cdf_fn' % (ml, mf))
  for side, f, e in (('layer', layer, rl['geometric_mean']),
                     ('fn', fn, rf['geometric_mean'])):
    ok = False
    ax = None
    if isinstance(e, ast.Call) and (prog.ext_name(f.module, e.func) or ''
                                    ).endswith('exp'):
      inner = e.args[0]
      core = inner.left if isinstance(inner, ast.BinOp) and isinstance(
          inner.op, ast.Div) else inner
      if isinstance(core, ast.Call):
        ext = prog.ext_name(f.module, core.func) or ''
        ax = const_value(_kw(core).get('axis'), None)
        logc = core.args[0] if core.args else None
        is_log = isinstance(logc, ast.Call) and (prog.ext_name(
            f.module, logc.func) or '').endswith('log')
        if ext.endswith('reduce_mean') and inner is core and is_log:
          ok = True
        if ext.endswith('reduce_sum') and inner is not core and is_log and \
            'num_terms' in names_read(inner.right):
          ok = True
    res.check(ok and ax == 1, 'Y1', 'cdf|reduction:geometric_mean:%s' % side,
              f.loc(e),
              'exp of the mean of log(result + eps) over axis 1',
              'the geometric mean of %s is `%s`, not exp(mean over axis 1 of '
              'log(result + eps))' % (f.qualname, norm_text(e)[:70]))


# ---------------------------------------------------------------------------
def _pwl_weights(prog, res):
  a = prog.function('pwl_calibration_lib.compute_interpolation_weights')
  b = prog.function('conditional_pwl_calibration.'
                    '_compute_interpolation_weights')
  res.analysed(a, b)

  def facts(f):
    ratio = None
    lo = hi = None
    lead = None
    for st in ast.walk(f.node):
      if isinstance(st, ast.BinOp) and isinstance(st.op, ast.Div):
        # the ratio, wherever it is written (own statement or nested)
        ratio = norm_text(st).replace(' ', '')
      for c in ast.walk(st) if isinstance(st, (ast.Assign, ast.Return)) \
          else ():
        if not isinstance(c, ast.Call):
          continue
        ext = prog.ext_name(f.module, c.func) or dotted(c.func) or ''
        if ext.endswith('clip_by_value'):
          lo, hi = const_value(c.args[1], None), const_value(c.args[2], None)
        elif ext.endswith('minimum') and len(c.args) == 2:
          hi = const_value(c.args[1], None)
        elif ext.endswith('maximum') and len(c.args) == 2:
          lo = const_value(c.args[1], None)
        elif ext.endswith('_front_pad') and len(c.args) == 2:
          lead = const_value(c.args[1], None)
        elif ext.endswith('ones_like') or ext.endswith('tf.ones'):
          lead = 1.0
    return ratio, lo, hi, lead
  fa, fb = facts(a), facts(b)
  names = ('ratio', 'lower clip', 'upper clip', 'leading bias weight')
  for i, nm in enumerate(names):
    if i == 0:
      good = fa[0] == fb[0] == '(inputs-keypoints)/lengths'
    else:
      good = fa[i] is not None and float(fa[i]) == float(fb[i] if fb[i]
                                                         is not None else 'nan')
    if i in (1, 2):
      key = 'pwl|weights-clip'
      if i == 2:
        continue
      good = (fa[1], fa[2]) == (fb[1], fb[2]) and fa[1] is not None and \
          float(fa[1]) == 0.0 and float(fa[2]) == 1.0
      res.check(good, 'Y2', key, b.loc(),
                'both clip the ratio to [0, 1]',
                'the layer form clips the weights to [%s, %s], the functional '
                'form to [%s, %s]' % (fa[1], fa[2], fb[1], fb[2]))
      continue
    res.check(good, 'Y2', 'pwl|weights-%s' % nm.split()[0], b.loc(),
              '%s agrees (%s)' % (nm, fa[i]),
              '%s is %s in pwl_calibration_lib.compute_interpolation_weights '
              'but %s in conditional_pwl_calibration.'
              '_compute_interpolation_weights' % (nm, fa[i], fb[i]))


# ---------------------------------------------------------------------------
def _combinators(prog, res):
  pc = prog.function('parallel_combination_layer.ParallelCombination.call')
  res.analysed(pc)
  split = concat = comp = None
  for c in ast.walk(pc.node):
    if isinstance(c, ast.Call):
      ext = prog.ext_name(pc.module, c.func) or ''
      if ext == 'tf.split':
        split = c
      elif ext == 'tf.concat':
        concat = c
    if isinstance(c, ast.ListComp):
      comp = c
  if split is None or concat is None or comp is None:
    raise AnalysisError('ParallelCombination.call changed shape')
  kw = _kw(split)
  ax = const_value(kw.get('axis', split.args[2] if len(split.args) > 2
                          else None), None)
  num = kw.get('num_or_size_splits', split.args[1] if len(split.args) > 1
               else None)
  res.check(ax == 1 and num is not None and norm_text(num).replace(
      ' ', '') == 'inputs.shape[1]', 'Y3', 'parallel|split', pc.loc(split),
            'a tensor input is split along axis 1 into one column per input',
            'tf.split(axis=%s, num_or_size_splits=%s) does not cut the input '
            'into its columns' % (ax, norm_text(num) if num is not None
                                  else None))
  g = comp.generators[0]
  zipped = isinstance(g.iter, ast.Call) and dotted(g.iter.func) == 'zip' and [
      dotted(a) for a in g.iter.args] == ['self.calibration_layers', 'inputs']
  tgt = [dotted(x) for x in g.target.elts] if isinstance(
      g.target, ast.Tuple) else []
  elt_ok = isinstance(comp.elt, ast.Call) and len(tgt) == 2 and dotted(
      comp.elt.func) == tgt[0] and [dotted(a) for a in comp.elt.args] == [
          tgt[1]]
  res.check(zipped and elt_ok and not g.ifs, 'Y3', 'parallel|pairing',
            pc.loc(comp),
            'calibrator i is applied to column i (zip of layers and inputs)',
            'the calibrators are no longer applied to the columns in lockstep '
            '(`%s`)' % norm_text(comp)[:70])
  cax = const_value(_kw(concat).get('axis', concat.args[1] if len(
      concat.args) > 1 else None), None)
  res.check(cax == 1 and dotted(concat.args[0]) == 'outputs', 'Y3',
            'parallel|concat', pc.loc(concat),
            'outputs are concatenated along axis 1 in calibrator order',
            'tf.concat(%s, axis=%s) is not the column-wise concatenation of '
            'the outputs' % (norm_text(concat.args[0]), cax))
  gs = structural_guards(pc.node, concat) or []
  def _pos(t, p):
    while isinstance(t, ast.UnaryOp) and isinstance(t.op, ast.Not):
      t, p = t.operand, not p
    return t, p
  gs = [_pos(t, p) for t, p in gs]
  res.check(('single_output', True) in [(_cfg_text(t), p) for t, p in gs],
            'Y3', 'parallel|single-output', pc.loc(concat),
            'concatenation only when single_output',
            'the concatenation is guarded by %s' % [
                ('' if p else 'not ') + norm_text(t) for t, p in gs])
  ag = prog.function('aggregation_layer.Aggregation.call')
  res.analysed(ag)
  ret = [r for r in ast.walk(ag.node) if isinstance(r, ast.Return)]
  ok = False
  if len(ret) == 1 and isinstance(ret[0].value, ast.Call):
    c = ret[0].value
    inner = c.args[0] if c.args else None
    ok = (prog.ext_name(ag.module, c.func) == 'tf.reduce_mean' and
          const_value(_kw(c).get('axis'), None) == 1 and
          isinstance(inner, ast.Call) and (prog.ext_name(
              ag.module, inner.func) or '').endswith('map_flat_values') and
          [dotted(a) for a in inner.args] == ['self.model', 'x'])
  res.check(ok, 'Y3', 'aggregation|mean-of-model', ag.loc(),
            'mean over the element axis 1 of the model mapped over the flat '
            'values',
            'Aggregation.call is no longer reduce_mean(map_flat_values('
            'self.model, x), axis=1)')
