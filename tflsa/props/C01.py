"""C01 - Lattice weight constraint returns strictly feasible kernels
(W1 W3 W4 L5 L7 L8 P1 P2)."""
import ast

from ..model import (AnalysisError, FunctionInfo, dotted, norm_text,
                     names_read, const_value, is_none)
from ..cfg import CFG, structural_guards
from ..rules import wiring
from ..rules import guards
from ..rules import roles
from ..rules import affine_rules
from ..rules import stencil
from ..rules import numeric_opts
from . import C03

TECHNIQUE = ('forwarding and guard-coverage lint, must-order / post-dominance '
             'on the CFG, symbolic extraction of every strict repair step '
             '(violation form, moved cell, sign, magnitude), rational identity '
             'of the two-sided bound rescaling')
EXPLANATION = (
    'Static analysis of necessary conditions of C01; that the composed '
    'heuristics satisfy the inequalities for every real kernel and every '
    'combination of constraints is a theorem over R^n and is NOT decided. '
    'Decided: every Lattice hyperparameter reaches LatticeConstraints (both '
    'the training copy and the strict copy used by finalize_constraints(), '
    'which is built with enforce_strict_monotonicity=True), the Dykstra '
    'projection and finalize_constraints (W1); the guard of __call__ covers '
    'every state in which the projection acts (W3); the strict path runs '
    'monotonicity -> Edgeworth -> trapezoid -> bounds and the two bound clips '
    'post-dominate everything (W4); the monotonic sweeps clip each vertex '
    'against an already final neighbour and the half step is a convex '
    'combination that fixes feasible kernels (L5); every Edgeworth / '
    'trapezoid repair moves the single cell whose coefficient in its own '
    'violation form is -sign(update), by at least relu(violation), and moves '
    'the upper corner up / the lower corner down (L8); the two-sided bound '
    'step is the affine map sending the violated extremes onto the bounds and '
    'is the identity on feasible kernels, one-sided steps are gated shifts '
    '(L7); min/max roles are coherent (P1, P2); the violation maxima of the '
    'strict steps are taken per unit (X1, shared with C09); a trapezoid repair '
    'on a pair that monotonicity of the conditional feature pins to equality '
    'must be exact, not a dominating maximum (L9). The loops of the strict '
    'repairs cover every pair of adjacent vertices (A5).'
    ' Parallel statements for paired roles vary consistently (CP1), and a constraint tuple is only looked up among tuples (T4 membership).'
    ' Nothing that is used later is computed from a value before the statement that clips that value (X5, self-clip order).'
    ' A value that is set before a loop, re-assigned in every iteration and used afterwards is read by the loop (X11, carried values).')
ASSUMPTIONS = ['tf.maximum/minimum/reduce_max/reduce_min semantics',
               'configurations rejected by verify_hyperparameters do not occur']

LL = 'lattice_lib'


def _any_edgeworth(prog, res):
  """K6: the trapezoid repair switches to the coarser, uniform update
  "whenever any Edgeworth trust is set for this layer" (documented on
  _trapezoid_violation_update): a per-vertex update on one pair of columns
  changes differences that an Edgeworth trust on ANOTHER feature compares.
  The flag may therefore depend on edgeworth_trusts only - not on the
  trapezoid constraint being repaired."""
  fn = prog.function(LL + '._approximately_project_trapezoid')
  defs = [st for st in ast.walk(fn.node) if isinstance(st, ast.Assign) and
          dotted(st.targets[0]) == 'any_edgeworth']
  if not defs:
    raise AnalysisError('_approximately_project_trapezoid: any_edgeworth is '
                        'no longer computed')
  for i, st in enumerate(defs):
    bound_here = set()
    for n in ast.walk(st.value):
      if isinstance(n, ast.comprehension):
        bound_here |= {x.id for x in ast.walk(n.target)
                       if isinstance(x, ast.Name)}
    reads = names_read(st.value) - bound_here - {'bool', 'len', 'any'}
    filt = [n for n in ast.walk(st.value) if isinstance(n, ast.Compare)
            and not (isinstance(n.ops[0], (ast.Gt, ast.NotEq)) and
                     const_value(n.comparators[0], None) == 0)]
    res.check(reads <= {'edgeworth_trusts'} and not filt, 'K6',
              '%s|any_edgeworth%s' % (fn.qualname, '#%d' % (i + 1) if i
                                      else ''), fn.loc(st),
              'any_edgeworth depends on edgeworth_trusts only',
              'any_edgeworth = `%s` depends on %s: the uniform update is '
              'skipped for trapezoid trusts whose main feature carries no '
              'Edgeworth trust, and their per-vertex update breaks Edgeworth '
              'trusts on other features' % (
                  norm_text(st.value)[:60],
                  sorted(reads - {'edgeworth_trusts'}) or 'a filter on the '
                  'trust entries'))


def run(prog, res):
  from ..rules import guards as _gsc
  _gsc.check_self_clip_order(prog, res, [f for m in ['lattice_lib'] for f in prog.module(m).all_functions()])
  res.floor('X5', 4)
  from ..rules import staleloop as _slc
  _slc.check_carried_values(prog, res, [f for f in prog.all_functions()])
  res.floor('X11', 8)
  from ..rules import hashkeys
  for q in ('lattice_lib.project_by_dykstra', 'lattice_lib._approximately_project_trapezoid'):
    hashkeys.check_function(prog, res, prog.function(q))
  res.floor('T4', 8)
  from ..rules import siblings
  siblings.selfcheck()
  for g in prog.all_functions():
    if g.parent is None and g.module.name == 'lattice_lib':
      siblings.check_function(prog, res, g)
  res.floor('CP1', 10)
  from ..rules import seqkind
  seqkind.selfcheck()
  for q in ('lattice_lib.finalize_constraints', 'lattice_lib.project_by_dykstra'):
    seqkind.check_function(prog, res, prog.function(q))
  res.floor('T3', 5)
  _wiring(prog, res)
  _order(prog, res)
  affine_rules.check_local_repairs(prog, res)
  affine_rules.check_opposed_pairs(prog, res)
  _any_edgeworth(prog, res)
  res.floor('K6', 1)
  affine_rules.check_bounds_map(prog, res)
  affine_rules.check_A4_strict(prog, res)
  res.floor('A4', 5)
  # the strict repairs visit every adjacent pair / 2x2 square
  n = stencil.check_stencils(
      prog, res, prog.function(LL + '._approximately_project_edgeworth'),
      rule='A5')
  n += stencil.check_stencils(
      prog, res, prog.function(LL + '._approximately_project_trapezoid'),
      rule='A5')
  n += stencil.check_stencils(
      prog, res, prog.function(LL + '._approximately_project_monotonicity'),
      rule='A5')
  res.floor('A5', 10)
  fns = [prog.function(LL + '.' + n) for n in (
      'finalize_constraints', '_approximately_project_bounds',
      '_approximately_project_edgeworth', '_approximately_project_trapezoid',
      '_trapezoid_violation_update', '_approximately_project_monotonicity')]
  fns += [prog.function('lattice_layer.LatticeConstraints.__call__'),
          prog.function('lattice_layer.LatticeConstraints.__init__'),
          prog.function('lattice_layer.Lattice.build')]
  for f in fns:
    roles.check_function_roles(prog, res, f)
    roles.check_clip_polarity(prog, res, f)
  numeric_opts.check(prog, res, fns)
  # 'separately for each unit': the per-unit reductions of the strict steps
  from . import C09
  C09._x1_lattice(prog, res)
  res.floor('X1', 10)
  res.floor('W1', 60)
  res.floor('W3', 6)
  res.floor('W4', 6)
  res.floor('P1', 10)
  res.floor('P2', 2)


def _wiring(prog, res):
  build = prog.function('lattice_layer.Lattice.build')
  lc = prog.cls('lattice_layer.LatticeConstraints')
  res.analysed(build)
  calls = wiring.calls_to(prog, build, lc)
  if len(calls) != 2:
    raise AnalysisError('Lattice.build: expected two LatticeConstraints(...)')
  for i, c in enumerate(calls):
    from ..cfg import enclosing_stmt
    st = enclosing_stmt(build.node, c)
    tgt = norm_text(st.targets[0]) if isinstance(st, ast.Assign) else '?'
    strict = tgt == 'self._final_constraints'
    wiring.check_forwarding(
        prog, res, build, c, lc, rule='W1',
        aliases={'enforce_strict_monotonicity': 'monotonic_at_every_step'},
        literal_ok=({'enforce_strict_monotonicity': 'strict copy',
                     'num_projection_iterations': 'strict copy uses a fixed '
                                                  'iteration count'}
                    if strict else {}),
        label='%s->LatticeConstraints@%s' % (build.qualname, tgt))
    if strict:
      kw = {k.arg: k.value for k in c.keywords}
      res.check(const_value(kw.get('enforce_strict_monotonicity')) is True,
                'W1', '%s|strict-copy-is-strict' % build.qualname,
                build.loc(c),
                'the copy used by finalize_constraints() is built with '
                'enforce_strict_monotonicity=True',
                'self._final_constraints is built with '
                'enforce_strict_monotonicity=%s: finalize_constraints() would '
                'not enforce strict feasibility in non-strict mode' % (
                    norm_text(kw.get('enforce_strict_monotonicity'))
                    if kw.get('enforce_strict_monotonicity') is not None
                    else '<default>'))
      it = const_value(kw.get('num_projection_iterations'), None)
      res.check(isinstance(it, int) and it > 0, 'W1',
                '%s|strict-copy-iterations' % build.qualname, build.loc(c),
                'strict copy iterates %s times' % it,
                'the strict copy has num_projection_iterations=%s' % (
                    norm_text(kw.get('num_projection_iterations'))
                    if kw.get('num_projection_iterations') is not None
                    else '<default>'))
  # kernel carries the training copy; finalize applies the strict copy
  C03.wiring.check_constrained_weight(
      prog, res, build, 'LATTICE_KERNEL_NAME', lc,
      implications=C03.IMPLICATIONS,
      covered_elsewhere={})
  fin = prog.function('lattice_layer.Lattice.finalize_constraints')
  res.analysed(fin)
  wiring.check_exact_store(prog, res, fin, 'kernel', '_final_constraints')
  res.floor('R1', 1)
  res.floor('R2', 1)
  # __call__ -> dykstra / finalize
  callm = lc.methods['__call__']
  res.analysed(callm)
  for tq, aliases in ((LL + '.project_by_dykstra',
                       {'num_iterations': 'num_projection_iterations'}),
                      (LL + '.finalize_constraints', {})):
    t = prog.function(tq)
    cs = wiring.calls_to(prog, callm, t)
    if len(cs) != 1:
      raise AnalysisError('LatticeConstraints.__call__: expected one call of '
                          '%s' % tq)
    wiring.check_forwarding(prog, res, callm, cs[0], t, rule='W1',
                            aliases=aliases)
  C03._implications_hold(prog, res)
  dyk = prog.function(LL + '.project_by_dykstra')
  fin_lib = prog.function(LL + '.finalize_constraints')
  for target, cov in ((dyk, {}),
                      (fin_lib, {'output_min': 'clipped after the guarded '
                                               'block (W4)',
                                 'output_max': 'same'})):
    cs = wiring.calls_to(prog, callm, target)
    guards.check_guard(prog, res, callm, cs[0], target, rule='W3',
                       covered_elsewhere=cov,
                       implications=C03.IMPLICATIONS,
                       switches=('self.enforce_strict_monotonicity',))
  # finalize_constraints forwards to its helpers
  for c in ast.walk(fin_lib.node):
    if isinstance(c, ast.Call):
      r = prog.resolve_call(fin_lib, c)
      if isinstance(r, FunctionInfo) and r.name.startswith('_approximately'):
        from ..model import call_args
        bound, _, _ = call_args(c, r.all_params)
        for p in r.all_params:
          if p in fin_lib.all_params or p == 'units':
            v = bound.get(p)
            res.check(v is not None and dotted(v) == p, 'W1',
                      '%s->%s|%s' % (fin_lib.qualname, r.name, p),
                      fin_lib.loc(c), '%s forwarded unchanged' % p,
                      '%s receives %s=%s' % (r.name, p, norm_text(v)
                                             if v is not None else
                                             '<missing>'))


def _order(prog, res):
  fn = prog.function(LL + '.finalize_constraints')
  res.analysed(fn)
  cfg = CFG(fn.node)
  order = ['_approximately_project_monotonicity',
           '_approximately_project_edgeworth',
           '_approximately_project_trapezoid',
           '_approximately_project_bounds']
  nodes = {}
  for st in ast.walk(fn.node):
    if isinstance(st, ast.Assign) and isinstance(st.value, ast.Call):
      r = prog.resolve_call(fn, st.value)
      if isinstance(r, FunctionInfo) and r.name in order:
        nodes[r.name] = (cfg.node_of(st), st)
  for nm in order:
    if nm not in nodes:
      raise AnalysisError('finalize_constraints no longer calls %s' % nm)
  for a, b in zip(order, order[1:]):
    na, nb = nodes[a][0], nodes[b][0]
    good = nb in cfg.reachable_from(na) and na not in cfg.reachable_from(nb)
    res.check(good, 'W4', '%s|%s-before-%s' % (fn.qualname, a[22:], b[22:]),
              fn.loc(nodes[b][1]), '%s runs before %s' % (a, b),
              '%s must run before %s: each strict step is designed to '
              'preserve only the constraints fixed before it' % (a, b))
  # every step consumes the previous result: weights = f(weights, ...)
  for nm in order:
    st = nodes[nm][1]
    good = dotted(st.targets[0]) == 'weights' and dotted(
        st.value.args[0]) == 'weights'
    res.check(good, 'W4', '%s|%s-chained' % (fn.qualname, nm[22:]),
              fn.loc(st), 'weights = %s(weights, ...)' % nm,
              '%s does not take and return the running `weights`' % nm)
  # monotonicity step is unconditional after the early return
  gs = structural_guards(fn.node, nodes[order[0]][1]) or []
  res.check(all(not pol for t, pol in gs) and len(gs) <= 1, 'W4',
            '%s|monotonicity-unconditional' % fn.qualname, fn.loc(),
            'the monotonic projection runs whenever some dimension is '
            'monotonic',
            'the monotonic projection in finalize_constraints is guarded by '
            '%s' % [norm_text(t) for t, p in gs])
  # LatticeConstraints.__call__: both bound clips post-dominate the rest
  callm = prog.function('lattice_layer.LatticeConstraints.__call__')
  ccfg = CFG(callm.node)
  clips = {}
  for st in callm.node.body:
    if isinstance(st, ast.If) and isinstance(st.test, ast.Compare) and \
        is_none(st.test.comparators[0]):
      b = dotted(st.test.left)
      if b in ('self.output_min', 'self.output_max'):
        clips[b] = st
  body = callm.node.body
  for b, op in (('self.output_min', 'tf.maximum'),
                ('self.output_max', 'tf.minimum')):
    st = clips.get(b)
    good = st is not None
    if good:
      idx = body.index(st)
      later = body[idx + 1:]
      # only the other clip and the return may follow
      good = all(isinstance(s, ast.Return) or s in clips.values()
                 for s in later)
      good = good and isinstance(st.test.ops[0], ast.IsNot)
    res.check(good, 'W4', '%s|final-clip:%s' % (callm.qualname, b[5:]),
              callm.loc(st) if st is not None else callm.loc(),
              'the clip to %s is the last thing that happens to w' % b[5:],
              'something other than the bound clips / return follows the '
              'clip to %s (or the clip vanished): the result can leave the '
              'bounds' % b[5:])
  ret = [s for s in body if isinstance(s, ast.Return)]
  res.check(bool(ret) and dotted(ret[-1].value) == 'w', 'W4',
            '%s|returns-w' % callm.qualname, callm.loc(),
            'returns the clipped w', '__call__ does not return w')
