"""C18 - computed keypoints: installed-API conformance and the structural
clauses of compute_keypoints (V5, K1, K2, V2, W1)."""
import ast

from ..model import (AnalysisError, dotted, norm_text, names_read, const_value,
                     is_none)
from ..cfg import structural_guards
from ..rules import api
from ..rules import validate
from ..rules import wiring
from ..rules import numeric_opts

TECHNIQUE = ('signature conformance of every NumPy call against the installed '
             'library (inspect.signature, nothing executed), clip-polarity and '
             'parallel-array lockstep lint, dispatch totality, forwarding lint')
EXPLANATION = (
    'Static analysis of necessary conditions of C18 only: every NumPy call in '
    'the keypoint code is accepted by the installed NumPy signature (V5: '
    '"returns without error" fails for every input otherwise); each clip bound '
    'is applied with the matching np.maximum/np.minimum and then appended so '
    'that it becomes an end keypoint (K1); every operation that filters, '
    'extends or reorders `values` is mirrored on `weights` with the same index '
    'or the same appended count (K2, else the weighted path fails or '
    'mis-weights); mode and reduction dispatches raise on unknown values (V2); '
    'the feature / label helpers forward each config field to the parameter of '
    'the same role (W1). Strict increase, end-point values and keypoint counts '
    'depend on data values and quantile rounding and are NOT decided here.'
    ' Also decided: clip polarity and values / weights lockstep (K1, K2), dispatch totality (V2), forwarding (W1), np.issubdtype and friends receive dtype expressions (V5t), the weighted quantile division is guarded (D3), numeric options are not truth-tested (N0).')
ASSUMPTIONS = [
    'inspect.signature of the installed NumPy describes what the call accepts',
    'np.append / boolean-mask indexing / np.unique have documented semantics',
]

FUNCS = ['premade_lib.compute_keypoints', 'premade_lib._weighted_quantile',
         'premade_lib.compute_feature_keypoints',
         'premade_lib.compute_label_keypoints']


def _no_inplace_on_arguments(prog, res):
  """K7: the keypoint helpers receive the caller's arrays (values, weights:
  any dtype, often integer counts).  Arithmetic on them must build new arrays;
  `weights /= counts` divides in place: numpy refuses it for an integer array
  (UFuncTypeError instead of keypoints) and otherwise overwrites the caller's
  data."""
  n = 0
  for q in ('compute_keypoints', '_weighted_quantile',
            'compute_label_keypoints', 'compute_feature_keypoints',
            'compute_custom_label_keypoints'):
    try:
      fn = prog.function('premade_lib.' + q)
    except AnalysisError:
      continue
    res.analysed(fn)
    params = set(fn.all_params)
    # names that still alias an argument: the parameter itself until it is
    # rebound to a fresh array (np.array / astype / arithmetic / indexing
    # with a mask all copy; np.asarray and plain names do not)
    bad = []
    for st in ast.walk(fn.node):
      if isinstance(st, ast.AugAssign) and isinstance(
          st.target, ast.Name) and st.target.id in params and isinstance(
              st.op, (ast.Div, ast.Mult, ast.Sub, ast.Add, ast.FloorDiv,
                      ast.Pow)) and not isinstance(
                          st.value, (ast.List, ast.Tuple)):
        bad.append(st)
    n += 1
    res.check(not bad, 'K7', '%s|in-place' % fn.qualname,
              fn.loc(bad[0] if bad else None),
              'no augmented arithmetic on an argument array',
              '`%s` updates the argument `%s` in place: integer / bool arrays '
              'raise UFuncTypeError (same_kind casting) and the caller\'s '
              'array is overwritten' % (
                  norm_text(bad[0])[:50] if bad else '',
                  bad[0].target.id if bad else ''))
  return n


def run(prog, res):
  total = unres = 0
  for q in FUNCS:
    fn = prog.function(q)
    c, u = api.check_calls(prog, res, fn, roots=('np',))
    api.check_dtype_args(prog, res, fn)
    total += c
    unres += u
  res.extra['numpy_calls_checked'] = total
  res.extra['numpy_calls_without_introspectable_signature'] = unres
  res.floor('V5', 20)
  res.floor('V5t', 2)
  _no_inplace_on_arguments(prog, res)
  res.floor('K7', 3)
  # K8: labels of EVERY numeric dtype - integer class ids and counts included
  # - take the numeric branch; np.floating / np.inexact would send integer
  # labels down the string branch (keypoints 0..n-1 instead of label values)
  fn = prog.function('premade_lib.compute_label_keypoints')
  calls = [c for c in ast.walk(fn.node) if isinstance(c, ast.Call) and (
      prog.ext_name(fn.module, c.func) or '') == 'np.issubdtype']
  if not calls:
    raise AnalysisError('compute_label_keypoints: the numeric-dtype test '
                        'vanished')
  for i, c in enumerate(calls):
    kind = dotted(c.args[1]) if len(c.args) > 1 else None
    res.check(kind == 'np.number', 'K8',
              'premade_lib.compute_label_keypoints|numeric-dtype%s' % (
                  '#%d' % (i + 1) if i else ''), fn.loc(c),
              'numeric labels are recognised with np.number',
              'labels are tested with np.issubdtype(..., %s): integer labels '
              'are not numeric under this test and are treated as category '
              'names' % kind)
  res.floor('K8', 1)
  from ..rules import divisors
  divisors.check(prog, res, [prog.function(q) for q in FUNCS])
  res.floor('D3', 1)
  ck = prog.function('premade_lib.compute_keypoints')
  _clip_polarity(prog, res, ck)
  _lockstep(prog, res, ck)
  _order_and_bookkeeping(prog, res)
  res.floor('W4', 1)
  n = validate.check_dispatch(prog, res, ck, 'keypoints')
  n += validate.check_dispatch(prog, res, ck, 'weight_reduction')
  res.floor('V2', 2)
  _forwarding(prog, res, ck)
  numeric_opts.check(prog, res, [prog.function(q) for q in FUNCS])
  res.floor('N0', 4)
  res.floor('K1', 4)
  res.floor('K2', 4)
  res.floor('W1', 9)


def _clip_polarity(prog, res, fn):
  """K1: under `clip_min is not None`: values = np.maximum(values, clip_min)
  then np.append(values, clip_min); dually for clip_max."""
  want = {'clip_min': 'np.maximum', 'clip_max': 'np.minimum'}
  for bound, op in sorted(want.items()):
    blocks = [n for n in ast.walk(fn.node) if isinstance(n, ast.If)
              and isinstance(n.test, ast.Compare)
              and dotted(n.test.left) == bound
              and isinstance(n.test.ops[0], ast.IsNot)
              and is_none(n.test.comparators[0])]
    body = blocks[0].body if blocks else fn.node.body
    b = blocks[0] if blocks else fn.node
    clip = app = None
    for st in (body if blocks else [n for n in ast.walk(fn.node)
                                    if isinstance(n, ast.Assign)]):
      if isinstance(st, ast.Assign) and isinstance(st.value, ast.Call):
        ext = prog.ext_name(fn.module, st.value.func)
        args = [dotted(a) for a in st.value.args]
        if ext in ('np.maximum', 'np.minimum') and 'values' in args:
          clip = (ext, args, st)
        if ext == 'np.clip' and args[:1] == ['values']:
          kw = {k.arg: dotted(k.value) for k in st.value.keywords}
          lo = kw.get('a_min', args[1] if len(args) > 1 else None)
          hi = kw.get('a_max', args[2] if len(args) > 2 else None)
          # np.clip(values, clip_min, clip_max) applies max with a_min and
          # min with a_max
          if bound == 'clip_min' and lo == 'clip_min':
            clip = ('np.maximum', ['values', 'clip_min'], st)
          elif bound == 'clip_max' and hi == 'clip_max':
            clip = ('np.minimum', ['values', 'clip_max'], st)
          else:
            clip = ('np.clip(%s,%s)' % (lo, hi), [], st)
        if ext == 'np.append' and args[:1] == ['values']:
          app = (args, st)
          if len(st.value.args) > 1 and args[1] is None or (
              len(args) > 1 and args[1] != bound):
            # appended operand is a local: accept when it derives from bound
            from ..rules.wiring import FnCtx
            reads = FnCtx.of(fn).expand_reads(st.value.args[1])
            if bound in reads:
              app = (['values', bound], st)
    key = '%s|%s' % (fn.qualname, bound)
    res.check(clip is not None and clip[0] == op and bound in clip[1], 'K1',
              key + '|clip', fn.loc(clip[2] if clip else b),
              '%s applied with %s' % (bound, op),
              '%s must be applied with %s(values, %s); found %s' % (
                  bound, op, bound, clip[0] if clip else 'no clip'))
    res.check(app is not None and app[0][1:2] == [bound], 'K1',
              key + '|append', fn.loc(app[1] if app else b),
              '%s appended so that it becomes an end keypoint' % bound,
              'the clip bound %s is not appended to values: the end keypoint '
              'is not the clip bound' % bound)


def _shape_op(prog, fn, st, arr):
  """Kind of length/order changing operation st performs on array `arr`."""
  if not isinstance(st, ast.Assign):
    return None
  tnames = [dotted(t) for t in st.targets]
  v = st.value
  if tnames == [arr] and isinstance(v, ast.Subscript) and dotted(
      v.value) == arr and isinstance(v.slice, ast.Name):
    return ('index', v.slice.id)
  if tnames == [arr] and isinstance(v, ast.Call):
    ext = prog.ext_name(fn.module, v.func)
    if ext == 'np.append' and dotted(v.args[0]) == arr:
      return ('append', _cardinality(fn, v.args[1] if len(v.args) > 1 else
                                     None))
    if ext == 'np.add.reduceat' and dotted(v.args[0]) == arr:
      return ('reduceat', dotted(v.args[1]))
  if isinstance(v, ast.Call) and prog.ext_name(fn.module, v.func) == \
      'np.unique' and v.args and dotted(v.args[0]) == arr:
    kws = {k.arg for k in v.keywords}
    if 'return_index' in kws and isinstance(st.targets[0], ast.Tuple):
      names = [dotted(e) for e in st.targets[0].elts]
      return ('unique', names[1] if len(names) > 1 else None)
    return ('unique', None)
  return None


def _cardinality(fn, operand):
  """'one' for a scalar operand, 'seq:<source>' for a sequence-valued one
  (the number of appended elements is then len(<source>))."""
  if operand is None:
    return 'one'
  if isinstance(operand, ast.Constant) or (
      dotted(operand) in ('clip_min', 'clip_max')):
    return 'one'
  if isinstance(operand, (ast.List, ast.Tuple)):
    return 'n:%d' % len(operand.elts)
  if isinstance(operand, ast.Name):
    return 'seq:%s' % operand.id
  # [0] * len(x), np.zeros(len(x)), np.zeros_like(x)
  for n in ast.walk(operand):
    if isinstance(n, ast.Call) and dotted(n.func) in ('len', 'np.zeros_like',
                                                      'np.ones_like') and \
        n.args and isinstance(n.args[0], ast.Name):
      return 'seq:%s' % n.args[0].id
  return 'unknown:%s' % norm_text(operand)[:30]


def _lockstep(prog, res, fn):
  """K2: values/weights stay parallel arrays."""
  body = fn.node.body
  ops = []   # (array, kind, stmt, guards)
  for st in ast.walk(fn.node):
    if not isinstance(st, ast.Assign):
      continue
    for arr in ('values', 'weights'):
      k = _shape_op(prog, fn, st, arr)
      if k:
        gs = structural_guards(fn.node, st) or []
        ops.append((arr, k, st, gs))
  ops.sort(key=lambda o: o[2].lineno)

  def weights_absent(gs):
    for t, pol in gs:
      if (isinstance(t, ast.Compare) and dotted(t.left) == 'weights'
          and is_none(t.comparators[0])):
        if isinstance(t.ops[0], ast.Is) and pol:
          return True
        if isinstance(t.ops[0], ast.IsNot) and not pol:
          return True
    return False

  def weights_present(gs):
    for t, pol in gs:
      if (isinstance(t, ast.Compare) and dotted(t.left) == 'weights'
          and is_none(t.comparators[0])):
        if isinstance(t.ops[0], ast.IsNot) and pol:
          return True
        if isinstance(t.ops[0], ast.Is) and not pol:
          return True
    return False

  vops = [o for o in ops if o[0] == 'values']
  n = 0
  for i, (arr, kind, st, gs) in enumerate(vops):
    if weights_absent(gs):
      continue   # unweighted branch: nothing to mirror
    n += 1
    nxt = vops[i + 1][2].lineno if i + 1 < len(vops) else 10 ** 9
    want = kind
    if kind[0] == 'unique':
      want = ('reduceat', kind[1])
    mirror = [o for o in ops if o[0] == 'weights' and o[1] == want
              and st.lineno < o[2].lineno < nxt]
    key = '%s|values:%s:%s#%d' % (fn.qualname, kind[0], kind[1], n)
    good = bool(mirror) and (weights_present(mirror[0][3]) or
                             weights_present(gs))
    res.check(good, 'K2', key, fn.loc(st),
              '`%s` mirrored on weights by `%s`' % (
                  norm_text(st)[:50],
                  norm_text(mirror[0][2])[:50] if mirror else ''),
              '`%s` changes the length/order of values but weights is not '
              'updated the same way (%s expected under `weights is not None`) '
              'before the next such operation' % (norm_text(st)[:50], want))
  return n


def _forwarding(prog, res, ck):
  f = prog.function('premade_lib.compute_feature_keypoints')
  calls = wiring.calls_to(prog, f, ck)
  if len(calls) != 1:
    raise AnalysisError('compute_feature_keypoints: expected one call of '
                        'compute_keypoints')
  fc = prog.cls('configs.FeatureConfig')
  attrs = set(fc.methods['__init__'].all_params)
  wiring.check_forwarding(
      prog, res, f, calls[0], ck, rule='W1', owner='feature_config',
      owner_attrs=attrs,
      aliases={'num_keypoints': 'pwl_calibration_num_keypoints',
               'keypoints': 'pwl_calibration_input_keypoints',
               'clip_min': 'pwl_calibration_clip_min',
               'clip_max': 'pwl_calibration_clip_max',
               'default_value': 'default_value'})
  _params_forwarded(res, f, calls[0], ('weights', 'weight_reduction'))
  g = prog.function('premade_lib.compute_label_keypoints')
  calls = wiring.calls_to(prog, g, ck)
  if len(calls) != 1:
    raise AnalysisError('compute_label_keypoints: expected one call of '
                        'compute_keypoints')
  mc = prog.cls('configs.CalibratedLatticeConfig')
  attrs = set(mc.methods['__init__'].all_params)
  wiring.check_forwarding(
      prog, res, g, calls[0], ck, rule='W1', owner='model_config',
      owner_attrs=attrs,
      aliases={'num_keypoints': 'output_calibration_num_keypoints',
               'keypoints': 'output_initialization',
               'clip_min': 'output_min', 'clip_max': 'output_max'})
  _params_forwarded(res, g, calls[0], ('weights', 'weight_reduction'))


def _params_forwarded(res, fn, call, names):
  kw = {k.arg: k.value for k in call.keywords}
  for n in names:
    v = kw.get(n)
    res.check(v is not None and dotted(v) == n, 'W1',
              '%s->compute_keypoints|%s' % (fn.qualname, n), fn.loc(call),
              'parameter %s forwarded' % n,
              'parameter %s of %s is not forwarded to compute_keypoints' % (
                  n, fn.name))


def _order_and_bookkeeping(prog, res):
  """W4 / K4 of C18.
  (a) compute_keypoints removes default-valued examples BEFORE it appends the
  clip bounds as zero-weight sentinels: the sentinels make the first / last
  keypoint equal the clip bounds, and a default value that equals a clip
  bound would otherwise strip the sentinel (and everything clipped onto it).
  Decided by dominance on the CFG.
  (b) the duplicate repair of _weighted_quantile records as used exactly the
  index it stores (`used_idx.add(c)` and `quantiles_idx[i] = c` with the same
  c under the same test that c is free): recording another value lets two
  repairs pick the same neighbour and return duplicated keypoints."""
  from ..cfg import CFG, enclosing_stmt
  ck = prog.function('premade_lib.compute_keypoints')
  res.analysed(ck)
  cfg = CFG(ck.node)
  removal = None
  appends = []
  for st in ast.walk(ck.node):
    if isinstance(st, ast.Assign) and dotted(st.targets[0]) == 'values':
      v = st.value
      if isinstance(v, ast.Subscript) and dotted(v.value) == 'values' and \
          'default' in (dotted(v.slice) or ''):
        removal = st
      if isinstance(v, ast.Call) and (prog.ext_name(ck.module, v.func) or ''
                                      ) == 'np.append' and len(v.args) == 2 \
          and (dotted(v.args[1]) or '').startswith('clip_'):
        appends.append(st)
  if removal is None or len(appends) != 2:
    raise AnalysisError('compute_keypoints: default removal / the two clip '
                        'sentinel appends were not found (%s, %d)' % (
                            removal is not None, len(appends)))
  rn = cfg.node_of(removal)
  dom = cfg.dominators()
  late = [a for a in appends if rn not in dom[cfg.node_of(a)]]
  res.check(not late, 'W4', 'premade_lib.compute_keypoints|default-before-'
            'sentinels', ck.loc(removal),
            'default values are removed before the clip sentinels are '
            'appended',
            'the clip bound is appended as a sentinel (`%s`) before the '
            'default values are removed: a default value equal to that clip '
            'bound strips the sentinel and the first / last keypoint is no '
            'longer the clip bound' % (norm_text(late[0])[:50] if late
                                       else ''))
  wq = prog.function('premade_lib._weighted_quantile')
  res.analysed(wq)
  adds = [c for c in ast.walk(wq.node) if isinstance(c, ast.Call) and
          isinstance(c.func, ast.Attribute) and c.func.attr == 'add' and
          dotted(c.func.value) == 'used_idx' and c.args]
  stores = [st for st in ast.walk(wq.node) if isinstance(st, ast.Assign) and
            isinstance(st.targets[0], ast.Subscript) and dotted(
                st.targets[0].value) == 'quantiles_idx']
  if len(adds) != 1 or len(stores) != 1:
    raise AnalysisError('_weighted_quantile: repair bookkeeping changed '
                        'shape (%d adds, %d stores)' % (len(adds),
                                                       len(stores)))
  # the repair loop visits every position: the loop that contains the store
  # `quantiles_idx[i] = ...` ranges over i = 0 (or 1: position 0 is always a
  # first use) .. len(quantiles_idx) - 1
  idx = dotted(stores[0].targets[0].slice)
  loops = [l for l in ast.walk(wq.node) if isinstance(l, ast.For) and any(
      isinstance(t, ast.Name) and t.id == idx for t in ast.walk(l.target))
           and any(x is stores[0] for x in ast.walk(l))]
  if len(loops) != 1:
    raise AnalysisError('_weighted_quantile: the loop over the positions of '
                        'quantiles_idx was not found')
  it = loops[0].iter
  full = False
  if isinstance(it, ast.Call) and dotted(it.func) == 'range' and \
      not it.keywords and 1 <= len(it.args) <= 2:
    start = const_value(it.args[0], None) if len(it.args) == 2 else 0
    stop = norm_text(it.args[-1]).replace(' ', '')
    full = start in (0, 1) and stop == 'len(quantiles_idx)'
  elif isinstance(it, ast.Call) and dotted(it.func) == 'enumerate' and \
      it.args and dotted(it.args[0]) == 'quantiles_idx':
    full = True
  res.check(full, 'K2', 'premade_lib._weighted_quantile|repair-covers-all',
            wq.loc(loops[0]),
            'every position of quantiles_idx is examined for a repeated index',
            'the repair loop ranges over `%s`: positions outside it keep a '
            'repeated quantile index and the keypoints contain duplicates' %
            norm_text(it)[:60])
  # "is this position a repeat?" must not be decided by reading another entry
  # of the very sequence the loop rewrites (the third of three equal indices
  # would be compared with the already replaced second one)
  rewritten = []
  for t, _pol in structural_guards(wq.node, stores[0]) or []:
    for sub in ast.walk(t):
      if isinstance(sub, ast.Subscript) and dotted(
          sub.value) == 'quantiles_idx' and dotted(sub.slice) != idx:
        rewritten.append(norm_text(sub))
  res.check(not rewritten, 'K2',
            'premade_lib._weighted_quantile|repeat-test-stable', wq.loc(
                loops[0]),
            'the repeat test does not read entries the loop may have replaced',
            'the repair is guarded by `%s`, an entry of quantiles_idx that an '
            'earlier iteration may already have replaced: with three equal '
            'indices the third is judged "not repeated"' % (
                rewritten[0] if rewritten else ''))
  a, s = norm_text(adds[0].args[0]), norm_text(stores[0].value)
  gs = structural_guards(wq.node, adds[0]) or []
  free_test = any(isinstance(c, ast.Compare) and isinstance(
      c.ops[0], ast.NotIn) and norm_text(c.left) == a and dotted(
          c.comparators[0]) == 'used_idx' for t, p in gs if p
                  for c in ast.walk(t))
  if not free_test and a == s:
    # the candidate comes from a helper: every non-None value the helper
    # returns is tested to be free of the set it was handed
    from ..model import call_args
    for d in ast.walk(wq.node):
      if isinstance(d, ast.Assign) and len(d.targets) == 1 and norm_text(
          d.targets[0]) == a and isinstance(d.value, ast.Call):
        h = prog.resolve_call(wq, d.value)
        if getattr(h, 'node', None) is None or not hasattr(h, 'all_params'):
          continue
        bound, _, _ = call_args(d.value, h.all_params)
        ps = [p_ for p_, v in bound.items() if dotted(v) == 'used_idx']
        rets = [r for r in ast.walk(h.node) if isinstance(r, ast.Return) and
                r.value is not None and not is_none(r.value)]
        if len(ps) == 1 and rets and all(any(
            pol and any(isinstance(c, ast.Compare) and isinstance(
                c.ops[0], ast.NotIn) and norm_text(c.left) == norm_text(
                    r.value) and dotted(c.comparators[0]) == ps[0]
                        for c in ast.walk(t))
            for t, pol in (structural_guards(h.node, r) or []))
                                         for r in rets):
          free_test = True
  res.check(a == s and free_test, 'K2',
            'premade_lib._weighted_quantile|used-is-stored', wq.loc(adds[0]),
            'the index recorded as used is the index stored, and it was '
            'tested to be free',
            'the repair records `%s` as used but stores `%s` (tested free: '
            '%s): a later repair can choose the same neighbour and the '
            'keypoints contain duplicates' % (a, s, free_test))
