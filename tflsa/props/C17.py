"""C17 - ensemble structures: determinism and wiring agreement (X4, W7)."""
import ast

from ..model import (AnalysisError, dotted, norm_text, names_read, const_value,
                     fold_ifexp)
from ..cfg import CFG, structural_guards
from ..rules import rng
from ..rules.wiring import FnCtx

TECHNIQUE = ('RNG-discipline dataflow (every draw dominated by seeding from '
             'the configured seed), order/key agreement between the sites '
             'that build, index and label the RTL structure')
EXPLANATION = (
    'Static analysis of the structural clauses of C17; coverage, balance of '
    'usage counts, exact fill and the Crystals pair cover are invariants of '
    'randomised algorithms over all seeds and sizes and are NOT decided. '
    'Decided: every random draw in the three structure functions comes from a '
    'RandomState / global RNG seeded with the configured random_seed on every '
    'path (X4); in RTL the monotonicity tuple and the input index list of a '
    'lattice are projections of the same sorted sequence with nothing in '
    'between, build() keys the lattice layers by the same expression call() '
    'looks them up with, call() and _get_rtl_structure() flatten the input '
    'dict in the same sorted-key order with "increasing" mapped to '
    'monotonicity 1, call() and compute_output_shape() label a lattice output '
    'by max(monotonicities), and the lattice layers receive the '
    'monotonicities of their own group (W7); the random ensemble fills each '
    'lattice by sampling without replacement from the features not already in '
    'it (W7); in the Crystals placement every full lattice scores strictly '
    'below every lattice with a free slot in each of the five abstract '
    'states (full / holds the feature / empty), the best score is taken, and '
    'the number of placements equals num_lattices * lattice_rank, so no '
    'lattice exceeds lattice_rank (W7).'
    ' The Crystals score normalisations are guarded against a zero divisor (D3; the slot allocation is a known finding).')
ASSUMPTIONS = ['np.random.RandomState(seed) / np.random.seed(seed) make all '
               'later draws a function of the seed',
               'sorted() of the two dict key strings is stable']

R = 'rtl_layer.RTL'


def run(prog, res):
  rng.check_seed_only(prog, res, R + '._get_rtl_structure', rule='X4',
                      min_sites=3)
  rng.check_seed_only(prog, res, 'premade_lib.set_random_lattice_ensemble',
                      rule='X4', min_sites=3)
  rng.check_seed_only(prog, res, 'premade_lib._set_all_pairs_cover_lattices',
                      rule='X4', min_sites=2)
  # no other structure function draws random numbers unseeded
  for q in ('premade_lib._add_pair_to_ensemble',
            'premade_lib._get_final_crystal_lattices',
            'premade_lib.set_crystals_lattice_ensemble',
            'premade_lib.construct_prefitting_model_config'):
    fn = prog.function(q)
    res.analysed(fn)
    draws = [c for c in ast.walk(fn.node) if isinstance(c, ast.Call) and (
        prog.ext_name(fn.module, c.func) or '').startswith(
            ('np.random', 'random.', 'tf.random'))]
    res.check(not draws, 'X4', '%s|no-rng' % q, fn.loc(),
              'draws no random numbers',
              '%s draws random numbers (%s) outside the seeded structure '
              'functions' % (q, norm_text(draws[0]) if draws else ''))
  _w7_structure(prog, res)
  _w7_flatten(prog, res)
  _w7_keys(prog, res)
  _w7_random_ensemble(prog, res)
  _w7_crystals(prog, res)
  from ..rules import divisors
  divisors.check(prog, res, [prog.function(q) for q in (
      'premade_lib._get_torsions_and_laplacians',
      'premade_lib._get_final_crystal_lattices')])
  res.floor('D3', 2)
  res.floor('X4', 10)
  res.floor('W7', 14)


def _w7_structure(prog, res):
  fn = prog.function(R + '._get_rtl_structure')
  res.analysed(fn)
  _index_counter(prog, res)
  loop = None
  for n in ast.walk(fn.node):
    if isinstance(n, ast.For) and dotted(n.iter) == 'lattices' and dotted(
        n.target) == 'lattice':
      if any(isinstance(c, ast.Call) and isinstance(c.func, ast.Attribute)
             and c.func.attr == 'sort' for c in ast.walk(n)):
        loop = n
  if loop is None:
    raise AnalysisError('_get_rtl_structure: per-lattice sort loop not found')
  body = loop.body
  kinds = []
  for st in body:
    if isinstance(st, ast.Expr) and isinstance(st.value, ast.Call) and \
        isinstance(st.value.func, ast.Attribute) and \
        st.value.func.attr == 'sort' and dotted(
            st.value.func.value) == 'lattice':
      kw = {k.arg: k.value for k in st.value.keywords}
      key = kw.get('key')
      by_mono = isinstance(key, ast.Lambda) and isinstance(
          key.body, ast.Attribute) and key.body.attr == 'monotonicity'
      kinds.append(('sort', by_mono, st))
    elif isinstance(st, ast.Assign):
      tgt = dotted(st.targets[0])
      comp = None
      for c in ast.walk(st.value):
        if isinstance(c, (ast.GeneratorExp, ast.ListComp)):
          comp = c
      if comp is not None and dotted(comp.generators[0].iter) == 'lattice' \
          and isinstance(comp.elt, ast.Attribute):
        kinds.append(('proj:%s' % comp.elt.attr, tgt, st))
      elif 'lattice' in names_read(st.value):
        kinds.append(('other', tgt, st))
    elif isinstance(st, ast.Expr) and isinstance(st.value, ast.Call):
      kinds.append(('call', norm_text(st.value.func), st))
    else:
      kinds.append(('other', None, st))
  seq = [k[0] for k in kinds]
  # by value: after the sort, the grouping key and the appended value - with
  # the locals they pass through replaced by their definitions - are the
  # projections (attribute of every element, in order) of the sorted `lattice`
  import copy as _copy
  env = {}

  class _S(ast.NodeTransformer):
    def visit_Name(self, n):
      if isinstance(n.ctx, ast.Load) and n.id in env:
        return _copy.deepcopy(env[n.id])
      return n
  sort_pos = [i for i, k in enumerate(kinds) if k[0] == 'sort']
  app = None
  app_pos = None
  for i, st in enumerate(body):
    if isinstance(st, ast.Assign) and len(st.targets) == 1 and isinstance(
        st.targets[0], ast.Name):
      env[st.targets[0].id] = _S().visit(_copy.deepcopy(st.value))
    for c in ast.walk(st):
      if isinstance(c, ast.Call) and isinstance(c.func, ast.Attribute) and \
          c.func.attr == 'append' and isinstance(c.func.value, ast.Subscript):
        app = _S().visit(_copy.deepcopy(c))
        app_pos = i

  def projection(e):
    """attribute name when e is tuple(...)/list(...)/[...] of x.attr for x in
    lattice"""
    if isinstance(e, ast.Call) and dotted(e.func) in ('tuple', 'list') and \
        len(e.args) == 1:
      e = e.args[0]
    if isinstance(e, (ast.GeneratorExp, ast.ListComp)) and len(
        e.generators) == 1 and not e.generators[0].ifs and dotted(
            e.generators[0].iter) == 'lattice' and isinstance(
                e.elt, ast.Attribute) and dotted(e.elt.value) == dotted(
                    e.generators[0].target):
      return e.elt.attr
    return None
  key_attr = projection(app.func.value.slice) if app is not None else None
  val_attr = projection(app.args[0]) if app is not None and app.args else None
  sorted_first = bool(sort_pos) and kinds[sort_pos[0]][1] and \
      app_pos is not None and body.index(kinds[sort_pos[0]][2]) < app_pos and \
      not any(k[0] == 'other' for k in kinds)
  good = sorted_first and key_attr == 'monotonicity' and \
      val_attr == 'input_index'
  res.check(good, 'W7', '%s|same-sorted-sequence' % fn.qualname,
            fn.loc(loop),
            'lattice.sort(by monotonicity); monotonicities and input indices '
            'are both read from that sorted list',
            'the monotonicity tuple and the input index list of a lattice are '
            'no longer projections of the same sorted sequence (statement '
            'kinds: %s; key %s, value %s): inputs would be wired to dimensions '
            'with another input\'s monotonicity' % (seq, key_attr, val_attr))
  good = app is not None and key_attr == 'monotonicity' and \
      val_attr == 'input_index'
  res.check(good, 'W7', '%s|group-by-monotonicities' % fn.qualname,
            fn.loc(loop),
            'lattices are grouped by their monotonicity tuple; the group holds '
            'their input index lists',
            'the grouping dict is not keyed by the monotonicity tuple with the '
            'index list as value')
  # 'increasing' -> 1, 'unconstrained' -> 0: the statements of the loop over
  # input keys are executed for each key (tests on input_key decided by the
  # spelling evaluator) and the constant stored in `monotonicity` is read off
  from ..rules import spelling
  kl = [l for l in ast.walk(fn.node) if isinstance(l, ast.For) and (
      dotted(l.target) == 'input_key' or (
          isinstance(l.target, ast.Tuple) and any(
              dotted(e) == 'input_key' for e in l.target.elts)))]
  if not kl:
    raise AnalysisError('%s: loop over input_key not found' % fn.qualname)
  m = {}
  for key in ('unconstrained', 'increasing'):
    ev = spelling.Ev('input_key', key)

    def run(stmts):
      for st in stmts:
        st = fold_ifexp(st)
        if isinstance(st, ast.If):
          t = ev.truth(st.test)
          if t is True:
            if run(st.body):
              return True
          elif t is False:
            if run(st.orelse):
              return True
          continue
        if isinstance(st, ast.Raise):
          m[key] = 'raises'
          return True
        if isinstance(st, ast.Assign) and dotted(st.targets[0]) == \
            'monotonicity':
          v = st.value
          if isinstance(v, ast.IfExp):
            t = ev.truth(v.test)
            v = v.body if t is True else (v.orelse if t is False else v)
          m[key] = const_value(v, None)
      return False
    run(kl[0].body)
  res.check(m == {'unconstrained': 0, 'increasing': 1}, 'W7',
            '%s|key->monotonicity' % fn.qualname, fn.loc(),
            "'increasing' inputs get monotonicity 1, 'unconstrained' 0",
            'input keys map to monotonicities %s, expected increasing->1, '
            'unconstrained->0' % m)


def _index_counter(prog, res):
  """W7 (index counter): _get_rtl_structure numbers the flattened input
  columns with a running counter.  Every _RTLInput takes the next column: the
  counter advances by exactly as many columns as were handed out - `+= 1`
  next to an append in the per-unit loop, or `+= n` after a comprehension
  over range(n) that uses `counter + k`.  An advance that does not match
  makes the indices of multi-unit inputs overlap (all in range, nothing
  crashes; columns are gathered twice or never)."""
  fn = prog.function('rtl_layer.RTL._get_rtl_structure')
  sites = [c for c in ast.walk(fn.node) if isinstance(c, ast.Call) and
           dotted(c.func) == '_RTLInput']
  if not sites:
    raise AnalysisError('_get_rtl_structure: _RTLInput(...) not found')
  for i, c in enumerate(sites):
    kw = {k.arg: k.value for k in c.keywords}
    e = kw.get('input_index')
    if e is None:
      raise AnalysisError('_get_rtl_structure: _RTLInput without input_index')
    counter = None
    offset = None
    if isinstance(e, ast.Name):
      counter = e.id
    elif isinstance(e, ast.BinOp) and isinstance(e.op, ast.Add) and \
        isinstance(e.left, ast.Name) and isinstance(e.right, ast.Name):
      counter, offset = e.left.id, e.right.id
    elif isinstance(e, ast.Call) and dotted(e.func) == 'len':
      continue      # len(rtl_inputs): self-counting, nothing to advance
    else:
      raise AnalysisError('_get_rtl_structure: input_index=%s not '
                          'understood' % norm_text(e))
    # how many are handed out per execution of the enclosing statement
    per = None
    comp = None
    for n in ast.walk(fn.node):
      if isinstance(n, (ast.GeneratorExp, ast.ListComp)) and any(
          x is c for x in ast.walk(n)):
        comp = n
    incs = [a for a in ast.walk(fn.node) if isinstance(a, ast.AugAssign) and
            isinstance(a.op, ast.Add) and dotted(a.target) == counter]
    if len(incs) != 1:
      raise AnalysisError('_get_rtl_structure: %d advances of %s' % (
          len(incs), counter))
    inc = incs[0]
    if comp is None:
      # append inside a loop body: advance by one in the same body
      loops = [l for l in ast.walk(fn.node) if isinstance(l, ast.For) and any(
          x is c for st in l.body for x in ast.walk(st))]
      inner = loops[-1] if loops else None
      good = offset is None and const_value(inc.value, None) == 1 and \
          inner is not None and any(st is inc for st in inner.body)
      why = 'one column per append, advance %s in %s' % (
          norm_text(inc.value), 'the same loop' if inner is not None and any(
              st is inc for st in inner.body) else 'another block')
    else:
      g = comp.generators[0]
      n_text = norm_text(g.iter.args[0]) if isinstance(
          g.iter, ast.Call) and dotted(g.iter.func) == 'range' and len(
              g.iter.args) == 1 else None
      good = offset is not None and dotted(g.target) == offset and \
          n_text is not None and norm_text(inc.value) == n_text
      why = '%s columns per comprehension, advance %s' % (
          n_text, norm_text(inc.value))
    res.check(good, 'W7', 'rtl_layer.RTL._get_rtl_structure|index-counter%s'
              % ('#%d' % (i + 1) if i else ''), fn.loc(c),
              'the column counter advances by the number of columns handed '
              'out (%s)' % why,
              'the column counter `%s` does not advance by the number of '
              'columns handed out (%s): indices of multi-unit inputs overlap '
              'and no longer match the concatenation in call()' % (counter,
                                                                  why))


def _sorted_keys_loop(fn, arg):
  for n in ast.walk(fn.node):
    if isinstance(n, ast.For) and isinstance(n.iter, ast.Call) and dotted(
        n.iter.func) == 'sorted' and len(n.iter.args) == 1 and not \
        n.iter.keywords:
      a = n.iter.args[0]
      if isinstance(a, ast.Call) and isinstance(a.func, ast.Attribute) and \
          a.func.attr == 'keys' and dotted(a.func.value) == arg:
        return n
      if dotted(a) == arg:
        return n
  return None


def _w7_flatten(prog, res):
  call = prog.function(R + '.call')
  st = prog.function(R + '._get_rtl_structure')
  res.analysed(call, st)
  l1 = _sorted_keys_loop(call, call.all_params[0])
  l2 = _sorted_keys_loop(st, 'input_shape')
  res.check(l1 is not None and l2 is not None, 'W7',
            '%s|flatten-order' % R,
            call.loc(l1) if l1 is not None else call.loc(),
            'call() and _get_rtl_structure() both iterate sorted(<dict>.keys())',
            'call() and _get_rtl_structure() no longer flatten the input dict '
            'in the same (sorted key) order (call: %s, structure: %s): input '
            'indices recorded at build time point at other columns' % (
                'sorted' if l1 is not None else 'NOT sorted',
                'sorted' if l2 is not None else 'NOT sorted'))
  # call concatenates on the feature axis and gathers on the same axis
  cat = gat = None
  for c in ast.walk(call.node):
    if isinstance(c, ast.Call):
      ext = prog.ext_name(call.module, c.func)
      kw = {k.arg: k.value for k in c.keywords}
      if ext == 'tf.concat' and dotted(c.args[0]) == 'input_tensors':
        cat = const_value(kw.get('axis', c.args[1] if len(c.args) > 1
                                 else None))
      if ext == 'tf.gather' and dotted(c.args[0]) == 'flattened_input':
        gat = (const_value(kw.get('axis')), dotted(c.args[1]))
  res.check(cat == 1 and gat is not None and gat[0] == 1 and gat[1] ==
            'inputs_for_units', 'W7', '%s|gather-axis' % R, call.loc(),
            'inputs are concatenated and gathered on axis 1 with the recorded '
            'index lists',
            'call() no longer gathers the recorded indices from axis 1 of the '
            'axis-1 concatenation (concat axis %s, gather %s)' % (cat, gat))


def _w7_keys(prog, res):
  build = prog.function(R + '.build')
  call = prog.function(R + '.call')
  shape = prog.function(R + '.compute_output_shape')
  res.analysed(build, call, shape)
  wkeys = []
  for st in ast.walk(build.node):
    if isinstance(st, ast.Assign) and isinstance(st.targets[0],
                                                 ast.Subscript) and dotted(
        st.targets[0].value) == 'self._lattice_layers':
      wkeys.append(norm_text(st.targets[0].slice))
  rkeys = []
  for s in ast.walk(call.node):
    if isinstance(s, ast.Subscript) and dotted(s.value) == \
        'self._lattice_layers' and isinstance(s.ctx, ast.Load):
      rkeys.append(norm_text(s.slice))
  good = bool(wkeys) and bool(rkeys) and len(set(wkeys) | set(rkeys)) == 1 \
      and 'monotonicities' in wkeys[0]
  res.check(good, 'W7', '%s|layer-key' % R, build.loc(),
            'build() stores and call() looks up lattice layers under %s' % (
                wkeys[0] if wkeys else '?'),
            'build() stores lattice layers under %s but call() looks them up '
            'under %s' % (sorted(set(wkeys)), sorted(set(rkeys))))
  # loop variables come from the same structure, unpacked alike
  for fn in (build, call, shape):
    ok = False
    for n in ast.walk(fn.node):
      # a for statement or a comprehension clause over the structure
      if isinstance(n, (ast.For, ast.comprehension)) and dotted(
          n.iter) == 'self._rtl_structure' \
          and isinstance(n.target, ast.Tuple) and [
              dotted(e) for e in n.target.elts] == ['monotonicities',
                                                    'inputs_for_units']:
        ok = True
    res.check(ok, 'W7', '%s|unpack' % fn.qualname, fn.loc(),
              'iterates self._rtl_structure as (monotonicities, '
              'inputs_for_units)',
              '%s no longer unpacks self._rtl_structure as (monotonicities, '
              'inputs_for_units)' % fn.name)
  # the lattice layers are built with the group's own monotonicities
  ctx = FnCtx.of(build)
  n_layers = 0
  for c in ast.walk(build.node):
    if isinstance(c, ast.Call):
      r = prog.resolve_call(build, c)
      if getattr(r, 'name', None) in ('Lattice', 'KroneckerFactoredLattice'):
        n_layers += 1
        kw = {k.arg: k.value for k in c.keywords}
        res.check(dotted(kw.get('monotonicities')) == 'monotonicities', 'W7',
                  '%s|%s.monotonicities' % (build.qualname, r.name),
                  build.loc(c),
                  '%s(monotonicities=<group monotonicities>)' % r.name,
                  '%s in RTL.build is not constructed with the '
                  'monotonicities of its own group: %s' % (
                      r.name, norm_text(kw.get('monotonicities'))
                      if kw.get('monotonicities') is not None else '<none>'))
        res.check(dotted(kw.get('units')) == 'units' and any(
            isinstance(s, ast.Assign) and dotted(s.targets[0]) == 'units'
            and norm_text(s.value) == 'len(inputs_for_units)'
            for s in ast.walk(build.node)), 'W7',
                  '%s|%s.units' % (build.qualname, r.name), build.loc(c),
                  'units = number of lattices in the group',
                  '%s units is not len(inputs_for_units)' % r.name)
  if n_layers != 2:
    raise AnalysisError('RTL.build: expected 2 lattice layer constructions')
  # output labels
  labs = []
  for fn in (call, shape):
    lab = None
    for st in ast.walk(fn.node):
      if isinstance(st, ast.Assign) and dotted(st.targets[0]) == \
          'output_monotonicity':
        lab = norm_text(st.value)
    labs.append(lab)
  res.check(labs == ['max(monotonicities)', 'max(monotonicities)'], 'W7',
            '%s|output-label' % R, call.loc(),
            'a lattice output is "increasing" iff the lattice has a monotone '
            'input: max(monotonicities) in call() and compute_output_shape()',
            'call() / compute_output_shape() label lattice outputs by %s' %
            labs)
  pairs = None
  for n in ast.walk(call.node):
    if isinstance(n, ast.For) and isinstance(n.iter, ast.List) and all(
        isinstance(e, ast.Tuple) for e in n.iter.elts):
      pairs = sorted((const_value(e.elts[0]), const_value(e.elts[1]))
                     for e in n.iter.elts)
  res.check(pairs == [(0, 'unconstrained'), (1, 'increasing')], 'W7',
            '%s|label-names' % R, call.loc(),
            'bucket 0 -> "unconstrained", bucket 1 -> "increasing"',
            'separate outputs are named %s' % pairs)


def _w7_random_ensemble(prog, res):
  fn = prog.function('premade_lib.set_random_lattice_ensemble')
  res.analysed(fn)
  good_pop = good_rep = good_size = False
  for c in ast.walk(fn.node):
    if isinstance(c, ast.Call) and prog.ext_name(
        fn.module, c.func) == 'np.random.choice' and len(c.keywords) > 0:
      kw = {k.arg: k.value for k in c.keywords}
      good_rep = const_value(kw.get('replace'), True) is False
      pop = c.args[0] if c.args else kw.get('a')
      size = kw.get('size')
      ctx = FnCtx.of(fn)
      # population = features filtered by `not in lattice`
      pdef = None
      if isinstance(pop, ast.Name):
        defs = ctx.rd.def_exprs(ctx.cfg.node_containing(c), pop.id)
        pdef = defs[0][1] if len(defs) == 1 else None
      if isinstance(pdef, ast.ListComp) and pdef.generators[0].ifs:
        t = pdef.generators[0].ifs[0]
        good_pop = (isinstance(t, ast.Compare) and isinstance(
            t.ops[0], ast.NotIn) and dotted(t.comparators[0]) == 'lattice'
                    and dotted(pdef.generators[0].iter) == 'feature_names')
      sdef = None
      if isinstance(size, ast.Name):
        defs = ctx.rd.def_exprs(ctx.cfg.node_containing(c), size.id)
        sdef = defs[0][1] if len(defs) == 1 else None
      good_size = sdef is not None and norm_text(sdef).replace(
          ' ', '') == 'model_config.lattice_rank-len(lattice)'
  res.check(good_pop and good_rep, 'W7',
            '%s|no-repeats' % fn.qualname, fn.loc(),
            'each lattice is completed by sampling without replacement from '
            'the features not already in it',
            'the random ensemble no longer samples without replacement from '
            'the complement of the lattice (complement: %s, replace=False: '
            '%s): a feature can repeat inside a lattice' % (good_pop,
                                                            good_rep))
  res.check(good_size, 'W7', '%s|fill' % fn.qualname, fn.loc(),
            'remaining size = lattice_rank - len(lattice)',
            'the number of sampled features is not lattice_rank - '
            'len(lattice)')


# ---------------------------------------------------------------------------
def _w7_crystals(prog, res):
  """Greedy placement of _get_final_crystal_lattices: exactly
  num_lattices * lattice_rank features are placed (asserted) and the lattice
  with the highest addition score receives the feature.  Every lattice ends
  with exactly lattice_rank features iff a full lattice is never preferred to
  one with a free slot, i.e. in every abstract state the score of a full
  lattice is strictly below the score of every non-full lattice.  The
  if-chain is evaluated on the five consistent states of (full, holds the
  feature, empty); scores are constants or torsion sums (>= 0: the torsion
  regulariser is a sum of squares)."""
  fn = prog.function('premade_lib._get_final_crystal_lattices')
  res.analysed(fn)
  key = fn.qualname
  chain = None
  for n in ast.walk(fn.node):
    if isinstance(n, ast.For) and any(
        isinstance(x, ast.If) and any(
            isinstance(a, ast.Assign) and dotted(a.targets[0]) ==
            'addition_score' for a in x.body) for x in n.body):
      loop = n
      chain = [x for x in n.body if isinstance(x, ast.If)][0]
  if chain is None:
    raise AnalysisError('%s: the addition_score if-chain vanished' % key)
  cand = dotted(loop.target)

  def atom(t):
    """(atom, polarity) for a recognised elementary test, else None."""
    if isinstance(t, ast.UnaryOp) and isinstance(t.op, ast.Not):
      a = atom(t.operand)
      return None if a is None else (a[0], not a[1])
    if isinstance(t, ast.Compare) and len(t.ops) == 1:
      l, r, op = t.left, t.comparators[0], t.ops[0]
      if isinstance(l, ast.Call) and dotted(l.func) == 'len' and \
          _is_cand(l.args[0]):
        rd = dotted(r) or ''
        if rd.endswith('lattice_rank'):
          if isinstance(op, (ast.GtE, ast.Eq)):
            return ('full', True)
          if isinstance(op, ast.Lt):
            return ('full', False)
          return None
        if const_value(r, None) == 0:
          if isinstance(op, ast.Eq):
            return ('empty', True)
          if isinstance(op, (ast.Gt, ast.NotEq)):
            return ('empty', False)
        return None
      if isinstance(op, (ast.In, ast.NotIn)) and _is_cand(r) and dotted(
          l) == 'feature_to_be_added':
        return ('holds', isinstance(op, ast.In))
      return None
    if _is_cand(t):
      return ('empty', False)
    return None

  def _is_cand(e):
    return isinstance(e, ast.Subscript) and dotted(e.value) == 'lattices' \
        and dotted(e.slice) == cand

  def truth(t, st):
    if isinstance(t, ast.BoolOp):
      vals = [truth(v, st) for v in t.values]
      return all(vals) if isinstance(t.op, ast.And) else any(vals)
    a = atom(t)
    if a is None:
      raise AnalysisError('%s: test `%s` of the addition_score chain is not '
                          'a capacity / membership / emptiness test' % (
                              fn.loc(t), norm_text(t)[:60]))
    return st[a[0]] == a[1]

  def score(stmts):
    """('const', c) or ('nonneg', text)"""
    assigns = [x for x in stmts if isinstance(x, ast.Assign) and dotted(
        x.targets[0]) == 'addition_score']
    augs = [x for x in ast.walk(ast.Module(body=list(stmts), type_ignores=[]))
            if isinstance(x, ast.AugAssign) and dotted(x.target) ==
            'addition_score']
    if len(assigns) != 1:
      raise AnalysisError('%s: a branch of the addition_score chain does not '
                          'assign the score exactly once' % key)
    c = const_value(assigns[0].value, None)
    if isinstance(c, (int, float)) and not augs:
      return ('const', float(c))
    reads = names_read(assigns[0].value)
    for a in augs:
      reads |= names_read(a.value)
      if not isinstance(a.op, ast.Add):
        raise AnalysisError('%s: addition_score is updated by %s' % (
            key, type(a.op).__name__))
    if (isinstance(c, (int, float)) and c >= 0 or c is None) and \
        'torsions' in reads:
      return ('nonneg', norm_text(assigns[0].value)[:40])
    raise AnalysisError('%s: cannot bound the score `%s`' % (
        key, norm_text(assigns[0].value)[:50]))

  def run_chain(node, st):
    while True:
      if truth(node.test, st):
        return score(node.body)
      if len(node.orelse) == 1 and isinstance(node.orelse[0], ast.If):
        node = node.orelse[0]
        continue
      if not node.orelse:
        raise AnalysisError('%s: the addition_score chain has no else' % key)
      return score(node.orelse)

  states = [dict(full=f, holds=h, empty=e) for f, h, e in (
      (False, False, True), (False, False, False), (False, True, False),
      (True, False, False), (True, True, False))]
  got = [(st, run_chain(chain, st)) for st in states]
  full_scores = [(st, sc) for st, sc in got if st['full']]
  free_scores = [(st, sc) for st, sc in got if not st['full']]
  bad = None
  for st, sc in full_scores:
    if sc[0] != 'const':
      bad = 'a full lattice (%s) gets the non-constant score %s' % (st, sc[1])
      break
    for st2, sc2 in free_scores:
      lo = sc2[1] if sc2[0] == 'const' else 0.0
      if not sc[1] < lo:
        bad = ('a full lattice (holds the feature: %s) scores %s, not below '
               'the score %s of a lattice with a free slot (holds the '
               'feature: %s, empty: %s): the full lattice can be chosen and '
               'ends with more than lattice_rank features while another '
               'stays short' % (st['holds'], sc[1], lo, st2['holds'],
                                st2['empty']))
        break
    if bad:
      break
  res.check(bad is None, 'W7', key + '|capacity-dominates', fn.loc(chain),
            'in all 5 states a full lattice scores strictly below every '
            'lattice with a free slot (%s)' % ', '.join(
                '%s%s%s->%s' % ('F' if st['full'] else 'f',
                                'H' if st['holds'] else 'h',
                                'E' if st['empty'] else 'e', sc[1])
                for st, sc in got), bad or '')
  # the best score is taken
  srt = [c for c in ast.walk(loop.iter if False else fn.node)
         if isinstance(c, ast.Call) and isinstance(c.func, ast.Attribute) and
         c.func.attr == 'sort' and dotted(c.func.value) ==
         'score_candidates_pairs']
  # every read of the chosen lattice index: score_candidates_pairs[K][1]
  pick = [v for v in ast.walk(fn.node) if isinstance(v, ast.Subscript) and
          isinstance(v.value, ast.Subscript) and dotted(v.value.value) ==
          'score_candidates_pairs' and const_value(v.slice, None) == 1]
  if len(srt) != 1 or not pick:
    raise AnalysisError('%s: the sort of score_candidates_pairs / the read '
                        'of the chosen candidate was not found' % fn.qualname)
  kw = {k.arg: k.value for k in srt[0].keywords}
  rev = const_value(kw.get('reverse'), None) is True
  good = 'key' not in kw
  for v in pick:
    idx = const_value(v.value.slice, None)
    good = good and ((rev and idx == 0) or (not rev and idx == -1))
  res.check(good, 'W7', key + '|takes-best', fn.loc(pick[0] if pick else None),
            'the candidate with the highest (score, index) pair is chosen',
            'the placement no longer takes the highest scoring candidate '
            '(sort reverse / element picked changed): a full lattice (lowest '
            'score) can be chosen')
  # number of placements = num_lattices * lattice_rank
  asserts = [a for a in ast.walk(fn.node) if isinstance(a, ast.Assert)]
  tot = [a for a in ast.walk(fn.node) if isinstance(a, ast.Assign) and dotted(
      a.targets[0]) == 'total_feature_use']
  ok_tot = False
  if tot and isinstance(tot[0].value, ast.BinOp) and isinstance(
      tot[0].value.op, ast.Mult):
    ops = {(dotted(tot[0].value.left) or '').split('.')[-1],
           (dotted(tot[0].value.right) or '').split('.')[-1]}
    ok_tot = ops == {'num_lattices', 'lattice_rank'}
  ok_len = any(
      isinstance(a.test, ast.Compare) and len(a.test.ops) == 1 and
      isinstance(a.test.ops[0], ast.Eq) and
      {norm_text(a.test.left).replace(' ', ''),
       norm_text(a.test.comparators[0]).replace(' ', '')} ==
      {'len(add_list)', 'total_feature_use'} for a in asserts)
  feeds = isinstance(loop, ast.For) and False
  for n in ast.walk(fn.node):
    if isinstance(n, ast.For) and dotted(n.iter) == 'add_list' and dotted(
        n.target) == 'feature_to_be_added':
      feeds = True
  res.check(ok_tot and ok_len and feeds, 'W7', key + '|placement-count',
            fn.loc(tot[0] if tot else None),
            'add_list has num_lattices * lattice_rank entries (asserted) and '
            'each is placed once',
            'the number of placements is no longer tied to num_lattices * '
            'lattice_rank (total: %s, assert on add_list: %s, loop over '
            'add_list: %s)' % (ok_tot, ok_len, feeds))
