"""C20 - Linear layer computes the clipped affine function (P1 P2 W4 X2 W1)."""
import ast

from ..model import (orelse_view, AnalysisError, dotted, norm_text, names_read, const_value,
                     is_none)
from ..cfg import CFG, structural_guards
from ..rules import roles
from ..rules import wiring
from ..rules import guards
from ..rules import numeric_opts

TECHNIQUE = ('role/polarity lint of the +-inf fills and clip arguments, '
             'must-precede on the CFG of Linear.call, operand-layout check of '
             'the contraction, bias-under-use_bias guard evaluation')
EXPLANATION = (
    'Static analysis of the structural clauses of C20, not of the arithmetic: '
    'missing lower bounds are filled with -inf and missing upper bounds with '
    '+inf, keyed by the right bound list (P2); clip_by_value receives min as '
    'min and max as max (P1); the clip precedes the contraction on every path '
    'and is applied exactly when some bound exists (W4, W3); the single-unit '
    'contraction is matmul(inputs, kernel) and the multi-unit one reduces '
    'inputs * transpose(kernel) over the last (input) axis, never the batch '
    'axis (X2); the bias is added exactly under use_bias and created only '
    'then (W2); the constraint object receives every hyperparameter (W1). The '
    'consequences listed in the property follow from C06 plus this structure.'
    ' Numeric bounds (0.0 included) are never truth-tested, element variables of the bound lists included (N0).')
ASSUMPTIONS = ['tf.matmul / tf.reduce_sum / tf.clip_by_value semantics',
               'kernel layout (num_input_dims, units) as created in build()']

L = 'linear_layer.Linear'


def run(prog, res):
  # the constraint semantics the consequences of C20 rest on (linear_lib 28-111)
  from . import C06
  C06._project_steps(prog, res)
  build = prog.function(L + '.build')
  call = prog.function(L + '.call')
  res.analysed(build, call)
  _fills(prog, res, build)
  _clip(prog, res, build, call)
  _contraction(prog, res, call)
  _bias(prog, res, build, call)
  for f in (build, call, prog.function(L + '.__init__')):
    roles.check_function_roles(prog, res, f)
    roles.check_clip_polarity(prog, res, f)
  numeric_opts.check(prog, res, [build, call])
  lnc = prog.cls('linear_layer.LinearConstraints')
  for c in wiring.calls_to(prog, build, lnc):
    wiring.check_forwarding(prog, res, build, c, lnc, rule='W1')
  proj = prog.function('linear_lib.project')
  cm = lnc.methods['__call__']
  for c in wiring.calls_to(prog, cm, proj):
    wiring.check_forwarding(prog, res, cm, c, proj, rule='W1')
  res.floor('P2', 4)
  res.floor('P1', 2)
  res.floor('W4', 3)
  res.floor('X2', 3)
  res.floor('W2', 3)
  res.floor('W1', 10)


def _fills(prog, res, build):
  """lower_bounds = [val if val is not None else -np.inf for val in
  input_min or ...]; upper with +np.inf from input_max."""
  found = {}
  for st in ast.walk(build.node):
    if isinstance(st, ast.Assign) and isinstance(st.value, ast.ListComp) and \
        isinstance(st.value.elt, (ast.IfExp, ast.BoolOp)):
      name = dotted(st.targets[0])
      role = roles.role_of_name(name)
      if role is None:
        continue
      e = st.value.elt
      if isinstance(e, ast.BoolOp):
        # `val or fill`: the fill is still found; N0 reports the truth test
        fill = e.values[-1]
      else:
        # normal form: `<fill> if val is None else val`
        t = e.test
        fill = None
        if isinstance(t, ast.Compare) and len(t.ops) == 1 and isinstance(
            t.ops[0], ast.Is) and is_none(t.comparators[0]) and dotted(
                t.left) == dotted(e.orelse):
          fill = e.body
        if fill is None:
          raise AnalysisError('Linear.build: fill expression `%s` is not '
                              '`<fill> if v is None else v`' % norm_text(e))
      sign = None
      f = fill
      neg = False
      if isinstance(f, ast.UnaryOp) and isinstance(f.op, ast.USub):
        neg = True
        f = f.operand
      if (prog.ext_name(build.module, f) or '') in ('np.inf', 'np.Inf',
                                                    'math.inf', 'np.infty'):
        sign = '-inf' if neg else '+inf'
      src = st.value.generators[0].iter
      src_roles = {roles.role_of_name(r) for r in names_read(src)} - {None}
      found[role] = (st, sign, src_roles)
  for role, want in (('min', '-inf'), ('max', '+inf')):
    if role not in found:
      raise AnalysisError('Linear.build: %s-role bound fill not found' % role)
    st, sign, src_roles = found[role]
    key = '%s|%s-fill' % (build.qualname, role)
    res.check(sign == want, 'P2', key, build.loc(st),
              'missing %s bounds are filled with %s' % (role, want),
              'missing %s bounds are filled with %s instead of %s: unbounded '
              'inputs would be clipped' % (role, sign, want))
    res.check(src_roles == {role}, 'P2', key + '|source', build.loc(st),
              '%s-role fill list is built from the %s-role bound list' % (
                  role, role),
              '%s-role fill list is built from %s-role bounds' % (
                  role, sorted(src_roles)))
  # the filled lists feed the clip constants of the same role
  for attr, role in (('clip_value_min', 'min'), ('clip_value_max', 'max')):
    ctx = wiring.FnCtx.of(build)
    vals = [st for st in ast.walk(build.node) if isinstance(st, ast.Assign)
            and dotted(st.targets[0]) == 'self.' + attr
            and not is_none(st.value)]
    good = bool(vals)
    for st in vals:
      reads = ctx.expand_reads(st.value)
      rr = {roles.role_of_name(r) for r in reads} - {None}
      good = good and rr == {role}
    res.check(good, 'P1', '%s|self.%s' % (build.qualname, attr),
              build.loc(vals[0]) if vals else build.loc(),
              'self.%s holds %s-role values only' % (attr, role),
              'self.%s is not built from the %s-role bounds' % (attr, role))


def _clip(prog, res, build, call):
  cfg = CFG(call.node)
  clip = contr = None
  for c in ast.walk(call.node):
    if isinstance(c, ast.Call):
      ext = prog.ext_name(call.module, c.func)
      if ext == 'tf.clip_by_value':
        clip = c
  if clip is None:
    res.violation('W4', '%s|clip' % call.qualname, call.loc(),
                  'Linear.call no longer clips its inputs')
    return
  contrs = [c for c in ast.walk(call.node) if isinstance(c, ast.Call)
            and prog.ext_name(call.module, c.func) in (
                'tf.matmul', 'tf.reduce_sum', 'tf.einsum', 'tf.tensordot',
                'tf.linalg.matmul')]
  if not contrs:
    raise AnalysisError('Linear.call: contraction not found')
  cn = cfg.node_containing(clip)
  st_clip = cfg.nodes[cn].stmt
  # clipped value must be what the contraction consumes: inputs = clip(inputs)
  assigned = isinstance(st_clip, ast.Assign) and dotted(
      st_clip.targets[0]) == 'inputs' and dotted(clip.args[0]) == 'inputs'
  for i, c in enumerate(contrs):
    n = cfg.node_containing(c)
    # clip node must precede on every path that passes the clip guard: i.e.
    # the contraction is not reachable from entry avoiding the guard node
    gnode = None
    for t, pol in structural_guards(call.node, clip) or []:
      for nn in cfg.nodes:
        if nn.kind == 'test' and nn.expr is t:
          gnode = nn.id
    ok = assigned and gnode is not None and cfg.dominates(gnode, n) and \
        n in cfg.reachable_from(cn)
    res.check(ok, 'W4', '%s|clip-before-contraction#%d' % (call.qualname, i),
              call.loc(c),
              'inputs = clip_by_value(inputs, ...) precedes the contraction',
              'the contraction at line %d is not preceded by the input clip '
              '(or the clipped tensor is not the one contracted)' % c.lineno)
  # guard of the clip: active iff the build stored bounds
  gs = structural_guards(call.node, clip) or []
  reads = set()
  for t, pol in gs:
    reads |= names_read(t)
  res.check({'self.clip_value_min', 'self.clip_value_max'} <= reads
            and all(pol for t, pol in gs), 'W4',
            '%s|clip-guard' % call.qualname, call.loc(clip),
            'clip runs whenever build() stored clip constants',
            'the clip in Linear.call is not guarded by the presence of both '
            'clip constants')
  # build stores both constants in exactly the states with some bound: the
  # condition of the arm that stores them is, as a truth table over its four
  # atoms,  (min and some(min)) or (max and some(max))
  ok = None
  oe = orelse_view(build.node)
  for st in ast.walk(build.node):
    if not isinstance(st, ast.If):
      continue
    arms = []
    for arm in (st.body, oe(st)):
      vals = {dotted(a.targets[0]): a.value for a in arm
              if isinstance(a, ast.Assign) and len(a.targets) == 1}
      arms.append(vals)
    if not any('self.clip_value_min' in v for v in arms):
      continue
    want = {'self.clip_value_min', 'self.clip_value_max'}
    kinds = []
    for v in arms:
      if not want <= set(v):
        kinds.append('partial')
      elif all(is_none(v[k]) for k in want):
        kinds.append('none')
      elif not any(is_none(v[k]) for k in want):
        kinds.append('set')
      else:
        kinds.append('partial')
    if sorted(kinds) != ['none', 'set']:
      ok = False
      continue
    ok = _some_bound_condition(st.test, negated=kinds[0] == 'none')
  if ok is None:
    raise AnalysisError('Linear.build: the statement that stores the clip '
                        'constants was not found')
  res.check(ok, 'W4', '%s|clip-constants' % build.qualname, build.loc(),
            'both clip constants are stored when input_min or input_max has '
            'a bound, and both are None otherwise',
            'Linear.build no longer stores both clip constants exactly when '
            'some input bound exists')


def _some_bound_condition(test, negated):
  """test (negated when the storing arm is the else arm) is equivalent to
  (input_min and input_min.count(None) < len(input_min)) or the same for
  input_max - decided as a truth table over the four atoms; an atom of
  another kind is an analysis error"""
  import itertools

  def atom(e):
    if isinstance(e, ast.Name) and e.id in ('input_min', 'input_max'):
      return (e.id, 'given'), True
    if isinstance(e, ast.Compare) and len(e.ops) == 1:
      l, r = e.left, e.comparators[0]
      op = type(e.ops[0])
      # normalise to count ? len
      if isinstance(l, ast.Call) and dotted(l.func) == 'len':
        l, r = r, l
        op = {ast.Lt: ast.Gt, ast.Gt: ast.Lt, ast.LtE: ast.GtE,
              ast.GtE: ast.LtE}.get(op, op)
      if isinstance(l, ast.Call) and isinstance(l.func, ast.Attribute) and \
          l.func.attr == 'count' and len(l.args) == 1 and is_none(
              l.args[0]) and isinstance(r, ast.Call) and dotted(
                  r.func) == 'len' and len(r.args) == 1 and dotted(
                      r.args[0]) == dotted(l.func.value) and dotted(
                          r.args[0]) in ('input_min', 'input_max'):
        nm = dotted(r.args[0])
        if op in (ast.Lt, ast.NotEq):      # count <= len always holds
          return (nm, 'some'), True
        if op in (ast.GtE, ast.Eq):
          return (nm, 'some'), False
        if op is ast.LtE:                  # count(None) <= len: always
          return 'true', True
        if op is ast.Gt:
          return 'true', False
    raise AnalysisError('Linear.build: unrecognised test `%s` in the '
                        'condition of the clip constants' % norm_text(e)[:60])

  def ev(e, env):
    if isinstance(e, ast.BoolOp):
      vs = [ev(v, env) for v in e.values]
      return all(vs) if isinstance(e.op, ast.And) else any(vs)
    if isinstance(e, ast.UnaryOp) and isinstance(e.op, ast.Not):
      return not ev(e.operand, env)
    k, pos = atom(e)
    return env[k] if pos else not env[k]
  keys = [('input_min', 'given'), ('input_min', 'some'),
          ('input_max', 'given'), ('input_max', 'some')]
  for combo in itertools.product((False, True), repeat=4):
    env = dict(zip(keys, combo))
    env['true'] = True
    # an empty / missing list has no bound: count(None) < len needs `given`
    if (env[keys[1]] and not env[keys[0]]) or (
        env[keys[3]] and not env[keys[2]]):
      continue
    got = ev(test, env)
    if negated:
      got = not got
    exp = (env[keys[0]] and env[keys[1]]) or (env[keys[2]] and env[keys[3]])
    if bool(got) != bool(exp):
      return False
  return True


def _contraction(prog, res, call):
  """units == 1: matmul(inputs, kernel); else reduce_sum(inputs *
  transpose(kernel), axis=-1)."""
  chain = None
  for st in call.node.body:
    if isinstance(st, ast.If) and 'self.units' in names_read(st.test):
      chain = st
  if chain is None:
    raise AnalysisError('Linear.call: dispatch on units not found')
  lg1 = guards.Logic(prog, call, {})
  single = chain.body if (isinstance(chain.test, ast.Compare) and const_value(
      chain.test.comparators[0]) == 1 and isinstance(
          chain.test.ops[0], ast.Eq)) else None
  multi = chain.orelse
  if single is None:
    raise AnalysisError('Linear.call: `self.units == 1` test changed shape')
  mm = [c for c in ast.walk(ast.Module(body=single, type_ignores=[]))
        if isinstance(c, ast.Call) and prog.ext_name(
            call.module, c.func) in ('tf.matmul', 'tf.linalg.matmul')]
  good = False
  if mm:
    c = mm[0]
    kw = {k.arg: k.value for k in c.keywords}
    good = (len(c.args) >= 2 and dotted(c.args[0]) == 'inputs'
            and dotted(c.args[1]) == 'self.kernel'
            and not any(const_value(kw.get(k), False) for k in (
                'transpose_a', 'transpose_b', 'adjoint_a', 'adjoint_b')))
  res.check(good, 'X2', '%s|single-unit' % call.qualname, call.loc(chain),
            'matmul(inputs, kernel): batch rows on the left, input axis '
            'contracted',
            'single-unit contraction is not tf.matmul(inputs, self.kernel) '
            'without transposes')
  rs = [c for c in ast.walk(ast.Module(body=multi, type_ignores=[]))
        if isinstance(c, ast.Call) and prog.ext_name(
            call.module, c.func) == 'tf.reduce_sum']
  good = False
  ax = None
  if rs:
    c = rs[0]
    kw = {k.arg: k.value for k in c.keywords}
    ax = const_value(kw.get('axis', c.args[1] if len(c.args) > 1 else None))
    prod = c.args[0] if c.args else None
    ok_prod = False
    if isinstance(prod, ast.BinOp) and isinstance(prod.op, ast.Mult):
      sides = [prod.left, prod.right]
      has_inputs = any(dotted(s) == 'inputs' for s in sides)
      has_kt = any(isinstance(s, ast.Call) and prog.ext_name(
          call.module, s.func) == 'tf.transpose' and dotted(
              s.args[0]) == 'self.kernel' and len(s.args) == 1
                   and not s.keywords for s in sides)
      ok_prod = has_inputs and has_kt
    good = ok_prod and ax in (-1, 2)
  res.check(good, 'X2', '%s|multi-unit' % call.qualname, call.loc(chain),
            'reduce_sum(inputs * transpose(kernel), axis=-1): (batch, units, '
            'dims) * (units, dims) summed over dims',
            'multi-unit contraction must be reduce_sum(inputs * '
            'tf.transpose(self.kernel), axis=-1); found axis=%s' % ax)
  res.check(ax not in (0, None), 'X2', '%s|batch-axis' % call.qualname,
            call.loc(chain), 'the batch axis is never reduced',
            'the multi-unit contraction reduces the batch axis')


def _bias(prog, res, build, call):
  # by value: for use_bias in (True, False) x units in (1, other) the value
  # that call() returns is `<contraction> + self.bias` exactly when use_bias
  from .C14 import _cfg_trace, _closed_return
  good = True
  for use_bias in (True, False):
    for units in (1, 2):
      cfg = {'use_bias': use_bias, 'units': units, 'clip_value_min': None,
             'clip_value_max': None}
      trace = _cfg_trace(call, cfg)
      v = _closed_return(call, trace, {'inputs'})
      reads = 'self.bias' in names_read(v)
      added = isinstance(v, ast.BinOp) and isinstance(v.op, ast.Add) and (
          dotted(v.right) == 'self.bias' or dotted(v.left) == 'self.bias')
      if use_bias:
        ok = added and sum(1 for n in ast.walk(v) if dotted(n) == 'self.bias'
                           and isinstance(n, ast.Attribute)) == 1
      else:
        ok = not reads
      good = good and ok
  res.check(good, 'W2', '%s|bias-add' % call.qualname,
            call.loc(),
            'the returned value is <contraction> + self.bias exactly when use_bias',
            'the bias must be added (+=) exactly under `if self.use_bias:`')
  sites = [s for s in wiring.find_add_weights(prog, build)
           if 'LINEAR_LAYER_BIAS_NAME' in s[1]]
  good = len(sites) == 1
  if good:
    gs = structural_guards(build.node, sites[0][0]) or []
    good = any(dotted(t) == 'self.use_bias' and pol for t, pol in gs)
  res.check(good, 'W2', '%s|bias-variable' % build.qualname, build.loc(),
            'the bias variable exists exactly under use_bias',
            'the bias variable is not created under `if self.use_bias:`')
  # every path returns a value computed from the kernel (the contraction)
  rets = [s for s in ast.walk(call.node) if isinstance(s, ast.Return)]
  vals = []
  for use_bias in (True, False):
    for units in (1, 2):
      cfg = {'use_bias': use_bias, 'units': units, 'clip_value_min': None,
             'clip_value_max': None}
      vals.append(_closed_return(call, _cfg_trace(call, cfg), {'inputs'}))
  res.check(bool(rets) and all('self.kernel' in names_read(v) for v in vals),
            'W2', '%s|returns-result' % call.qualname, call.loc(),
            'call returns the contracted (and biased) result',
            'Linear.call does not return the contraction with the kernel')
