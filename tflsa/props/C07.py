"""C07 - KroneckerFactoredLattice constraints (W1 W2 W3 P2 P3 P4 X3)."""
import ast

from ..model import AnalysisError, dotted, norm_text, names_read, is_none
from ..rules import wiring
from ..rules import guards

TECHNIQUE = ('guard-coverage by exhaustive abstract evaluation of configuration '
             'states, forwarding lint, role/polarity pairing tables, reshape '
             'layout agreement')
EXPLANATION = (
    'Static analysis of necessary conditions of C07, not of the output '
    'function: the kernel and scale constraints are attached and actually run '
    'in every configuration state in which their projection would act (W2, W3: '
    'exhaustive over None/zero/non-zero states of monotonicities and bounds); '
    'every hyperparameter reaches the projection (W1); scale clipping, bias and '
    'scale initialisation pair each None-pattern of the bounds with the right '
    'polarity (P2, P3); the sign multiplication is applied and undone '
    'symmetrically (P4); all reshapes use the (lattice, units, dims, terms) '
    'factor order (X3). Monotone/bounded outputs over all inputs are a theorem '
    'about products of interpolants and are NOT decided here.'
    ' Also decided: finalize_constraints stores the projection with assign, not assign_add of a difference (R1); gradient masks take the operand dtype (D1); with clip_inputs on, every path of the KFL evaluation clips (X5); abs is taken before the maximum (B1).'
    ' Nothing that is used later is computed from a value before the statement that clips that value (X5, self-clip order).'
    ' Every kernel constraint object built by the layer receives the variable self.scale itself, not a value read from it at build time (W2 live scale).')
ASSUMPTIONS = [
    'Keras re-applies variable.constraint after each optimizer update',
    'the abstract states none/zero/non-zero (bounds) and none/empty/all-zero/'
    'non-zero (monotonicities) cover all behaviours of the guards',
]

L = 'kronecker_factored_lattice_layer'
B = 'kronecker_factored_lattice_lib'


def _live_scale(prog, res):
  """W2: the kernel constraints of the layer order the keypoints by the SIGN
  of `scale`, which the optimizer changes between updates: every constraint
  object built in KroneckerFactoredLattice.build receives the variable
  `self.scale` itself (read at every projection), never a value read from it
  at build time (`self.scale.read_value()`, `tf.identity(self.scale)`, a
  local snapshot)."""
  fn = prog.function('kronecker_factored_lattice_layer.'
                     'KroneckerFactoredLattice.build')
  res.analysed(fn)
  n = 0
  for c in ast.walk(fn.node):
    if not isinstance(c, ast.Call):
      continue
    # constraint objects only (the kernel initializer legitimately receives
    # the value of the scale at initialisation time)
    if getattr(prog.resolve_call(fn, c), 'name', '') != \
        'KroneckerFactoredLatticeConstraints':
      continue
    for k in c.keywords:
      if k.arg == 'scale':
        n += 1
        res.check(dotted(k.value) == 'self.scale', 'W2',
                  '%s|live-scale#%d' % (fn.qualname, n), fn.loc(c),
                  'the constraint receives the variable self.scale',
                  'the constraint receives `%s` as its scale: a value read '
                  'once at build time, while the sign of the scale variable '
                  'changes during training' % norm_text(k.value)[:50])
  if n < 2:
    raise AnalysisError('KroneckerFactoredLattice.build: the scale arguments '
                        'of the kernel constraints were not found')


def run(prog, res):
  _live_scale(prog, res)
  from ..rules import guards as _gsc
  _gsc.check_self_clip_order(prog, res, [f for m in ['kronecker_factored_lattice_lib'] for f in prog.module(m).all_functions()])
  res.floor('X5', 6)
  from ..rules import guards as _g
  for q in ('kronecker_factored_lattice_lib.evaluate_with_hypercube_interpolation',):
    _g.check_clip_paths(prog, res, prog.function(q))
  res.floor('X5', 1)
  from ..rules import dtypes, validate
  dtypes.selfcheck()
  _cl = validate.call_closure(prog, [prog.function(q) for q in ('kronecker_factored_lattice_layer.KroneckerFactoredLattice.call',)],
                              follow_init=False)
  dtypes.check_functions(prog, res, [f for _, f in sorted(_cl.items())])
  res.floor('D1', 3)
  build = prog.function(L + '.KroneckerFactoredLattice.build')
  kc = prog.cls(L + '.KroneckerFactoredLatticeConstraints')
  sc = prog.cls(L + '.ScaleConstraints')
  fw = prog.function(B + '.finalize_weight_constraints')
  fs = prog.function(B + '.finalize_scale_constraints')
  res.analysed(build, fw, fs)
  # ---- W3: the constraint objects run their projection whenever it acts
  for cls, target in ((kc, fw), (sc, fs)):
    callm = cls.methods['__call__']
    res.analysed(callm)
    calls = wiring.calls_to(prog, callm, target)
    if len(calls) != 1:
      raise AnalysisError('%s.__call__: expected one call of %s' % (
          cls.name, target.name))
    guards.check_guard(prog, res, callm, calls[0], target, rule='W3')
    wiring.check_forwarding(prog, res, callm, calls[0], target, rule='W1')
  # ---- W2: variables carry their constraint whenever it acts
  wiring.check_constrained_weight(prog, res, build, 'KFL_KERNEL_NAME', kc)
  wiring.check_constrained_weight(prog, res, build, 'KFL_SCALE_NAME', sc)
  _bias_trainable(prog, res, build)
  # ---- W1: forwarding at every construction site in build / call
  for c in wiring.calls_to(prog, build, kc):
    wiring.check_forwarding(prog, res, build, c, kc, rule='W1',
                            label='%s->%s@%s' % (build.qualname, kc.name,
                                                 _target_of(build, c)))
  for c in wiring.calls_to(prog, build, sc):
    wiring.check_forwarding(prog, res, build, c, sc, rule='W1',
                            label='%s->%s@%s' % (build.qualname, sc.name,
                                                 _target_of(build, c)))
  bi = prog.cls(L + '.BiasInitializer')
  for c in wiring.calls_to(prog, build, bi):
    wiring.check_forwarding(prog, res, build, c, bi, rule='W1')
  callf = prog.function(L + '.KroneckerFactoredLattice.call')
  ev = prog.function(B + '.evaluate_with_hypercube_interpolation')
  for c in wiring.calls_to(prog, callf, ev):
    wiring.check_forwarding(prog, res, callf, c, ev, rule='W1')
  fin = prog.function(L + '.KroneckerFactoredLattice.finalize_constraints')
  _finalize(prog, res, fin)
  res.floor('W1', 30)
  res.floor('W2', 5)
  res.floor('W3', 2)
  from . import _c07_pairs
  _c07_pairs.run(prog, res)
  _c07_pairs.run_bound_factor(prog, res)


def _target_of(fn, call):
  from ..cfg import enclosing_stmt
  st = enclosing_stmt(fn.node, call)
  if isinstance(st, ast.Assign):
    return norm_text(st.targets[0])
  return 'expr'


def _bias_trainable(prog, res, build):
  sites = [s for s in wiring.find_add_weights(prog, build)
           if 'KFL_BIAS_NAME' in s[1]]
  if len(sites) != 1:
    raise AnalysisError('KFL.build: bias add_weight not found')
  call, name, kw = sites[0]
  tr = kw.get('trainable')
  good = False
  if tr is not None:
    # evaluate trainable under the 3x3 bound states: trainable <=> both None
    good = True
    for smin in guards.TYPE_STATES['bound']:
      for smax in guards.TYPE_STATES['bound']:
        env = {'self.output_min': guards.Val('bound', smin),
               'self.output_max': guards.Val('bound', smax)}
        t = guards.Logic(prog, build, env).truth(tr)
        want = (smin == 'none' and smax == 'none')
        if t is None or t != want:
          good = False
  res.check(good, 'W2', '%s|KFL_BIAS_NAME|trainable' % build.qualname,
            build.loc(call),
            'bias is trainable exactly when no output bound is set',
            'bias trainable=%s is not equivalent to "output_min is None and '
            'output_max is None": a bounded layer could move its bias' % (
                norm_text(tr) if tr is not None else '<default True>'))


def _finalize(prog, res, fin):
  """finalize_constraints applies the kernel and the scale constraint objects
  built in build() to their own variables."""
  res.analysed(fin)
  pairs = {'kernel': '_final_kernel_constraints',
           'scale': '_final_scale_constraints'}
  for var, attr in sorted(pairs.items()):
    wiring.check_exact_store(prog, res, fin, var, attr)
  res.floor('R1', 2)
