"""C06 - Linear / categorical weight constraints (P3 P4 A4 X1 W1 W3 W4 O2)."""
import ast

from ..model import (straightline_value, AnalysisError, FunctionInfo, expand_aug, orelse_view, dotted, norm_text,
                     names_read, const_value, is_none, call_args)
from ..cfg import CFG, structural_guards
from ..rules import roles
from ..rules import wiring
from ..rules import guards

TECHNIQUE = ('pairing tables checked semantically on the ast (mask value <-> '
             'clip op, pair orientation chain project <-> partial-order '
             'projection <-> asserts, scale/unscale pairing, full final pass), '
             'forwarding and guard-coverage lint')
EXPLANATION = (
    'Static analysis of necessary conditions of C06, not of feasibility for '
    'every partial order: the increasing mask (m == 1) is applied with '
    'tf.maximum and the decreasing mask (m == -1) with tf.minimum (P3); an '
    'ordering pair (i, j) is stored as "i below j" and its dual, the min '
    'projection consumes the below-map with tf.minimum in reverse topological '
    'order and the max projection the above-map with tf.maximum in forward '
    'order, each two-pass chain ends with a full step and the two feasible '
    'results are averaged, and the topological order is a depth-first '
    'finish order: an index is emitted only once none of its successors is '
    'unvisited, and emitted in front of everything emitted before (O2); linear dominance pairs are re-oriented to '
    '(weak, dominant) for both dominance kinds while categorical pairs pass '
    'unchanged, and both assert functions use the same orientation (A4); range '
    'scaling is multiplied in and divided out with the same tensor built from '
    '(upper - lower) and the monotonicity sign, identically in projection and '
    'assertion (P4); the norm is taken per unit, axis=0 (X1); bounds are '
    'clipped after the ordering projection (W4); every hyperparameter reaches '
    'the projection and the constraint is attached whenever it acts (W1, W3).'
    ' Also decided: each categorical bound is clipped under its own guard (K3); the topological order is a depth-first finish order, emitted on finish and reversed (O2); the range width enters the scaling only when upper > lower and zero-width pair dimensions are rejected (D2).'
    ' In every configuration state with ordering pairs given the categorical projection runs the ordering projection (K3 must-run).'
    ' Nothing that is used later is computed from a value before the statement that clips that value (X5, self-clip order).')
ASSUMPTIONS = ['tf.maximum/minimum/norm/unstack semantics',
               'a convex combination of feasible points is feasible']

IU = 'internal_utils'


def run(prog, res):
  from ..rules import guards as _gsc
  _gsc.check_self_clip_order(prog, res, [f for m in ['linear_lib', 'categorical_calibration_lib', 'internal_utils'] for f in prog.module(m).all_functions()])
  res.floor('X5', 4)
  _masks(prog, res)
  _project_steps(prog, res)
  _partial_order(prog, res)
  _toposort(prog, res)
  _toposort_visits(prog, res)
  _orientation(prog, res)
  _scaling(prog, res)
  _divisor_guard(prog, res)
  _norm(prog, res)
  _categorical_project(prog, res)
  _wiring(prog, res)
  res.floor('P3', 3)
  res.floor('O2', 12)
  res.floor('A4', 5)
  res.floor('P4', 4)
  res.floor('D2', 3)
  res.floor('X1', 2)
  res.floor('W4', 3)
  res.floor('W1', 9)
  res.floor('W3', 2)


def _masks(prog, res):
  fn = prog.function('linear_lib.project')
  res.analysed(fn)
  want = {1: ('tf.maximum', 'increasing'), -1: ('tf.minimum', 'decreasing')}
  seen = set()
  for st in ast.walk(fn.node):
    if not (isinstance(st, ast.If) and isinstance(st.test, ast.Compare)
            and isinstance(st.test.ops[0], ast.In)
            and dotted(st.test.comparators[0]) == 'monotonicities'):
      continue
    sign = const_value(st.test.left)
    if sign not in want:
      continue
    seen.add(sign)
    mask_test = None
    mask_vals = None
    op = None
    local = {}
    for a in st.body:
      if isinstance(a, ast.Assign) and isinstance(a.targets[0], ast.Name):
        local[a.targets[0].id] = a.value
    upd = [a for a in st.body if isinstance(a, ast.Assign) and dotted(
        a.targets[0]) == 'weights' and isinstance(a.value, ast.Call) and
           prog.ext_name(fn.module, a.value.func) in ('tf.maximum',
                                                      'tf.minimum')]
    if len(upd) != 1:
      raise AnalysisError('%s: the sign block for %d has no single '
                          'weights = tf.maximum / tf.minimum(...) update' % (
                              fn.loc(st), sign))
    a = upd[0]
    args = a.value.args
    # weights (op) weights * MASK, MASK through its local name if it has one
    prod = [x for x in args if isinstance(x, ast.BinOp) and isinstance(
        x.op, ast.Mult) and 'weights' in (dotted(x.left), dotted(x.right))]
    if dotted(args[0]) == 'weights' and len(prod) == 1:
      m = prod[0].right if dotted(prod[0].left) == 'weights' else prod[0].left
      if isinstance(m, ast.Name) and m.id in local:
        m = local[m.id]
      if isinstance(m, ast.Call) and prog.ext_name(
          fn.module, m.func) == 'tf.constant':
        kw = {k.arg: k.value for k in m.keywords}
        v = kw.get('value', m.args[0] if m.args else None)
        if isinstance(v, ast.ListComp) and isinstance(v.elt, ast.IfExp):
          t = v.elt.test
          if isinstance(t, ast.Compare) and isinstance(t.ops[0], ast.Eq):
            mask_test = const_value(t.comparators[0])
            mask_vals = (const_value(v.elt.body), const_value(v.elt.orelse))
            op = prog.ext_name(fn.module, a.value.func)
    if mask_test is None:
      raise AnalysisError('%s: the mask of the sign block for %d is not a '
                          'tf.constant of [a if m == s else b for m in ...]' %
                          (fn.loc(st), sign))
    exp_op, word = want[sign]
    key = 'linear_lib.project|%s-mask' % word
    res.check(mask_test == sign and mask_vals == (0.0, 1.0) and op == exp_op,
              'P3', key, fn.loc(st),
              '%s inputs: mask 0 where m == %d, applied with %s(w, w*mask)' % (
                  word, sign, exp_op),
              '%s block: mask tests m == %s with values %s and is applied '
              'with %s; expected m == %d, (0.0, 1.0), %s (weights of %s '
              'inputs must end up %s 0)' % (
                  word, mask_test, mask_vals, op, sign, exp_op, word,
                  '>=' if sign == 1 else '<='))
  if seen != {1, -1}:
    raise AnalysisError('linear_lib.project: sign blocks for 1 and -1 not '
                        'both found')
  # outer guard
  for sign in (1, -1):
    pass


def _op_and_order(prog, fn):
  """(clip op applied to the running projection, iteration order, map
  parameter name used for the neighbours)"""
  op = order = mp = None
  for loop in ast.walk(fn.node):
    if isinstance(loop, ast.For) and 'sorted_indices' in names_read(loop.iter):
      order = 'reverse' if isinstance(loop.iter, ast.Subscript) and isinstance(
          loop.iter.slice, ast.Slice) and const_value(
              loop.iter.slice.step) == -1 else (
                  'forward' if dotted(loop.iter) == 'sorted_indices'
                  else 'unknown')
      for inner in ast.walk(loop):
        if isinstance(inner, ast.For) and inner is not loop:
          mp = dotted(inner.iter.value) if isinstance(
              inner.iter, ast.Subscript) else dotted(inner.iter)
        if isinstance(inner, ast.Call):
          ext = prog.ext_name(fn.module, inner.func)
          if ext in ('tf.minimum', 'tf.maximum'):
            op = ext
  return op, order, mp


def _partial_order(prog, res):
  ap = prog.function(IU + '.approximately_project_categorical_partial_'
                     'monotonicities')
  mn = prog.function(IU + '._min_projection')
  mx = prog.function(IU + '._max_projection')
  res.analysed(ap, mn, mx)
  # (a) pair (i, j): less[i] gets j, greater[j] gets i
  good = False
  for loop in ast.walk(ap.node):
    if isinstance(loop, ast.For) and dotted(loop.iter) == 'monotonicities' \
        and isinstance(loop.target, ast.Tuple) and len(
            loop.target.elts) == 2:
      a, b = [dotted(e) for e in loop.target.elts]
      apps = {}
      for c in ast.walk(loop):
        if isinstance(c, ast.Call) and isinstance(c.func, ast.Attribute) and \
            c.func.attr == 'append' and isinstance(c.func.value,
                                                   ast.Subscript):
          apps[dotted(c.func.value.value)] = (dotted(c.func.value.slice),
                                              dotted(c.args[0]))
      good = (apps.get('key_less_than_values') == (a, b)
              and apps.get('key_greater_than_values') == (b, a))
  res.check(good, 'O2', 'partial-order|pair-maps', ap.loc(),
            'pair (i, j): i is below j in key_less_than_values and j above i '
            'in key_greater_than_values',
            'the pair (i, j) is not recorded as less[i]->j and greater[j]->i')
  # (b) min/max projections: op, order, map
  for fn, (eop, eord, emap, word) in (
      (mn, ('tf.minimum', 'reverse', 'key_less_than_values', 'min')),
      (mx, ('tf.maximum', 'forward', 'key_greater_than_values', 'max'))):
    op, order, mp = _op_and_order(prog, fn)
    res.check((op, order, mp) == (eop, eord, emap), 'O2',
              'partial-order|%s-projection' % word, fn.loc(),
              '%s projection: %s over %s in %s topological order' % (
                  word, eop, emap, eord),
              '%s projection uses (%s, %s order, %s); expected (%s, %s '
              'order, %s): neighbours must be final before a value is '
              'clipped against them' % (word, op, order, mp, eop, eord, emap))
    # full step replaces, partial step blends with (1 - step)
    blend = False
    oe = orelse_view(fn.node)
    for st in ast.walk(fn.node):
      if isinstance(st, ast.If) and isinstance(st.test, ast.Compare) and \
          dotted(st.test.left) == 'step' and const_value(
              st.test.comparators[0]) == 1:
        full = [a for a in st.body if isinstance(a, ast.Assign)]
        # the else arm, also when it is written after a guard that leaves
        part = [a for a in oe(st) if isinstance(a, ast.Assign)]
        if full and part:
          t = norm_text(part[0].value).replace(' ', '')
          blend = ('step*' in t and '(1-step)*' in t)
    res.check(blend, 'O2', 'partial-order|%s-step' % word, fn.loc(),
              'partial step is the convex blend step*proj + (1-step)*w',
              'the partial step of the %s projection is not step*projection '
              '+ (1 - step)*weight' % word)
  # (c) argument pairing and full final pass, by value: the returned
  # expression with every straight-line local replaced by its definition is
  #   (stack(full_other(partial_kind(unstack(weights)))) + stack(...)) / 2
  value_of = straightline_value(ap.node)
  rets = [st for st in ap.node.body if isinstance(st, ast.Return)]
  if len(rets) != 1 or rets[0].value is None:
    raise AnalysisError('partial-order projection: expected one return')
  result = value_of(rets[0].value, rets[0])
  ts = prog.function(IU + '._topological_sort')

  def is_sorted_indices(e):
    return isinstance(e, ast.Call) and prog.resolve_call(ap, e) is ts and \
        e.args and dotted(e.args[0]) == 'key_less_than_values'

  def chain(e):
    """[(callee, bound args, call)] from the outermost to the innermost
    projection, and the innermost weights operand"""
    out = []
    while isinstance(e, ast.Call) and prog.resolve_call(ap, e) in (mn, mx):
      r = prog.resolve_call(ap, e)
      bound, _, _ = call_args(e, r.all_params)
      out.append((r, bound, e))
      e = bound.get('weights')
    return out, e
  calls = [c for c in ast.walk(result) if isinstance(c, ast.Call) and
           prog.resolve_call(ap, c) in (mn, mx)]
  if len(calls) != 4:
    raise AnalysisError('partial-order projection: expected 4 min/max calls')
  avg = (isinstance(result, ast.BinOp) and isinstance(result.op, ast.Div) and
         const_value(result.right) in (2, 2.0) and isinstance(
             result.left, ast.BinOp) and isinstance(result.left.op, ast.Add))
  res.check(avg, 'O2', 'partial-order|average', ap.loc(),
            'result = (min_max + max_min) / 2',
            'the two feasible chains are not averaged with equal weights')
  chains = []
  if avg:
    for side in (result.left.left, result.left.right):
      if isinstance(side, ast.Call) and prog.ext_name(
          ap.module, side.func) == 'tf.stack' and side.args:
        chains.append(chain(side.args[0]))
      else:
        chains.append(chain(side))
  for seq, _ in chains:
    first = seq[-1][0] if seq else None
    for r, bound, call in seq:
      mp = bound.get(r.all_params[2])
      want = 'key_less_than_values' if r is mn else 'key_greater_than_values'
      res.check(dotted(mp) == want and is_sorted_indices(bound.get(
          'sorted_indices')), 'O2',
                'partial-order|call:%s-first:%s' % (
                    'min' if first is mn else 'max', r.name),
                ap.loc(call), '%s receives %s' % (r.name, want),
                '%s is called with %s / %s instead of %s and the topological '
                'order of key_less_than_values' % (
                    r.name, norm_text(mp), norm_text(bound.get(
                        'sorted_indices'))[:40], want))
  good = len(chains) == 2 and {
      (seq[-1][0] if seq else None) for seq, _ in chains} == {mn, mx}
  for seq, inner in chains:
    if len(seq) != 2:
      good = False
      continue
    (r2, b2, _), (r1, b1, _) = seq
    s1, s2 = const_value(b1.get('step')), const_value(b2.get('step'))
    start = isinstance(inner, ast.Call) and prog.ext_name(
        ap.module, inner.func) == 'tf.unstack' and inner.args and dotted(
            inner.args[0]) == 'weights'
    good = good and r1 is not r2 and s2 == 1 and bool(start) and \
        isinstance(s1, (int, float)) and 0 < s1 < 1
  res.check(good, 'O2', 'partial-order|two-pass-chains', ap.loc(),
            'each chain: partial pass of one kind on the input, then a full '
            'pass (step 1) of the other kind on its result',
            'the two-pass chains no longer end with a full-step projection of '
            'the opposite kind; the result need not be feasible')
  good = any(is_sorted_indices(c) for c in ast.walk(result))
  res.check(good, 'O2', 'partial-order|toposort', ap.loc(),
            'topological order computed from key_less_than_values',
            'sorted_indices is not the topological order of '
            'key_less_than_values')


def _pairs_swapped(expr):
  """[(j, i) for i, j in X] -> X ; None otherwise"""
  if isinstance(expr, ast.ListComp) and len(expr.generators) == 1:
    g = expr.generators[0]
    if isinstance(g.target, ast.Tuple) and len(g.target.elts) == 2 and \
        isinstance(expr.elt, ast.Tuple) and len(expr.elt.elts) == 2:
      a, b = [dotted(e) for e in g.target.elts]
      c, d = [dotted(e) for e in expr.elt.elts]
      if (c, d) == (b, a):
        return dotted(g.iter)
  return None


def _orientation(prog, res):
  fn = prog.function('linear_lib.project')
  ap = prog.function(IU + '.approximately_project_categorical_partial_'
                     'monotonicities')
  for kind in ('monotonic_dominances', 'range_dominances'):
    swapped = False
    used = False
    for st in ast.walk(fn.node):
      if isinstance(st, ast.Assign) and dotted(st.targets[0]) == kind:
        if _pairs_swapped(st.value) == kind:
          swapped = True
      if isinstance(st, ast.Call) and prog.resolve_call(fn, st) is ap and \
          len(st.args) > 1 and dotted(st.args[1]) == kind:
        used = True
      # the re-oriented list written in place of the rebinding
      if isinstance(st, ast.Call) and prog.resolve_call(fn, st) is ap and \
          len(st.args) > 1 and _pairs_swapped(st.args[1]) == kind:
        swapped = used = True
    res.check(swapped and used, 'A4', 'linear_lib.project|%s' % kind,
              fn.loc(),
              '(dominant, weak) is re-oriented to (weak, dominant): '
              'w[weak] <= w[dominant]',
              '%s pairs (dominant, weak) must be passed to the partial-order '
              'projection as (weak, dominant); otherwise the weak feature is '
              'forced above the dominant one' % kind)
  cp = prog.function('categorical_calibration_lib.project')
  good = any(isinstance(c, ast.Call) and prog.resolve_call(cp, c) is ap
             and dotted(c.args[1]) == 'monotonicities'
             for c in ast.walk(cp.node))
  res.check(good, 'A4', 'categorical_calibration_lib.project|pairs', cp.loc(),
            'categorical pairs (i, j) pass unchanged: w[i] <= w[j]',
            'categorical ordering pairs are not passed unchanged to the '
            'partial-order projection')
  # asserts use the same orientation
  la = prog.function('linear_lib.assert_constraints')
  res.analysed(la)
  for loop in ast.walk(la.node):
    if isinstance(loop, ast.For) and isinstance(loop.target, ast.Tuple):
      names = [dotted(e) for e in loop.target.elts]
      if names == ['dominant_dim', 'weak_dim']:
        src = [n for n in names_read(loop.iter) if n.endswith('dominances')]
        for b in ast.walk(loop):
          if isinstance(b, ast.BinOp) and isinstance(b.op, ast.Sub):
            lt, rt = norm_text(b.left), norm_text(b.right)
            if 'weights[dominant_dim]' in lt and 'weights[weak_dim]' in rt:
              res.ok('A4', 'linear_lib.assert_constraints|%s' % (
                  src[0] if src else 'dominances'), la.loc(b),
                     'asserts w[dominant] - w[weak] >= -eps')
            elif 'weights[weak_dim]' in lt and 'weights[dominant_dim]' in rt:
              res.violation('A4', 'linear_lib.assert_constraints|%s' % (
                  src[0] if src else 'dominances'), la.loc(b),
                            'the dominance assertion is oriented w[weak] - '
                            'w[dominant], opposite to the projection')
  ca = prog.function('categorical_calibration_lib.assert_constraints')
  res.analysed(ca)
  # the asserted difference gather(w, [[i] ...]) - gather(w, [[j] ...]):
  # which element of the pair indexes each operand, through local names,
  # comprehensions or append loops
  local = {}
  for st in ast.walk(ca.node):
    if isinstance(st, ast.Assign) and isinstance(st.targets[0], ast.Name):
      local.setdefault(st.targets[0].id, st.value)

  def pair_pos(e, depth=0):
    if depth > 4:
      return None
    if isinstance(e, ast.Name):
      # a list filled by  for (i, j) in ...: e.append([x])
      for loop in ast.walk(ca.node):
        if isinstance(loop, ast.For) and isinstance(loop.target, ast.Tuple):
          tn = [dotted(t) for t in loop.target.elts]
          for c in ast.walk(loop):
            if isinstance(c, ast.Call) and isinstance(
                c.func, ast.Attribute) and c.func.attr == 'append' and \
                dotted(c.func.value) == e.id and c.args:
              picked = [n for n in names_read(c.args[0]) if n in tn]
              if len(picked) == 1:
                return tn.index(picked[0])
      if e.id in local and local[e.id] is not e:
        return pair_pos(local[e.id], depth + 1)
      return None
    if isinstance(e, ast.Call) and (prog.ext_name(ca.module, e.func) or
                                    '').endswith('gather_nd') and len(
                                        e.args) >= 2:
      return pair_pos(e.args[1], depth + 1)
    if isinstance(e, ast.ListComp):
      g = e.generators[0]
      tn = [dotted(t) for t in g.target.elts] if isinstance(
          g.target, ast.Tuple) else []
      picked = [n for n in names_read(e.elt) if n in tn]
      if len(picked) == 1:
        return tn.index(picked[0])
    return None
  left = right = None
  subs = [b for b in ast.walk(ca.node) if isinstance(b, ast.BinOp) and
          isinstance(b.op, ast.Sub) and pair_pos(b.left) is not None and
          pair_pos(b.right) is not None]
  if len(subs) != 1:
    raise AnalysisError('categorical assert_constraints: the difference of '
                        'the two gathered sides was not found')
  left, right = pair_pos(subs[0].left), pair_pos(subs[0].right)
  res.check((left, right) == (0, 1), 'A4',
            'categorical_calibration_lib.assert_constraints|pairs', ca.loc(),
            'asserts w[i] - w[j] <= eps for every pair (i, j)',
            'the categorical assertion gathers left/right as pair elements '
            '%s/%s instead of i/j' % (left, right))


def _scalings_form(prog, fn):
  """(sign expression ok, multiplier ok, guard ok, once per dimension)"""
  sign_ok = mult_ok = guard_ok = False
  once_ok = True
  for st in ast.walk(fn.node):
    if isinstance(st, ast.Assign) and dotted(st.targets[0]) == 'scalings' \
        and isinstance(st.value, ast.ListComp):
      e = st.value.elt
      if isinstance(e, ast.IfExp) and isinstance(e.test, ast.Compare):
        sign_ok = (const_value(e.test.comparators[0]) == -1
                   and const_value(e.body) == -1.0
                   and const_value(e.orelse) == 1.0
                   and dotted(st.value.generators[0].iter) == 'monotonicities')
    if isinstance(st, ast.AugAssign) and isinstance(st.op, ast.Mult) and \
        isinstance(st.target, ast.Subscript) and dotted(
            st.target.value) == 'scalings':
      v = st.value
      mult_ok = (isinstance(v, ast.BinOp) and isinstance(v.op, ast.Sub)
                 and roles.role_of_name(dotted(v.left)) == 'max'
                 and roles.role_of_name(dotted(v.right)) == 'min')
      gs = structural_guards(fn.node, st) or []
      reads = set()
      for t, pol in gs:
        reads |= names_read(t)
      guard_ok = {dotted(v.left), dotted(v.right)} <= reads
      # the width of a dimension enters its scaling ONCE: not inside a loop
      # over the dominance pairs (a dimension shared by k pairs would be
      # scaled by width**k when the k-th pair is judged)
      for loop in ast.walk(fn.node):
        if isinstance(loop, ast.For) and any(x is st for x in ast.walk(loop)) \
            and any(r.endswith('dominances') for r in names_read(loop.iter)):
          once_ok = False
  return sign_ok, mult_ok, guard_ok, once_ok


def _scaling(prog, res):
  pr = prog.function('linear_lib.project')
  asf = prog.function('linear_lib.assert_constraints')
  for fn in (pr, asf):
    s, m, g, once = _scalings_form(prog, fn)
    res.check(once, 'P4', '%s|scalings-once' % fn.qualname, fn.loc(),
              'each dimension is scaled by its range width once',
              'in %s the range width is multiplied into scalings inside the '
              'loop over dominance pairs: a dimension shared by several pairs '
              'is scaled repeatedly, so later pairs are judged with the wrong '
              'scale' % fn.name)
    res.check(s and m and g, 'P4', '%s|scalings' % fn.qualname, fn.loc(),
              'scalings = sign(monotonicity) * (upper - lower) where both '
              'bounds exist',
              'range scalings in %s are not sign(monotonicity) * (upper - '
              'lower) [sign=%s multiplier=%s guard=%s]: projection and '
              'assertion would disagree about range dominance' % (
                  fn.name, s, m, g))
  # multiply ... project ... divide with the same tensor
  mul = div = projn = None
  for st in ast.walk(pr.node):
    if isinstance(st, ast.AugAssign) and dotted(st.target) == 'weights' and \
        dotted(st.value) == 'scalings':
      if isinstance(st.op, ast.Mult):
        mul = st
      elif isinstance(st.op, ast.Div):
        div = st
    if isinstance(st, ast.Assign) and isinstance(st.value, ast.Call) and \
        len(st.value.args) > 1 and (
            dotted(st.value.args[1]) == 'range_dominances' or
            _pairs_swapped(st.value.args[1]) == 'range_dominances'):
      projn = st
  good = (mul is not None and div is not None and projn is not None
          and mul.lineno < projn.lineno < div.lineno)
  if good:
    cfg = CFG(pr.node)
    good = cfg.dominates(cfg.node_of(mul), cfg.node_of(projn)) and \
        cfg.dominates(cfg.node_of(projn), cfg.node_of(div)) and \
        not any(isinstance(s, ast.Assign) and dotted(s.targets[0]) ==
                'scalings' and mul.lineno < s.lineno < div.lineno
                for s in ast.walk(pr.node))
  res.check(good, 'P4', 'linear_lib.project|scale-project-unscale', pr.loc(),
            'weights *= scalings; project; weights /= scalings (same tensor)',
            'range dominance must scale the weights, project, and divide by '
            'the same scalings tensor')
  # assertion compares scaled weights, dominant minus weak
  good = False
  for b in ast.walk(asf.node):
    if isinstance(b, ast.BinOp) and isinstance(b.op, ast.Sub):
      lt, rt = norm_text(b.left), norm_text(b.right)
      if ('scalings[dominant_dim] * weights[dominant_dim]' in lt
          and 'scalings[weak_dim] * weights[weak_dim]' in rt):
        good = True
  res.check(good, 'P4', 'linear_lib.assert_constraints|scaled-difference',
            asf.loc(),
            'asserts s[dom]*w[dom] - s[weak]*w[weak] >= -eps',
            'the range dominance assertion does not compare '
            'scalings[dominant]*w[dominant] - scalings[weak]*w[weak]')


def _norm(prog, res):
  for q in ('linear_lib.project', 'linear_lib.assert_constraints'):
    fn = prog.function(q)
    good = False
    for c in ast.walk(fn.node):
      if isinstance(c, ast.Call) and prog.ext_name(
          fn.module, c.func) == 'tf.norm':
        kw = {k.arg: k.value for k in c.keywords}
        good = (const_value(kw.get('axis')) == 0
                and dotted(kw.get('ord')) == 'normalization_order'
                and dotted(c.args[0]) == 'weights')
    res.check(good, 'X1', '%s|norm-axis' % q, fn.loc(),
              'tf.norm(weights, axis=0, ord=normalization_order): one norm '
              'per unit',
              'the norm in %s is not taken per unit (axis=0) with the '
              'requested order' % fn.name)
  pr = prog.function('linear_lib.project')
  good = False
  for st in ast.walk(pr.node):
    st = expand_aug(st)
    if isinstance(st, ast.Assign) and dotted(st.targets[0]) == 'weights' and \
        isinstance(st.value, ast.BinOp) and isinstance(st.value.op, ast.Div) \
        and dotted(st.value.left) == 'weights':
      d = st.value.right
      # the norm, or the norm with its zero guard written in place
      if dotted(d) == 'norm' or (isinstance(d, ast.Call) and prog.ext_name(
          pr.module, d.func) == 'tf.where' and len(d.args) == 3 and dotted(
              d.args[2]) == 'norm'):
        good = True
  res.check(good, 'X1', 'linear_lib.project|normalise', pr.loc(),
            'weights = weights / norm', 'weights are not divided by the norm')


def _categorical_project(prog, res):
  fn = prog.function('categorical_calibration_lib.project')
  res.analysed(fn)
  cfg = CFG(fn.node)
  mono = clips = None
  clip_nodes = []
  for st in ast.walk(fn.node):
    if isinstance(st, ast.Assign) and isinstance(st.value, ast.Call):
      r = prog.resolve_call(fn, st.value)
      ext = prog.ext_name(fn.module, st.value.func)
      if isinstance(r, FunctionInfo) and r.name.startswith(
          'approximately_project'):
        mono = cfg.node_of(st)
      if ext in ('tf.maximum', 'tf.minimum'):
        clip_nodes.append(cfg.node_of(st))
  good = mono is not None and len(clip_nodes) == 2 and all(
      c in cfg.reachable_from(mono) and mono not in cfg.reachable_from(c)
      for c in clip_nodes)
  res.check(good, 'W4', '%s|bounds-after-ordering' % fn.qualname, fn.loc(),
            'bounds are clipped after the ordering projection (a monotone '
            'clip preserves the order)',
            'the bound clips must come after the ordering projection')
  ret = [s for s in ast.walk(fn.node) if isinstance(s, ast.Return)]
  tgt = dotted(ret[-1].value) if ret else None
  # `result = weights; return result`: the returned name is an alias
  for st in fn.node.body:
    if isinstance(st, ast.Assign) and dotted(st.targets[0]) == tgt and \
        isinstance(st.value, ast.Name) and any(
            dotted(cfg.nodes[c].stmt.targets[0]) == st.value.id
            for c in clip_nodes):
      tgt = st.value.id
  res.check(tgt is not None and all(dotted(cfg.nodes[c].stmt.targets[0]) ==
                                    tgt for c in clip_nodes), 'W4',
            '%s|returns-clipped' % fn.qualname, fn.loc(),
            'the clipped tensor is returned',
            'categorical project does not return the clipped tensor')
  roles.check_clip_polarity(prog, res, fn)
  guards.check_bound_guards(
      prog, res, fn, [('output_min', 'min'), ('output_max', 'max')],
      must_run=[('monotonicities', ('allzero', 'nonzero'),
                 lambda nm: nm.startswith('approximately_project'),
                 'the ordering projection')])
  res.floor('K3', 3)


def _wiring(prog, res):
  for cq, tq in (('linear_layer.LinearConstraints', 'linear_lib.project'),
                 ('categorical_calibration_layer.'
                  'CategoricalCalibrationConstraints',
                  'categorical_calibration_lib.project')):
    cls = prog.cls(cq)
    cm = cls.methods['__call__']
    t = prog.function(tq)
    res.analysed(cm, t)
    calls = wiring.calls_to(prog, cm, t)
    if len(calls) != 1:
      raise AnalysisError('%s.__call__ changed shape' % cq)
    wiring.check_forwarding(prog, res, cm, calls[0], t, rule='W1')
    gs = structural_guards(cm.node, calls[0]) or []
    res.check(not gs, 'W3', '%s.__call__|unguarded' % cq, cm.loc(calls[0]),
              'the projection is applied unconditionally',
              'the projection call in %s.__call__ is guarded by %s' % (
                  cls.name, [norm_text(g[0]) for g in gs]))


def _toposort(prog, res):
  """O2: the sorted index list the two chain projections walk is produced by
  an explicit-stack depth-first search.  It is a topological order only if a
  vertex is emitted when it FINISHES (no unvisited successor left) and the
  emitted sequence is reversed finish order (prepend, or append + reverse).
  Emitting on discovery gives a pre-order, which is not topological for any
  vertex reached before one of its predecessors."""
  fn = prog.function(IU + '._topological_sort')
  res.analysed(fn)
  key = fn.qualname
  loops = [n for n in fn.node.body if isinstance(n, ast.While)]
  if len(loops) != 1:
    raise AnalysisError('%s: expected one explicit-stack while loop' % key)
  loop = loops[0]
  stack = dotted(loop.test)
  top = None
  for st in loop.body:
    if isinstance(st, ast.Assign) and isinstance(st.value, ast.Subscript) \
        and dotted(st.value.value) == stack and const_value(
            st.value.slice, None) == -1:
      top = dotted(st.targets[0])
  if top is None:
    raise AnalysisError('%s: `v = %s[-1]` not found' % (key, stack))
  expand = None
  for st in ast.walk(loop):
    if isinstance(st, ast.Assign) and isinstance(st.value, ast.ListComp):
      g = st.value.generators[0]
      it = g.iter
      unseen = [c for c in g.ifs if isinstance(c, ast.Compare) and isinstance(
          c.ops[0], ast.NotIn)]
      if isinstance(it, ast.Subscript) and dotted(it.slice) == top and unseen:
        expand = dotted(st.targets[0])
        seen = dotted(unseen[0].comparators[0])
  if expand is None:
    raise AnalysisError('%s: list of unvisited successors not found' % key)
  # emissions of the top vertex into the result list
  ret = [r for r in ast.walk(fn.node) if isinstance(r, ast.Return)]
  if len(ret) != 1:
    raise AnalysisError('%s: expected one return' % key)
  rv = ret[0].value
  reversed_ret = False
  if isinstance(rv, ast.Subscript) and isinstance(rv.slice, ast.Slice) and \
      const_value(rv.slice.step, None) == -1:
    out, reversed_ret = dotted(rv.value), True
  elif isinstance(rv, ast.Call) and dotted(rv.func) in ('reversed', 'list') \
      and rv.args:
    inner = rv.args[0]
    if isinstance(inner, ast.Call) and dotted(inner.func) == 'reversed':
      inner = inner.args[0]
      reversed_ret = True
    elif dotted(rv.func) == 'reversed':
      reversed_ret = True
    out = dotted(inner)
  else:
    out = dotted(rv)
  if out is None:
    raise AnalysisError('%s: returned list not recognised' % key)
  emits = []
  for st in ast.walk(loop):
    kind = None
    if isinstance(st, ast.Assign) and dotted(st.targets[0]) == out and \
        isinstance(st.value, ast.BinOp) and isinstance(st.value.op, ast.Add):
      l, r = st.value.left, st.value.right
      def single(e):
        return isinstance(e, ast.List) and len(e.elts) == 1 and dotted(
            e.elts[0]) == top
      if single(l) and dotted(r) == out:
        kind = 'prepend'
      elif single(r) and dotted(l) == out:
        kind = 'append'
    elif isinstance(st, ast.AugAssign) and dotted(st.target) == out and \
        isinstance(st.op, ast.Add) and isinstance(st.value, ast.List) and \
        len(st.value.elts) == 1 and dotted(st.value.elts[0]) == top:
      kind = 'append'
    elif isinstance(st, ast.Expr) and isinstance(st.value, ast.Call) and \
        isinstance(st.value.func, ast.Attribute) and dotted(
            st.value.func.value) == out:
      c = st.value
      if c.func.attr == 'append' and len(c.args) == 1 and dotted(
          c.args[0]) == top:
        kind = 'append'
      elif c.func.attr == 'insert' and len(c.args) == 2 and const_value(
          c.args[0], None) == 0 and dotted(c.args[1]) == top:
        kind = 'prepend'
    if kind:
      emits.append((st, kind))
  if len(emits) != 1:
    raise AnalysisError('%s: expected exactly one statement that emits the '
                        'top vertex into %s, found %d' % (key, out, len(emits)))
  st, kind = emits[0]
  gs = structural_guards(loop, st) or []
  finished = any((norm_text(t) == expand and not pol) or
                 (isinstance(t, ast.UnaryOp) and isinstance(t.op, ast.Not) and
                  dotted(t.operand) == expand and pol) for t, pol in gs)
  res.check(finished, 'O2', key + '|emit-on-finish', fn.loc(st),
            'a vertex is emitted only when `%s` (its unvisited successors) is '
            'empty' % expand,
            'the vertex is emitted under %s, not when its list of unvisited '
            'successors `%s` is empty: the result is a discovery (pre-) order, '
            'which is not topological when a vertex is reached before one of '
            'its predecessors' % ([('' if pol else 'not ') + norm_text(t)
                                   for t, pol in gs] or 'no guard', expand))
  res.check((kind == 'prepend') != reversed_ret, 'O2',
            key + '|reverse-finish-order', fn.loc(st),
            'finish order is reversed (%s%s)' % (
                kind, ' + reversed return' if reversed_ret else ''),
            'vertices are emitted by %s and the list is returned %s: the '
            'result is finish order (successors first), the reverse of a '
            'topological order' % (kind, 'reversed' if reversed_ret else
                                   'as is'))


def _toposort_visits(prog, res):
  """O2 (visit discipline): in the explicit-stack DFS a vertex may only be
  marked visited when it is on top of the stack and is being expanded, and
  only one unvisited successor is pushed at a time.  Marking successors when
  they are PUSHED (or starting with the roots already marked) lets a vertex
  that is reachable on two paths finish before one of its successors: the
  emitted order is then not topological although every vertex is still
  emitted exactly once on finishing."""
  fn = prog.function(IU + '._topological_sort')
  key = fn.qualname
  loop = [n for n in fn.node.body if isinstance(n, ast.While)][0]
  stack = dotted(loop.test)
  top = seen = expand = None
  for st in ast.walk(loop):
    if isinstance(st, ast.Assign) and isinstance(st.value, ast.Subscript) \
        and dotted(st.value.value) == stack and const_value(
            st.value.slice, None) == -1:
      top = dotted(st.targets[0])
    if isinstance(st, ast.Assign) and isinstance(st.value, ast.ListComp):
      for c in st.value.generators[0].ifs:
        if isinstance(c, ast.Compare) and isinstance(c.ops[0], ast.NotIn):
          seen = dotted(c.comparators[0])
          expand = dotted(st.targets[0])
  if top is None:
    # the vertex is POPPED at the start of the iteration and emitted in the
    # same iteration: it is emitted before the vertices reachable from it
    # have been emitted (pre-order / breadth-first order), which is a
    # topological order only for graphs in which no vertex is reachable by
    # two paths of different length
    popped = None
    for st in loop.body:
      if isinstance(st, ast.Assign) and isinstance(st.value, ast.Call) and \
          isinstance(st.value.func, ast.Attribute) and \
          st.value.func.attr == 'pop' and dotted(
              st.value.func.value) == stack and isinstance(
                  st.targets[0], ast.Name):
        popped = st.targets[0].id
    emitted = None
    if popped:
      for st in loop.body:      # top level of the iteration: unconditional
        for c in ast.walk(st) if not isinstance(st, (ast.If, ast.For,
                                                     ast.While)) else []:
          if isinstance(c, ast.Call) and isinstance(
              c.func, ast.Attribute) and c.func.attr in (
                  'append', 'insert') and any(
                      isinstance(a, ast.Name) and a.id == popped
                      for a in c.args) and dotted(c.func.value) != stack:
            emitted = c
        if isinstance(st, (ast.Assign, ast.AugAssign)) and not isinstance(
            st.value, ast.Call) and any(
                isinstance(x, ast.Name) and x.id == popped
                for x in ast.walk(st.value)) and isinstance(
                    st.value, (ast.BinOp, ast.List)):
          emitted = st
    if popped and emitted is not None:
      res.violation('O2', key + '|visit-discipline', fn.loc(emitted),
                    '`%s` is popped from the stack and emitted in the same '
                    'iteration (`%s`), before the vertices reachable from it '
                    'are finished: the order is pre-order / breadth-first, '
                    'not topological, as soon as a vertex is reachable by two '
                    'paths of different length' % (
                        popped, norm_text(emitted)[:50]))
      return
  if top is None or seen is None:
    raise AnalysisError('%s: top of stack / visited set not found' % key)
  bad = []
  for st in ast.walk(fn.node):
    if isinstance(st, ast.Assign) and dotted(st.targets[0]) == seen:
      v = st.value
      empty = isinstance(v, ast.Call) and dotted(v.func) == 'set' and not \
          v.args
      if not empty:
        bad.append('the visited set starts as `%s`' % norm_text(v)[:40])
    if isinstance(st, ast.Call) and isinstance(st.func, ast.Attribute) and \
        dotted(st.func.value) == seen and st.func.attr in (
            'add', 'update', 'union'):
      if not (st.func.attr == 'add' and len(st.args) == 1 and dotted(
          st.args[0]) == top):
        bad.append('`%s` marks vertices other than the one being expanded' %
                   norm_text(st)[:50])
    if isinstance(st, ast.Call) and isinstance(st.func, ast.Attribute) and \
        dotted(st.func.value) == stack and st.func.attr in ('extend',
                                                             'append'):
      a = st.args[0] if st.args else None
      one = st.func.attr == 'append' and isinstance(a, ast.Subscript) and \
          dotted(a.value) == expand
      if not one:
        bad.append('`%s` pushes more than one unvisited successor' %
                   norm_text(st)[:50])
  # ... and it is marked as soon as it is on top of the stack, before its
  # successors are listed: marked only when it finishes, a vertex on a cycle
  # that is reachable from a root is pushed again and again (the loop never
  # ends for cyclic ordering pairs instead of being rejected or processed)
  adds = [st for st in loop.body if isinstance(st, ast.Expr) and isinstance(
      st.value, ast.Call) and isinstance(st.value.func, ast.Attribute) and
          dotted(st.value.func.value) == seen and st.value.func.attr == 'add']
  exp_at = [i for i, st in enumerate(loop.body) if isinstance(
      st, ast.Assign) and dotted(st.targets[0]) == expand]
  if not (adds and exp_at and loop.body.index(adds[0]) < exp_at[0]):
    bad.append('the vertex on top of the stack is not marked visited '
               'unconditionally before its successors are listed')
  res.check(not bad, 'O2', key + '|visit-discipline', fn.loc(loop),
            'vertices are marked visited when expanded (on top of the stack) '
            'and successors are pushed one at a time',
            '; '.join(bad) + ': a vertex reachable on two paths can finish '
            'before one of its successors, the order is not topological')


def _divisor_guard(prog, res):
  """D2: the range scaling `upper - lower` is multiplied in and divided out
  again.  The validator accepts lower == upper (a constant clipped input), so
  the width may only enter the scaling under a guard that implies a positive
  width, and dimensions of a range-dominance pair - whose width defines the
  constraint - must be rejected when lower >= upper; otherwise a zero-width
  range turns the weight into 0 / 0 = NaN."""
  for q in ('linear_lib.project', 'linear_lib.assert_constraints'):
    fn = prog.function(q)
    res.analysed(fn)
    sites = []
    for st in ast.walk(fn.node):
      if isinstance(st, (ast.AugAssign, ast.Assign)):
        v = st.value
        for b in ast.walk(v):
          if isinstance(b, ast.BinOp) and isinstance(b.op, ast.Sub) and \
              {dotted(b.left), dotted(b.right)} == {'upper', 'lower'}:
            sites.append((st, b))
    if not sites:
      found_elsewhere = any(
          isinstance(b, ast.BinOp) and isinstance(b.op, ast.Sub) and
          {dotted(b.left), dotted(b.right)} == {'upper', 'lower'}
          for q2 in ('linear_lib.project', 'linear_lib.assert_constraints')
          if q2 != q for b in ast.walk(prog.function(q2).node))
      if not found_elsewhere:
        raise AnalysisError('%s: the range width upper - lower vanished' % q)
      res.violation('D2', '%s|scaling-siblings' % q, fn.loc(),
                    'linear_lib.project and linear_lib.assert_constraints no '
                    'longer build the range scaling the same way (one loops '
                    'over zip(input_min, input_max) and multiplies each '
                    'dimension once by upper - lower, the other does not): '
                    'the projection enforces another inequality than the '
                    'assertion checks, e.g. a dimension in k pairs scaled by '
                    'range**k')
      continue
    for i, (st, b) in enumerate(sites):
      gs = structural_guards(fn.node, st) or []
      strict = False
      for t, pol in gs:
        for c in ast.walk(t):
          if isinstance(c, ast.Compare) and len(c.ops) == 1 and pol:
            l, r = dotted(c.left), dotted(c.comparators[0])
            if (isinstance(c.ops[0], ast.Gt) and (l, r) == ('upper', 'lower')) \
                or (isinstance(c.ops[0], ast.Lt) and (l, r) == (
                    'lower', 'upper')) or (isinstance(c.ops[0], ast.NotEq)
                                           and {l, r} == {'upper', 'lower'}):
              strict = True
      res.check(strict, 'D2', '%s|width-guard%s' % (q, '#%d' % (i + 1) if i
                                                    else ''), fn.loc(st),
                'the width enters the scaling only when upper > lower',
                '`%s` uses the width of the input range without excluding '
                'upper == lower, which the validator accepts: the weights are '
                'multiplied and divided by 0 and become NaN' % norm_text(st)[
                    :50])
  v = prog.function('linear_lib.verify_hyperparameters')
  res.analysed(v)
  good = False
  for loop in ast.walk(v.node):
    if isinstance(loop, ast.For) and dotted(loop.iter) == 'range_dominances':
      for st in ast.walk(loop):
        if isinstance(st, ast.If) and any(isinstance(x, ast.Raise)
                                          for x in st.body):
          for c in ast.walk(st.test):
            if isinstance(c, ast.Compare) and len(c.ops) == 1:
              l = norm_text(c.left).replace(' ', '')
              r = norm_text(c.comparators[0]).replace(' ', '')
              if (isinstance(c.ops[0], ast.GtE) and l.startswith('input_min[')
                  and r.startswith('input_max[')) or (
                      isinstance(c.ops[0], ast.LtE) and l.startswith(
                          'input_max[') and r.startswith('input_min[')):
                good = True
  res.check(good, 'D2', 'linear_lib.verify_hyperparameters|pair-width',
            v.loc(),
            'dimensions of a range dominance pair are rejected when '
            'input_min >= input_max',
            'a range dominance pair on a zero-width input range is accepted: '
            'its scaled constraint is 0 * w_dominant >= range * w_weak and the '
            'scaling cannot be undone')


def _project_steps(prog, res):
  """W4 (linear): linear_lib.project applies its steps so that each later step
  keeps what the earlier ones established: sign clamps, then monotonic
  dominance, then range dominance, and the normalisation LAST (a positive
  rescaling of a column keeps signs and both dominance orders, whereas the
  scale / project / unscale of range dominance does not keep the norm).
  The two sign clamps are independent: in a layer with increasing AND
  decreasing inputs both must run."""
  fn = prog.function('linear_lib.project')
  res.analysed(fn)
  top = [st for st in fn.node.body if isinstance(st, ast.If)]

  def kind(st):
    reads = names_read(st.test)
    t = norm_text(st.test).replace(' ', '')
    if 'normalization_order' in reads:
      return 'norm'
    if 'range_dominances' in reads:
      return 'range'
    if 'monotonic_dominances' in reads:
      return 'dominance'
    if t.startswith('any(monotonicities'):
      return 'clamps'
    return None
  seq = [k for k in (kind(st) for st in top) if k]
  want = ['clamps', 'dominance', 'range', 'norm']
  res.check(seq == want, 'W4', 'linear_lib.project|step-order', fn.loc(),
            'steps run as sign clamps -> monotonic dominance -> range '
            'dominance -> normalisation',
            'linear_lib.project runs its steps as %s, expected %s: a step that '
            'does not preserve an earlier guarantee now runs after it (e.g. '
            'range dominance after the normalisation leaves the columns '
            'un-normalised)' % (seq, want))
  # independence of the two clamps
  clamp_if = [st for st in top if kind(st) == 'clamps']
  if len(clamp_if) != 1:
    raise AnalysisError('linear_lib.project: sign clamp block not found')
  inner = {}
  for st in ast.walk(clamp_if[0]):
    if isinstance(st, ast.If) and isinstance(st.test, ast.Compare) and \
        isinstance(st.test.ops[0], ast.In) and dotted(
            st.test.comparators[0]) == 'monotonicities':
      inner[const_value(st.test.left, None)] = st
  if set(inner) != {1, -1}:
    raise AnalysisError('linear_lib.project: the two sign clamps were not '
                        'found (%s)' % sorted(inner, key=str))
  dependent = []
  for sign, st in inner.items():
    for t, pol in structural_guards(clamp_if[0], st) or []:
      other = inner[-sign]
      if norm_text(t) == norm_text(other.test) and not pol:
        dependent.append(sign)
  res.check(not dependent, 'P3', 'linear_lib.project|clamps-independent',
            fn.loc(inner[-1]),
            'the increasing and the decreasing clamp are separate ifs',
            'the clamp for monotonicity %s only runs when the other direction '
            'is absent (elif): a layer with increasing and decreasing inputs '
            'keeps wrong-signed weights on one of them' % dependent)
