"""C10 - freshly built layers start inside their bounds (K5, I3, W1)."""
import ast

from ..model import (AnalysisError, FunctionInfo, dotted, norm_text,
                     const_value, call_args)
from ..rules import influence as inf
from ..rules import wiring

TECHNIQUE = ('configuration-aware must-depend influence analysis of the code '
             'that constructs the initializers (every configured bound must '
             'reach the initializer object), exact region evaluation of the '
             'piecewise-linear default initialisation range, forwarding lint')
EXPLANATION = (
    'Static analysis of structural necessary conditions of C10; that the '
    'sampled / constructed initial kernels satisfy every inequality for every '
    'shape and seed is a statement about runtime values and is NOT decided. '
    'Decided: (K5) for every library initializer id and every combination of '
    'given / omitted output bounds (and explicit init range), the initializer '
    'object a layer constructs is data-dependent on each configured bound - '
    'an initial kernel that does not depend on a bound lies outside it for '
    'some admissible bound; covered: Lattice create_kernel_initializer, '
    'CategoricalCalibration.__init__, PWLCalibration.__init__ (through '
    'convert_all_constraints), KroneckerFactoredLattice scale and bias '
    'initializers. (I3) the default initialisation range derived from the '
    'bounds is non-degenerate (init_min < init_max) and inside the bounds on '
    'every region of the piecewise-linear case analysis (bounds below, at, '
    'between and above the constants 0 and 1), so that the library '
    'initializers accept it. (I4) the number of keypoints the equal_slopes '
    'initializer turns into a [rows, 1] tensor equals the number of kernel '
    'rows in both cyclic modes. (W1) Lattice / KFL __init__ forward their bounds '
    'and init range to the factory unchanged.'
    ' String hyper-parameters validated through .lower() are never compared raw by an initialiser (V3c across modules).')
ASSUMPTIONS = ['an initializer object influences the kernel only through its '
               'constructor arguments',
               'min / max / comparison semantics of Python floats']

G = inf.GIVEN


def run(prog, res):
  _lattice(prog, res)
  _categorical(prog, res)
  _pwl(prog, res)
  _kfl(prog, res)
  _default_range(prog, res)
  _pwl_init_sizes(prog, res)
  res.floor('I4', 1)
  _equal_slopes_sum(prog, res)
  res.floor('I5', 1)
  _decreasing_mirror(prog, res)
  res.floor('I6', 1)
  # the initialisers read the same string hyper-parameters as the validators
  # and projections: spellings accepted through .lower() are never compared
  # raw (a 'Valley' joint unimodality must start valley-shaped)
  from ..rules import spelling as _sp
  _sp.check_case_agreement(prog, res, ['lattice_lib', 'lattice_layer', 'utils',
                                       'pwl_calibration_layer',
                                       'pwl_calibration_lib'])
  res.floor('V3c', 8)
  res.floor('K5', 20)
  res.floor('I3', 2)
  res.floor('W1', 8)


def _need(case, bounds):
  return [b for b in bounds if case.get(b) is G]


def _judge(res, rule, key, loc, out, need, what, case):
  lack = sorted(set(need) - set(inf._join(out).infl))
  res.check(not lack, rule, key, loc,
            '%s depends on %s' % (what, ', '.join(sorted(need)) or
                                  'nothing (no bound configured)'),
            '%s does not depend on the configured %s in configuration %s: the '
            'initial weights are the same whatever the bound is, so they lie '
            'outside it for some admissible value' % (
                what, ' / '.join(lack),
                {k: ('given' if v is G else v) for k, v in case.items()}))


def _bound_cases(names=('output_min', 'output_max')):
  for a in (G, None):
    for b in (G, None):
      if a is None and b is None:
        continue
      yield {names[0]: a, names[1]: b}


def _env_for(fn, case, bounds):
  env = {}
  for p in fn.all_params:
    if p in bounds:
      env[p] = inf.V(G, {p}) if case.get(p) is G else inf.V(None)
    elif p in case:
      env[p] = inf.V(case[p])
    elif p in fn.defaults:
      c = const_value(fn.defaults[p], default=inf.UNK)
      env[p] = inf.V(c)
    else:
      env[p] = inf.V(inf.UNK)
  return env


# ---------------------------------------------------------------------------
def _lattice(prog, res):
  fn = prog.function('lattice_layer.create_kernel_initializer')
  res.analysed(fn)
  ids = ('linear_initializer', 'random_monotonic_initializer',
         'random_uniform_or_linear_initializer')
  for kid in ids:
    for bc in _bound_cases():
      for explicit in (False, True):
        case = dict(bc, kernel_initializer_id=kid)
        bounds = ['output_min', 'output_max']
        if explicit:
          case.update(init_min=G, init_max=G)
          bounds = ['init_min', 'init_max']     # the explicit range overrides
        else:
          case.update(init_min=None, init_max=None)
        env = _env_for(fn, case, ('output_min', 'output_max', 'init_min',
                                  'init_max'))
        it = inf.Interp(prog, strict=False)
        out = it.run(fn, env)
        key = '%s|%s|%s' % (fn.qualname, kid, ','.join(
            '%s=%s' % (k, 'given' if case[k] is G else 'None')
            for k in ('output_min', 'output_max', 'init_min')))
        _judge(res, 'K5', key, fn.loc(), out, _need(case, bounds),
               'the Lattice kernel initializer', case)
  # __init__ forwards the bounds and the init range
  init = prog.function('lattice_layer.Lattice.__init__')
  calls = wiring.calls_to(prog, init, fn)
  if len(calls) != 1:
    raise AnalysisError('Lattice.__init__: expected one call of '
                        'create_kernel_initializer')
  wiring.check_forwarding(prog, res, init, calls[0], fn, rule='W1',
                          skip=('kernel_initializer_id',),
                          label='Lattice.__init__->create_kernel_initializer')


def _categorical(prog, res):
  init = prog.function(
      'categorical_calibration_layer.CategoricalCalibration.__init__')
  res.analysed(init)
  for kid in ('uniform', 'constant'):
    for bc in _bound_cases():
      case = dict(bc, kernel_initializer=kid)
      env = _env_for(init, case, ('output_min', 'output_max'))
      it = inf.Interp(prog, strict=False)
      end = it.run_env(init, env)
      out = end.get('self.kernel_initializer', inf.V(inf.UNK))
      key = '%s|%s|%s' % (init.qualname, kid, ','.join(
          '%s=%s' % (k, 'given' if case[k] is G else 'None')
          for k in ('output_min', 'output_max')))
      _judge(res, 'K5', key, init.loc(), out,
             _need(case, ('output_min', 'output_max')),
             'the CategoricalCalibration kernel initializer', case)


def _pwl(prog, res):
  init = prog.function('pwl_calibration_layer.PWLCalibration.__init__')
  res.analysed(init)
  for kid in ('equal_heights', 'equal_slopes'):
    for bc in _bound_cases():
      case = dict(bc, kernel_initializer=kid, clamp_min=False,
                  clamp_max=False)
      env = _env_for(init, case, ('output_min', 'output_max'))
      it = inf.Interp(prog, strict=False)
      end = it.run_env(init, env)
      out = end.get('self.kernel_initializer', inf.V(inf.UNK))
      key = '%s|%s|%s' % (init.qualname, kid, ','.join(
          '%s=%s' % (k, 'given' if case[k] is G else 'None')
          for k in ('output_min', 'output_max')))
      _judge(res, 'K5', key, init.loc(), out,
             _need(case, ('output_min', 'output_max')),
             'the PWLCalibration kernel initializer', case)


def _kfl(prog, res):
  mod = 'kronecker_factored_lattice_layer'
  fn = prog.function(mod + '.create_scale_initializer')
  res.analysed(fn)
  for bc in _bound_cases():
    case = dict(bc, scale_initializer_id='scale_initializer')
    env = _env_for(fn, case, ('output_min', 'output_max'))
    out = inf.Interp(prog, strict=False).run(fn, env)
    key = '%s|%s' % (fn.qualname, ','.join(
        '%s=%s' % (k, 'given' if case[k] is G else 'None')
        for k in ('output_min', 'output_max')))
    _judge(res, 'K5', key, fn.loc(), out,
           _need(case, ('output_min', 'output_max')),
           'the KFL scale initializer', case)
  # the bias initializer is built in build() from the layer's own bounds
  build = prog.function(mod + '.KroneckerFactoredLattice.build')
  res.analysed(build)
  bi = prog.cls(mod + '.BiasInitializer')
  calls = wiring.calls_to(prog, build, bi)
  if len(calls) != 1:
    raise AnalysisError('KroneckerFactoredLattice.build: expected one '
                        'BiasInitializer(...)')
  wiring.check_forwarding(prog, res, build, calls[0], bi, rule='W1',
                          label='KFL.build->BiasInitializer')
  init = prog.function(mod + '.KroneckerFactoredLattice.__init__')
  for target in ('create_kernel_initializer', 'create_scale_initializer'):
    t = prog.function(mod + '.' + target)
    cs = wiring.calls_to(prog, init, t)
    if len(cs) != 1:
      raise AnalysisError('KFL.__init__: expected one call of %s' % target)
    wiring.check_forwarding(
        prog, res, init, cs[0], t, rule='W1',
        skip=('kernel_initializer_id', 'scale_initializer_id'),
        label='KFL.__init__->%s' % target)


# ---------------------------------------------------------------------------
def _eval(e, env):
  """exact evaluation of the float / None / comparison / min / max subset."""
  if isinstance(e, ast.Constant):
    return e.value
  if isinstance(e, ast.Name):
    if e.id in env:
      return env[e.id]
    raise AnalysisError('default range: name %s' % e.id)
  if isinstance(e, ast.UnaryOp) and isinstance(e.op, ast.USub):
    return -_eval(e.operand, env)
  if isinstance(e, ast.UnaryOp) and isinstance(e.op, ast.Not):
    return not _eval(e.operand, env)
  if isinstance(e, ast.BinOp):
    a, b = _eval(e.left, env), _eval(e.right, env)
    if isinstance(e.op, ast.Add):
      return a + b
    if isinstance(e.op, ast.Sub):
      return a - b
    if isinstance(e.op, ast.Mult):
      return a * b
    if isinstance(e.op, ast.Div):
      return a / b
  if isinstance(e, ast.BoolOp):
    vals = [_eval(v, env) for v in e.values]
    return all(vals) if isinstance(e.op, ast.And) else any(vals)
  if isinstance(e, ast.Compare) and len(e.ops) == 1:
    a, b = _eval(e.left, env), _eval(e.comparators[0], env)
    op = e.ops[0]
    if isinstance(op, ast.Is):
      return a is b
    if isinstance(op, ast.IsNot):
      return a is not b
    return {ast.Lt: a < b, ast.LtE: a <= b, ast.Gt: a > b, ast.GtE: a >= b,
            ast.Eq: a == b, ast.NotEq: a != b}[type(op)] if not (
                a is None or b is None) else {ast.Eq: a == b,
                                              ast.NotEq: a != b}[type(op)]
  if isinstance(e, ast.IfExp):
    return _eval(e.body if _eval(e.test, env) else e.orelse, env)
  if isinstance(e, ast.Call) and dotted(e.func) in ('min', 'max', 'float',
                                                    'abs'):
    args = [_eval(a, env) for a in e.args]
    return {'min': min, 'max': max, 'float': float, 'abs': abs}[
        dotted(e.func)](*args)
  if isinstance(e, ast.Tuple):
    return tuple(_eval(x, env) for x in e.elts)
  raise AnalysisError('default range: expression `%s` is outside the '
                      'piecewise-linear subset' % norm_text(e)[:50])


def _exec(stmts, env):
  for st in stmts:
    if isinstance(st, ast.Expr):
      continue
    if isinstance(st, ast.Assign) and isinstance(st.targets[0], ast.Name):
      env[st.targets[0].id] = _eval(st.value, env)
    elif isinstance(st, ast.If):
      r = _exec(st.body if _eval(st.test, env) else st.orelse, env)
      if r is not None:
        return r
    elif isinstance(st, ast.Return):
      return _eval(st.value, env)
    else:
      raise AnalysisError('default range: statement %s' %
                          type(st).__name__)
  return None


def _constants(fn):
  cs = set()
  for n in ast.walk(fn.node):
    if isinstance(n, ast.Constant) and isinstance(n.value, (int, float)) \
        and not isinstance(n.value, bool):
      cs.add(float(n.value))
  return sorted(cs)


def _default_range(prog, res):
  """I3: default_init_params is piecewise linear in each bound with break
  points at its own constants; one representative per region (below, at,
  between, above the constants) decides it exactly."""
  for q in ('lattice_lib.default_init_params',
            'kronecker_factored_lattice_lib.default_init_params'):
    fn = prog.function(q)
    res.analysed(fn)
    cs = _constants(fn) or [0.0]
    reps = []
    pts = sorted(set(cs))
    reps.append(pts[0] - 1.0)
    for i, c in enumerate(pts):
      reps.append(c)
      if i + 1 < len(pts):
        reps.append((c + pts[i + 1]) / 2.0)
    reps.append(pts[-1] + 1.0)
    bad = None
    n = 0
    lattice = q.startswith('lattice_lib')
    for lo in [None] + reps:
      for hi in [None] + reps:
        if lo is not None and hi is not None and not lo < hi:
          continue
        n += 1
        out = _exec(fn.node.body, {'output_min': lo, 'output_max': hi})
        if not (isinstance(out, tuple) and len(out) == 2):
          raise AnalysisError('%s does not return a pair' % q)
        imin, imax = out
        ok = imin < imax
        if lattice:
          # the lattice init range is used as the kernel range itself
          if lo is not None:
            ok = ok and imin >= lo
          if hi is not None:
            ok = ok and imax <= hi
        if not ok and bad is None:
          bad = (lo, hi, imin, imax)
    res.check(bad is None, 'I3', '%s|range' % q, fn.loc(),
              'init_min < init_max%s on all %d region representatives of '
              '(output_min, output_max)' % (
                  ' and the range lies inside the bounds' if lattice else '',
                  n),
              'for output_min=%s, output_max=%s the default initialisation '
              'range is [%s, %s]: %s' % (
                  bad[0], bad[1], bad[2], bad[3],
                  'degenerate - the initializers reject init_min >= init_max, '
                  'so the layer cannot be built' if bad and not bad[2] < bad[3]
                  else 'outside the bounds') if bad else '')


# ---------------------------------------------------------------------------
def _pwl_init_sizes(prog, res):
  """I4: the 'equal_slopes' initializer turns its keypoints into a tensor of
  shape [rows, 1] where rows is the number of kernel rows the layer asks
  for.  The layer allocates len(input_keypoints) - is_cyclic rows and hands
  all its keypoints to the initializer, so for each cyclic mode the number
  of keypoints that reaches tf.constant(..., shape=[rows, 1]) must equal
  rows (a slice keypoints[:rows] / [:-1] counts)."""
  build = prog.function('pwl_calibration_layer.PWLCalibration.build')
  init = prog.function('pwl_calibration_layer.PWLCalibration.__init__')
  lin = prog.function('pwl_calibration_lib.linear_initializer')
  res.analysed(build, init, lin)

  # rows(K, c) from build
  rows_expr = None
  for st in ast.walk(build.node):
    if isinstance(st, ast.Assign) and dotted(st.targets[0]) == 'num_weights':
      rows_expr = st.value
  if rows_expr is None:
    raise AnalysisError('PWLCalibration.build: num_weights vanished')

  def size(e, K, c, env):
    t = norm_text(e).replace(' ', '')
    if t in ('input_keypoints.size', 'len(input_keypoints)',
             'len(self.input_keypoints)', 'self.input_keypoints.size'):
      return K
    if t in ('self.is_cyclic', 'is_cyclic', 'int(self.is_cyclic)'):
      return c
    if isinstance(e, ast.Constant) and isinstance(e.value, int):
      return e.value
    if isinstance(e, ast.Name) and e.id in env:
      return env[e.id]
    if isinstance(e, ast.BinOp) and isinstance(e.op, (ast.Add, ast.Sub)):
      a, b = size(e.left, K, c, env), size(e.right, K, c, env)
      return a + b if isinstance(e.op, ast.Add) else a - b
    raise AnalysisError('I4: size expression `%s`' % t)

  def seq_len(e, K, c, env):
    """length of a keypoint sequence expression"""
    if isinstance(e, ast.Subscript) and isinstance(e.slice, ast.Slice):
      n = seq_len(e.value, K, c, env)
      lo = size(e.slice.lower, K, c, env) if e.slice.lower is not None else 0
      hi = size(e.slice.upper, K, c, env) if e.slice.upper is not None else n
      if e.slice.step is not None:
        raise AnalysisError('I4: strided keypoints')
      if lo < 0:
        lo += n
      if hi < 0:
        hi += n
      return max(0, min(hi, n) - max(lo, 0))
    if isinstance(e, ast.IfExp):
      t = norm_text(e.test).replace(' ', '')
      if t in ('self.is_cyclic', 'is_cyclic'):
        return seq_len(e.body if c else e.orelse, K, c, env)
      raise AnalysisError('I4: conditional keypoints on `%s`' % t)
    t = dotted(e)
    if t in ('self.input_keypoints', 'input_keypoints'):
      return K
    if t in env:
      return env[t]
    raise AnalysisError('I4: keypoints expression `%s`' % norm_text(e)[:40])

  # keypoints handed to the initializer (equal_slopes)
  kp_arg = None
  uo = prog.cls('pwl_calibration_layer.UniformOutputInitializer')
  for c_ in wiring.calls_to(prog, init, uo):
    kw = {k.arg: k.value for k in c_.keywords}
    if 'keypoints' in kw:
      kp_arg = kw['keypoints']
  if kp_arg is None:
    raise AnalysisError('PWLCalibration.__init__: equal_slopes initializer '
                        'without keypoints')
  # inside linear_initializer: tf.constant(<kp>, shape=[num_keypoints, 1])
  site = None
  for c_ in ast.walk(lin.node):
    if isinstance(c_, ast.Call) and prog.ext_name(
        lin.module, c_.func) == 'tf.constant' and c_.args and 'keypoints' in \
        {dotted(x) for x in ast.walk(c_.args[0])}:
      site = c_
  if site is None:
    raise AnalysisError('linear_initializer: keypoints tensor vanished')
  bad = None
  for c in (0, 1):
    K = 5
    rows = size(rows_expr, K, c, {})
    handed = seq_len(kp_arg, K, c, {})
    # local re-slicing of `keypoints` inside linear_initializer
    env = {'keypoints': handed, 'num_keypoints': rows}
    for st in lin.node.body:
      if isinstance(st, ast.Assign) and dotted(st.targets[0]) == 'keypoints':
        env['keypoints'] = seq_len(st.value, handed, c, env)
      if isinstance(st, ast.If):
        for s2 in st.body + st.orelse:
          if isinstance(s2, ast.Assign) and dotted(
              s2.targets[0]) == 'keypoints':
            env['keypoints'] = seq_len(s2.value, handed, c, env)
    got = seq_len(site.args[0], env['keypoints'], c, env)
    if got != rows and bad is None:
      bad = (c, got, rows)
  res.check(bad is None, 'I4', 'pwl_calibration_lib.linear_initializer|'
            'keypoints-vs-rows', lin.loc(site),
            'the keypoints turned into a [rows, 1] tensor number rows in both '
            'cyclic modes',
            'with is_cyclic=%s the equal_slopes initializer receives %s '
            'keypoints for a kernel of %s rows (of 5 input keypoints): '
            'tf.constant(keypoints, shape=[rows, 1]) raises in build()' % (
                bool(bad[0]), bad[1], bad[2]) if bad else '')


def _decreasing_mirror(prog, res):
  """I6: the decreasing initial function is the increasing one mirrored in y:
  it starts at the upper bound and every height is negated IN PLACE
  (heights = -heights).  Reversing, slicing or re-scaling the heights on the
  way changes which piece gets which slope: the curve stays monotone and
  inside the bounds (so the projection and the assertions are silent) but is
  no longer the straight line / equal-height staircase that was asked for."""
  lin = prog.function('pwl_calibration_lib.linear_initializer')
  res.analysed(lin)
  found = 0
  body = []
  first = None
  for st in ast.walk(lin.node):
    if isinstance(st, ast.If) and isinstance(st.test, ast.Compare) and \
        dotted(st.test.left) == 'monotonicity' and const_value(
            st.test.comparators[0], None) == -1 and isinstance(
                st.test.ops[0], ast.Eq):
      found += 1
      first = first or st
      body.extend(st.body)
  if found:
    # (the decreasing case may be spread over several `if monotonicity ==
    # -1` statements: their bodies are read together)
    class _B(object):
      pass
    st = _B()
    st.body = body
    if True:
      hs = [a for a in st.body if isinstance(a, (ast.Assign, ast.AugAssign))
            and 'heights' in (dotted(a.targets[0] if isinstance(
                a, ast.Assign) else a.target) or '')]
      if len(hs) != 1:
        raise AnalysisError('linear_initializer: the decreasing branch does '
                            'not update the heights exactly once')
      h = hs[0]
      tgt = dotted(h.targets[0] if isinstance(h, ast.Assign) else h.target)
      operand = None
      if isinstance(h, ast.AugAssign) and isinstance(h.op, ast.Mult) and \
          const_value(h.value, None) == -1:
        operand = h.target
      elif isinstance(h, ast.Assign) and isinstance(
          h.value, ast.UnaryOp) and isinstance(h.value.op, ast.USub):
        operand = h.value.operand
      elif isinstance(h, ast.Assign) and isinstance(h.value, ast.Call) and \
          (prog.ext_name(lin.module, h.value.func) or '') in (
              'tf.negative', 'tf.math.negative') and h.value.args:
        operand = h.value.args[0]
      elif isinstance(h, ast.Assign) and isinstance(
          h.value, ast.BinOp) and isinstance(h.value.op, ast.Mult) and -1 in (
              const_value(h.value.left, None), const_value(h.value.right,
                                                           None)):
        operand = h.value.right if const_value(
            h.value.left, None) == -1 else h.value.left
      if operand is None:
        raise AnalysisError('linear_initializer: the decreasing branch `%s` '
                            'is not a negation of the heights' %
                            norm_text(h)[:60])
      good = dotted(operand) == tgt
      bias = [a for a in st.body if isinstance(a, ast.Assign) and dotted(
          a.targets[0]) == 'bias']
      if len(bias) != 1:
        raise AnalysisError('linear_initializer: the start value (bias) of '
                            'the decreasing case was not found')
      good_b = dotted(bias[0].value) == 'output_max'
      res.check(good and good_b, 'I6',
                '%s|decreasing-mirror' % lin.qualname, lin.loc(first),
                'decreasing: bias = output_max, heights = -heights',
                'the decreasing branch is `%s`: it must start at output_max '
                'and negate the heights element-wise, nothing else' % (
                    '; '.join(norm_text(a)[:50] for a in st.body)))
  if not found:
    raise AnalysisError('linear_initializer: the monotonicity == -1 branch '
                        'was not found')


def _equal_slopes_sum(prog, res):
  """I5: the equal_slopes heights are lengths * (range / D).  They add up to
  the initialisation range - so that the last keypoint output is the upper
  initialisation bound - iff D is the sum of the SAME lengths: either
  tf.reduce_sum(lengths) or, by telescoping, K[-1] - K[0] of the very key-point
  sequence K the lengths are differences of.  Any other span (e.g. of the
  untruncated keypoint list of a cyclic calibrator) leaves the initial curve
  short of the bound."""
  lin = prog.function('pwl_calibration_lib.linear_initializer')
  res.analysed(lin)
  defs = {}
  for st in ast.walk(lin.node):
    if isinstance(st, ast.Assign) and isinstance(st.targets[0], ast.Name):
      defs.setdefault(st.targets[0].id, []).append(st.value)
  heights = [v for v in defs.get('heights_tensor', [])
             if isinstance(v, ast.BinOp) and isinstance(v.op, ast.Mult)
             and 'lengths_tensor' in {dotted(x) for x in ast.walk(v)}]
  if not heights:
    raise AnalysisError('linear_initializer: equal_slopes heights vanished')
  h = heights[0]
  scale = h.right if dotted(h.left) == 'lengths_tensor' else h.left
  if isinstance(scale, ast.Name) and len(defs.get(scale.id, [])) == 1:
    scale = defs[scale.id][0]
  if not (isinstance(scale, ast.BinOp) and isinstance(scale.op, ast.Div)):
    raise AnalysisError('linear_initializer: heights are not lengths * '
                        '(range / D): %s' % norm_text(h)[:60])
  D = scale.right

  def resolve(e):
    if isinstance(e, ast.Name) and len(defs.get(e.id, [])) == 1:
      return resolve(defs[e.id][0])
    return e
  D = resolve(D)
  while isinstance(D, ast.Call) and dotted(D.func) in ('float', 'int') and \
      len(D.args) == 1:
    D = D.args[0]
  lengths_def = defs.get('lengths_tensor', [None])[0]
  # K: the sequence the lengths are first differences of
  K = None
  if isinstance(lengths_def, ast.BinOp) and isinstance(lengths_def.op, ast.Sub) \
      and isinstance(lengths_def.left, ast.Subscript) and isinstance(
          lengths_def.right, ast.Subscript):
    K = dotted(lengths_def.left.value)
  ok = False
  why = norm_text(D)[:50]
  if isinstance(D, ast.Call) and (prog.ext_name(lin.module, D.func) or ''
                                  ).endswith('reduce_sum') and D.args and \
      dotted(D.args[0]) == 'lengths_tensor':
    ok = True
  elif isinstance(D, ast.BinOp) and isinstance(D.op, ast.Sub) and isinstance(
      D.left, ast.Subscript) and isinstance(D.right, ast.Subscript):
    a, b = D.left, D.right
    if dotted(a.value) == dotted(b.value) == K and K is not None and \
        const_value(a.slice, None) == -1 and const_value(b.slice, None) == 0:
      ok = True
    else:
      why += ' (a span of `%s`, but the lengths are differences of `%s`)' % (
          dotted(a.value), K)
  res.check(ok, 'I5', 'pwl_calibration_lib.linear_initializer|slopes-sum',
            lin.loc(h),
            'the equal_slopes heights are lengths * range / sum(lengths): '
            'they add up to the initialisation range',
            'the equal_slopes heights are lengths * range / `%s`, which is '
            'not the sum of those lengths: the initial keypoint outputs stop '
            'short of (or overshoot) the upper initialisation bound, e.g. for '
            'a cyclic calibrator whose last keypoint has no kernel row' % why)
