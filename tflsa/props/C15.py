"""C15 - conditional calibration and CDF functions (V4, I1, I2)."""
import ast
import itertools

from ..model import (AnalysisError, dotted, norm_text, names_read, const_value,
                     is_none)
from ..rules import lastdim
from ..rules.lastdim import Aff, T, Interp, UNKNOWN
from ..rules import intervals
from ..rules import numeric_opts

TECHNIQUE = ('symbolic last-dimension propagation over all discrete call forms '
             '(validator vs implementation), sign/interval/monotonicity '
             'abstract interpretation of the CDF code, structural pairing '
             'checks of the monotone PWL construction')
EXPLANATION = (
    'Static analysis of necessary conditions of C15, not of the numeric '
    'outputs: (V4) for every discrete call form of pwl_calibration_fn '
    '(interior keypoint parameters given or omitted x monotonicity x clamps x '
    'cyclic x missing modes) the parameter size the validator demands equals '
    'the size the implementation needs for weights * kernel_outputs to '
    'broadcast, and no documented form is rejected outright; (I1) abstract '
    'interpretation of CDF.call and cdf_fn over all activation x reduction x '
    'sparsity x scaling forms shows outputs within [0,1] (within [eps, 1+eps] '
    'for the geometric mean, eps the literal in the code) and non-decreasing '
    'in the inputs given a non-negative scaling; the learned CDF scaling '
    'carries NonNeg exactly when input_scaling_monotonicity; (I2) the '
    'increasing PWL form is built from softmax-positive key-point gaps and '
    'output increments scaled by (max - min), weights clipped to [0,1] with a '
    'leading 1, min added / padded at the front, the last increment dropped '
    'unless clamp_max. The range of the non-monotone sigmoid form and cyclic '
    'end-point equality are NOT decided.'
    ' The learned missing output (last parameter) is taken off before the cyclic closing column is appended (W4).')
ASSUMPTIONS = ['tf.nn.softmax outputs are positive and sum to 1; sigmoid in '
               '(0,1); relu6 in [0,6]; documented broadcasting rules',
               'keypoint_output_min <= keypoint_output_max and input_min < '
               'input_max as the validator checks']

M = 'conditional_pwl_calibration'


def run(prog, res):
  _v4(prog, res)
  _i1(prog, res)
  _i2(prog, res)
  _v8(prog, res)
  res.floor('V8', 2)
  _missing_before_cyclic(prog, res)
  res.floor('W4', 1)
  fns = []
  for m in ('conditional_pwl_calibration', 'conditional_cdf', 'cdf_layer'):
    fns += [f for f in prog.module(m).all_functions() if f.parent is None]
  numeric_opts.check(prog, res, fns)
  res.floor('N0', 10)
  res.floor('V4', 36)
  res.floor('I1', 20)
  res.floor('I2', 9)


# ---------------------------------------------------------------------------
def _configs():
  for kip, mono, cmin, cmax, cyc, mi, mo in itertools.product(
      ('given', None), ('none', 'increasing'), (False, True), (False, True),
      (False, True), (None, -1.0), (None, 0.5)):
    yield dict(kip=kip, monotonicity=mono, clamp_min=cmin, clamp_max=cmax,
               is_cyclic=cyc, missing_input_value=mi, missing_output_value=mo)


def _setup(prog, fn, cfg, P):
  c = {k: v for k, v in cfg.items() if k != 'kip'}
  c.update(units=2, keypoint_input_min=0.0, keypoint_input_max=1.0,
           keypoint_output_min=0.0, keypoint_output_max=1.0,
           return_derived_parameters=False)
  tens = {'inputs': T(Aff(0, {'in_cols': 1})),
          'keypoint_output_parameters': T(P)}
  if cfg['kip'] is None:
    c['keypoint_input_parameters'] = None
  else:
    tens['keypoint_input_parameters'] = T(Aff(0, {'n_in': 1}))
  return Interp(prog, fn, c, tens)


def _v4(prog, res):
  val = prog.function(M + '._verify_pwl_calibration')
  impl = prog.function(M + '.pwl_calibration_fn')
  res.analysed(val, impl)
  Psym = Aff(0, {'P': 1})
  n_valid = 0
  bad = {}
  for cfg in _configs():
    label = ','.join('%s=%s' % (k[:8], v) for k, v in sorted(cfg.items()))
    # --- validator: which size does it demand?
    it = _setup(prog, val, cfg, Psym)
    outs = it.run(val.node.body)
    demanded = None
    size_rejected = False
    cfg_rejected = True
    for o in outs:
      v = o.cfg.get('output_param_size', o.env.get('output_param_size'))
      if isinstance(v, (int, Aff)) and not isinstance(v, bool):
        demanded = lastdim.aff(v)
      if o.raised is None:
        cfg_rejected = False
      else:
        from ..cfg import structural_guards
        gs = structural_guards(val.node, o.raised) or []
        reads = set()
        for t, pol in gs[-1:]:
          reads |= names_read(t)
        if 'output_param_size' in reads:
          size_rejected = True
          cfg_rejected = False
        elif any(e[0] == 'symbolic-test' for e in o.events):
          cfg_rejected = False
    if cfg_rejected:
      continue      # rejected on configuration grounds alone (documented)
    if demanded is None:
      raise AnalysisError('validator: no size demand found for %s' % label)
    always_rejected = size_rejected and all(o.raised is not None
                                            for o in outs)
    n_valid += 1
    # --- implementation: which size does it need?
    im = _setup(prog, impl, cfg, Psym)
    body = [s for s in impl.node.body if not (
        isinstance(s, ast.Expr) and isinstance(s.value, ast.Call) and
        getattr(prog.resolve_call(impl, s.value), 'name', '') ==
        '_verify_pwl_calibration')]
    outs2 = im.run(body)
    needed = set()
    for o in outs2:
      mism = [e for e in o.events if e[0] == 'broadcast-mismatch']
      found = False
      for kind, node, (a, b) in mism:
        d = a - b
        if 'P' in d.t and abs(d.t['P']) == 1:
          # a - b = s*P + rest = 0  ->  P = -rest/s
          rest = d - Aff(0, {'P': d.t['P']})
          need = Aff(0) - rest if d.t['P'] == 1 else rest
          needed.add(need)
          found = True
      if not found:
        # no mismatch recorded: sizes agreed identically (P cancelled)?
        needed.add(None)
    needed.discard(None)
    key = '%s|%s' % (impl.qualname, label)
    if len(needed) != 1:
      raise AnalysisError('pwl_calibration_fn: could not derive the needed '
                          'parameter size for %s (%s)' % (label, needed))
    need = needed.pop()
    wrongly_rejected = always_rejected and need.is_const() and need.c > 0
    if need == demanded and not wrongly_rejected:
      res.ok('V4', key, val.loc(),
             'validator demands %s = implementation needs %s%s' % (
                 demanded, need, ' (trivial function: rejected)'
                 if always_rejected else ''))
    else:
      bad.setdefault(cfg['kip'], []).append((label, demanded, need,
                                             always_rejected))
  for kip, items in sorted(bad.items(), key=str):
    label, demanded, need, rej = items[0]
    res.violation(
        'V4', '%s|size-agreement|keypoint_input_parameters=%s' % (
            impl.qualname, kip), val.loc(),
        '%d call form(s) with keypoint_input_parameters %s: the validator %s '
        'but the implementation needs keypoint_output_parameters.shape[-1] == '
        '%s (first form: %s)%s' % (
            len(items), 'omitted (None)' if kip is None else 'given',
            'rejects every call (required size %s <= 0)' % demanded if rej
            else 'demands size %s' % demanded, need, label,
            ' - a documented call form is unusable' if rej else
            ' - accepted parameters do not broadcast'))
  res.extra['pwl_call_forms_valid'] = n_valid


# ---------------------------------------------------------------------------
def _i1(prog, res):
  intervals.check_cdf(prog, res)


# ---------------------------------------------------------------------------
class _Unrecognised(Exception):
  pass


def _i2(prog, res):
  """Structured matching: each construction step is parsed into its parts;
  a part with the wrong role / axis / constant is a violation, a step whose
  shape is not recognised at all is analysis-broken (exit 2), never a
  violation."""
  from ..rules import roles
  fn = prog.function(M + '.pwl_calibration_fn')
  cw = prog.function(M + '._compute_interpolation_weights')
  res.analysed(cw)
  defs = {}
  for st in ast.walk(fn.node):
    if isinstance(st, ast.Assign) and isinstance(st.targets[0], ast.Name):
      defs.setdefault(st.targets[0].id, []).append(st)

  def ext(c):
    return prog.ext_name(fn.module, c.func) if isinstance(c, ast.Call) else None

  def kwargs(c):
    return {k.arg: k.value for k in c.keywords}

  def range_factor(e, what):
    """(max - min) of `what` (input/output): returns list of problems"""
    if not (isinstance(e, ast.BinOp) and isinstance(e.op, ast.Sub)):
      raise _Unrecognised('range factor %s' % norm_text(e))
    l, r = dotted(e.left) or '', dotted(e.right) or ''
    probs = []
    if roles.role_of_name(l) != 'max' or roles.role_of_name(r) != 'min':
      probs.append('range factor is %s - %s, expected max - min' % (l, r))
    if what not in l or what not in r:
      probs.append('range factor %s - %s is not the %s range' % (l, r, what))
    return probs

  def softmax_times_range(e, what):
    if not (isinstance(e, ast.BinOp) and isinstance(e.op, ast.Mult)):
      raise _Unrecognised(norm_text(e)[:60])
    sm, rg = e.left, e.right
    if ext(sm) not in ('tf.nn.softmax', 'tf.math.softmax'):
      sm, rg = rg, sm
    if ext(sm) not in ('tf.nn.softmax', 'tf.math.softmax'):
      raise _Unrecognised(norm_text(e)[:60])
    probs = []
    ax = const_value(kwargs(sm).get('axis', sm.args[1] if len(sm.args) > 1
                                    else None), -1)
    if ax != -1:
      probs.append('softmax over axis %s instead of the key-point axis -1' %
                   ax)
    return probs + range_factor(rg, what)

  def single(name):
    d = defs.get(name, [])
    if not d:
      raise _Unrecognised('no definition of %s' % name)
    return d

  def report(key, ok_text, thunk):
    try:
      probs = thunk()
    except _Unrecognised as e:
      raise AnalysisError('pwl_calibration_fn: step %r has an unrecognised '
                          'shape (%s)' % (key, e))
    res.check(not probs, 'I2', 'pwl_calibration_fn|' + key, fn.loc(),
              ok_text, '; '.join(probs))

  report('positive-gaps',
         'key-point gaps = softmax(params, axis=-1) * (input_max - input_min)',
         lambda: softmax_times_range(single('keypoint_deltas')[0].value,
                                     'input'))

  def keypoints():
    e = single('keypoints')[0].value
    if not (isinstance(e, ast.BinOp) and isinstance(e.op, ast.Add)):
      raise _Unrecognised(norm_text(e)[:60])
    cs, off = (e.left, e.right) if ext(e.left) == 'tf.cumsum' else (e.right,
                                                                    e.left)
    if ext(cs) != 'tf.cumsum':
      raise _Unrecognised(norm_text(e)[:60])
    kw = kwargs(cs)
    probs = []
    if const_value(kw.get('exclusive'), False) is not True:
      probs.append('cumsum is not exclusive: the first keypoint is not '
                   'keypoint_input_min')
    if const_value(kw.get('axis'), 0) != -1:
      probs.append('cumsum over axis %s instead of -1' % const_value(
          kw.get('axis'), 0))
    if dotted(cs.args[0]) != 'keypoint_deltas':
      probs.append('cumsum of %s instead of the gaps' % norm_text(cs.args[0]))
    if roles.role_of_name(dotted(off)) != 'min' or 'input' not in (
        dotted(off) or ''):
      probs.append('offset %s is not keypoint_input_min' % norm_text(off))
    return probs
  report('keypoints', 'keypoints = exclusive cumsum(gaps) + input_min',
         keypoints)

  def weights():
    probs = []
    clip = pad = num = None
    for st in ast.walk(cw.node):
      if isinstance(st, ast.Call):
        e = prog.ext_name(cw.module, st.func)
        if e == 'tf.clip_by_value':
          clip = st
        if getattr(prog.resolve_call(cw, st), 'name', '') == '_front_pad':
          pad = st
      if isinstance(st, ast.BinOp) and isinstance(st.op, ast.Div):
        num = st
    for st in ast.walk(cw.node):
      if isinstance(st, ast.Call) and (prog.ext_name(cw.module, st.func) or
                                       '').endswith('divide_no_nan'):
        probs.append('weights use divide_no_nan: a key-point gap that '
                     'underflows to 0 then gets weight 0 for EVERY input '
                     '(instead of 1 to its right), so its increment is lost: '
                     'clamped end values and cyclic equality break')
        return probs
    if num is None:
      raise _Unrecognised('(inputs - keypoints) / lengths not found')
    if clip is None:
      probs.append('interpolation weights are not clipped to [0, 1]: outputs '
                   'extrapolate beyond the end keypoints and leave '
                   '[output_min, output_max]')
    if pad is None:
      probs.append('no leading weight 1.0 for the first output')
    if clip is None or pad is None:
      return probs
    lohi = [const_value(a) for a in clip.args[1:3]] or [
        const_value(kwargs(clip).get('clip_value_min')),
        const_value(kwargs(clip).get('clip_value_max'))]
    if lohi != [0.0, 1.0]:
      probs.append('weights are clipped to %s instead of [0, 1]' % lohi)
    if const_value(pad.args[1] if len(pad.args) > 1 else kwargs(pad).get(
        'constant_values')) != 1.0:
      probs.append('the bias weight is not the constant 1.0')
    n = num.left
    if not (isinstance(n, ast.BinOp) and isinstance(n.op, ast.Sub)
            and dotted(n.left) == 'inputs' and dotted(n.right) == 'keypoints'
            and dotted(num.right) == 'lengths'):
      probs.append('weights are %s, expected (inputs - keypoints) / lengths' %
                   norm_text(num))
    return probs
  report('weights', 'weights = front_pad(clip((x - keypoint)/length, 0, 1), 1)',
         weights)

  def weights_args():
    wcall = [c for c in ast.walk(fn.node) if isinstance(c, ast.Call)
             and prog.resolve_call(fn, c) is cw]
    if len(wcall) != 1:
      raise _Unrecognised('call of _compute_interpolation_weights')
    got = [dotted(a) for a in wcall[0].args[1:]]
    return [] if got == ['keypoints', 'keypoint_deltas'] else [
        'interpolation weights are computed against %s, expected (keypoints, '
        'keypoint_deltas)' % got]
  report('weights-args', 'weights computed against (keypoints, gaps)',
         weights_args)

  inc = None
  for st in fn.node.body:
    if isinstance(st, ast.If) and 'monotonicity' in names_read(st.test):
      inc = st.orelse
  if not inc:
    raise AnalysisError('pwl_calibration_fn: monotonicity branch not found')

  def increments():
    probs = []
    assigns = [s for s in inc if isinstance(s, ast.Assign)]
    if len(assigns) < 2:
      raise _Unrecognised('increasing branch')
    a0 = assigns[0].value
    if getattr(prog.resolve_call(fn, a0), 'name', '') != '_front_pad' if \
        isinstance(a0, ast.Call) else True:
      raise _Unrecognised(norm_text(a0)[:50])
    if const_value(a0.args[1]) != 0.0:
      probs.append('logits are padded with %s instead of 0.0' %
                   norm_text(a0.args[1]))
    return probs + softmax_times_range(assigns[1].value, 'output')
  report('increments',
         'increments = softmax([0, params], axis=-1) * (output_max - '
         'output_min)', increments)

  def clamp_min():
    cm = [s for s in inc if isinstance(s, ast.If) and dotted(s.test) ==
          'clamp_min']
    if not cm or not cm[0].orelse:
      raise _Unrecognised('clamp_min branch')
    probs = []
    b = cm[0].body[0].value
    if not (isinstance(b, ast.Call) and getattr(prog.resolve_call(fn, b),
                                                'name', '') == '_front_pad'):
      raise _Unrecognised(norm_text(b)[:50])
    v = dotted(b.args[1])
    if roles.role_of_name(v) != 'min' or 'output' not in (v or ''):
      probs.append('clamp_min pads %s at the front, expected '
                   'keypoint_output_min' % norm_text(b.args[1]))
    e = cm[0].orelse[0].value
    if ext(e) != 'tf.concat' or not isinstance(e.args[0], ast.List) or len(
        e.args[0].elts) != 2:
      raise _Unrecognised(norm_text(e)[:50])
    first, rest = e.args[0].elts
    if not (isinstance(first, ast.BinOp) and isinstance(first.op, ast.Add)):
      raise _Unrecognised(norm_text(first)[:50])
    addend = first.right if isinstance(first.left, ast.Subscript) else \
        first.left
    if roles.role_of_name(dotted(addend)) != 'min' or 'output' not in (
        dotted(addend) or ''):
      probs.append('without clamp_min %s is added to the first increment, '
                   'expected keypoint_output_min' % norm_text(addend))
    sl = first.left if isinstance(first.left, ast.Subscript) else first.right
    t1 = norm_text(sl.slice).replace(' ', '')
    t2 = norm_text(rest.slice).replace(' ', '') if isinstance(
        rest, ast.Subscript) else '?'
    t1, t2 = t1.strip('()'), t2.strip('()')
    if not t1.endswith(':1') or not t2.endswith('1:'):
      probs.append('the first increment / the rest are sliced as [%s] / [%s], '
                   'expected [..., :1] / [..., 1:]' % (t1, t2))
    return probs
  report('clamp_min', 'first output is min (padded or added)', clamp_min)

  def clamp_max():
    cx = [s for s in inc if isinstance(s, ast.If) and 'clamp_max' in
          names_read(s.test)]
    if not cx:
      raise _Unrecognised('clamp_max branch')
    t = cx[0].test
    neg = isinstance(t, ast.UnaryOp) and isinstance(t.op, ast.Not)
    body = cx[0].body if neg else cx[0].orelse
    other = cx[0].orelse if neg else cx[0].body
    probs = []
    drops = [s for s in body if isinstance(s, ast.Assign) and isinstance(
        s.value, ast.Subscript)]
    if not drops:
      probs.append('without clamp_max the last increment is not dropped: the '
                   'last output would be forced to max')
    else:
      sl = norm_text(drops[0].value.slice).replace(' ', '').strip('()')
      if not sl.endswith(':-1'):
        probs.append('without clamp_max increments are sliced [%s], expected '
                     '[..., :-1]' % sl)
    if any(isinstance(s, ast.Assign) and isinstance(s.value, ast.Subscript)
           for s in other):
      probs.append('with clamp_max an increment is dropped: the last output '
                   'no longer reaches max')
    return probs
  report('clamp_max', 'last increment kept exactly when clamp_max', clamp_max)

  def combination():
    outs = single('outputs')
    e = outs[0].value
    if ext(e) != 'tf.reduce_sum':
      raise _Unrecognised(norm_text(e)[:50])
    probs = []
    if const_value(kwargs(e).get('axis', e.args[1] if len(e.args) > 1 else
                                 None), 'x') != -1:
      probs.append('outputs are summed over axis %s instead of the key-point '
                   'axis -1' % norm_text(kwargs(e).get('axis')))
    prod = e.args[0]
    if not (isinstance(prod, ast.BinOp) and isinstance(prod.op, ast.Mult) and
            {dotted(prod.left), dotted(prod.right)} == {'weights',
                                                        'kernel_outputs'}):
      probs.append('outputs are %s, expected weights * kernel_outputs' %
                   norm_text(prod)[:50])
    return probs
  report('combination', 'output = sum(weights * increments) over key points',
         combination)

  def missing():
    probs = []
    wh = [s.value for s in defs.get('outputs', []) if ext(s.value) ==
          'tf.where']
    if not wh:
      probs.append('missing inputs are no longer replaced (tf.where)')
    else:
      w = wh[0]
      cond = w.args[0]
      if not (ext(cond) == 'tf.equal' and {dotted(a) for a in cond.args} ==
              {'inputs', 'missing_input_value'}):
        probs.append('missing test is %s' % norm_text(cond))
      if [dotted(a) for a in w.args[1:3]] != ['missing_output', 'outputs']:
        probs.append('tf.where branches are %s, expected (missing_output, '
                     'outputs)' % [norm_text(a) for a in w.args[1:3]])
    mo = defs.get('missing_output', [])
    learned = [s.value for s in mo if isinstance(s.value, ast.BinOp)]
    if not learned:
      raise _Unrecognised('learned missing output')
    e = learned[0]
    # semantic: the expression is an affine image a + b * S of a sigmoid S
    # (polynomial over the symbols m = output min, M = output max, S) and must
    # send S = 0 to m and S = 1 to M
    from .C14 import Poly

    def poly(x):
      d = dotted(x)
      if d is not None:
        r = roles.role_of_name(d)
        if r in ('min', 'max') and 'output' in d:
          return Poly.sym('m' if r == 'min' else 'M')
        if r in ('min', 'max'):
          return Poly.sym(d)       # a bound of something else: its own symbol
        raise _Unrecognised('name %s in the learned missing output' % d)
      if isinstance(x, ast.Call) and ext(x) in ('tf.sigmoid', 'tf.math.sigmoid',
                                                 'tf.nn.sigmoid'):
        return Poly.sym('S')
      if isinstance(x, ast.Constant) and isinstance(x.value, (int, float)):
        from fractions import Fraction
        return Poly.const(Fraction(x.value).limit_denominator(10 ** 9))
      if isinstance(x, ast.BinOp):
        a, b = poly(x.left), poly(x.right)
        if isinstance(x.op, ast.Add):
          return a + b
        if isinstance(x.op, ast.Sub):
          return a - b
        if isinstance(x.op, ast.Mult):
          return a * b
      if isinstance(x, ast.UnaryOp) and isinstance(x.op, ast.USub):
        return -poly(x.operand)
      raise _Unrecognised(norm_text(x)[:50])

    P = poly(e)

    def at(P, s_val):
      out = Poly()
      for mono, c in P.t.items():
        d = dict(mono)
        k = d.pop('S', 0)
        if k and s_val == 0:
          continue
        out = out + Poly({tuple(sorted(d.items())): c})
      return out
    if 'S' not in {n for mono in P.t for n, _ in mono}:
      probs.append('learned missing output is not squashed by a sigmoid')
    lo, hi = at(P, 0), at(P, 1)
    if not (lo == Poly.sym('m')):
      probs.append('with the sigmoid at 0 the learned missing output is %s, '
                   'not keypoint_output_min (m)' % lo)
    if not (hi == Poly.sym('M')):
      probs.append('with the sigmoid at 1 the learned missing output is %s, '
                   'not keypoint_output_max (M)' % hi)
    return probs
  report('missing', 'missing inputs -> missing output in [min, max]', missing)


# ---------------------------------------------------------------------------
def _missing_before_cyclic(prog, res):
  """W4: the learned missing output is the LAST parameter and is taken off
  before the cyclic closing column (a copy of the first keypoint output) is
  appended; appended first, the copy would be taken for the missing output
  and the real last parameter would become a keypoint.  Sizes agree in both
  orders, so V4 cannot see it: the order is decided on the CFG."""
  from ..cfg import CFG
  fn = prog.function(M + '.pwl_calibration_fn')
  cfg = CFG(fn.node)
  strip = closing = None
  for st in ast.walk(fn.node):
    if not (isinstance(st, ast.Assign) and len(st.targets) == 1):
      continue
    t = dotted(st.targets[0])
    v = st.value
    # x = x[:, :, :-1]
    if isinstance(v, ast.Subscript) and dotted(v.value) == t and isinstance(
        v.slice, ast.Tuple) and v.slice.elts and isinstance(
            v.slice.elts[-1], ast.Slice) and const_value(
                v.slice.elts[-1].upper, None) == -1 and v.slice.elts[
                    -1].lower is None:
      from ..cfg import structural_guards
      gs = {norm_text(g) for g, p in (structural_guards(fn.node, st) or [])}
      if any('missing_output_value' in g for g in gs):
        strip = st
    # x = tf.concat([x, x[:, :, :1]], axis=-1)
    if isinstance(v, ast.Call) and (prog.ext_name(fn.module, v.func) or
                                    '') == 'tf.concat' and v.args and \
        isinstance(v.args[0], ast.List) and len(v.args[0].elts) == 2 and \
        dotted(v.args[0].elts[0]) == t and isinstance(
            v.args[0].elts[1], ast.Subscript) and dotted(
                v.args[0].elts[1].value) == t:
      sl = v.args[0].elts[1].slice
      if isinstance(sl, ast.Tuple) and isinstance(
          sl.elts[-1], ast.Slice) and const_value(
              sl.elts[-1].upper, None) == 1:
        closing = st
  if strip is None or closing is None:
    raise AnalysisError('pwl_calibration_fn: the missing-output strip / the '
                        'cyclic closing column was not found')
  a, b = cfg.node_of(strip), cfg.node_of(closing)
  res.check(a not in cfg.reachable_from(b), 'W4',
            '%s|missing-before-cyclic' % fn.qualname, fn.loc(closing),
            'the missing output (last parameter) is taken off before the '
            'cyclic closing column is appended',
            'the cyclic closing column is appended before the learned missing '
            'output is taken off: the copy of the first keypoint output is '
            'used as the missing output and the last parameter becomes a '
            'keypoint (the function is no longer cyclic)')


# ---------------------------------------------------------------------------
def _v8(prog, res):
  """V8 - validator / implementation agreement on the broadcast forms of the
  parameter tensors (Engler's contradicting beliefs).  pwl_calibration_fn
  normalises a rank-2 parameter tensor to rank 3 and tiles a unit axis of
  size 1 when units > 1; a tile branch that no tensor accepted by
  _verify_pwl_calibration can reach means one of the two is wrong (the
  docstring lists `(1 or batch_size, 1 or units, size)`).  States: units in
  {1, 3} x rank in {2, 3} x unit axis in {1, units, other}; the validator's
  rank / unit-axis tests and the implementation's branch tests are evaluated
  concretely on each state."""
  import ast as _ast
  val = prog.function('conditional_pwl_calibration._verify_pwl_calibration')
  fn = prog.function('conditional_pwl_calibration.pwl_calibration_fn')
  res.analysed(val, fn)
  for pname, local in (('keypoint_output_parameters', 'kernel_outputs'),
                       ('keypoint_input_parameters',
                        'keypoint_input_parameters')):
    # validator tests that read only the rank / unit axis of pname and units
    vtests = []
    for st in val.node.body:
      if isinstance(st, _ast.If) and any(isinstance(x, _ast.Raise)
                                         for x in st.body):
        reads = names_read(st.test)
        if pname in {r.split('.')[0] for r in reads} and {
            r for r in reads if not r.startswith(pname)} <= {'units', 'len'}:
          txt = norm_text(st.test)
          if 'shape[-1]' in txt or 'None' in txt:
            continue
          vtests.append(st.test)
    # implementation: tile branches on the local name
    tiles = []
    for st in _ast.walk(fn.node):
      if isinstance(st, _ast.If) and any(
          isinstance(c, _ast.Call) and prog.ext_name(fn.module, c.func) ==
          'tf.tile' for x in st.body for c in _ast.walk(x)):
        if local in {r.split('.')[0] for r in names_read(st.test)}:
          tiles.append(st)
    if not tiles:
      raise AnalysisError('pwl_calibration_fn: no tile branch for %s' % local)

    def ev(e, st_):
      if isinstance(e, _ast.BoolOp):
        vs = [ev(v, st_) for v in e.values]
        return all(vs) if isinstance(e.op, _ast.And) else any(vs)
      if isinstance(e, _ast.UnaryOp) and isinstance(e.op, _ast.Not):
        return not ev(e.operand, st_)
      if isinstance(e, _ast.Compare) and len(e.ops) == 1:
        a, b = ev(e.left, st_), ev(e.comparators[0], st_)
        op = e.ops[0]
        if isinstance(op, (_ast.In, _ast.NotIn)):
          hit = a in b
          return hit if isinstance(op, _ast.In) else not hit
        return {_ast.Eq: a == b, _ast.NotEq: a != b, _ast.Gt: a > b,
                _ast.Lt: a < b, _ast.GtE: a >= b, _ast.LtE: a <= b}[type(op)]
      if isinstance(e, _ast.Constant):
        return e.value
      if isinstance(e, (_ast.Tuple, _ast.List)):
        return tuple(ev(x, st_) for x in e.elts)
      t = norm_text(e).replace(' ', '')
      if t == 'units':
        return st_['units']
      if t in ('len(%s.shape)' % pname, 'len(%s.shape)' % local):
        return st_['rank']
      if t in ('%s.shape[1]' % pname, '%s.shape[1]' % local):
        if st_['rank'] == 2:
          raise AnalysisError('unit axis of a rank-2 tensor read')
        return st_['axis']
      raise AnalysisError('V8: cannot evaluate `%s`' % t)

    reach = {id(t): [] for t in tiles}
    n_acc = 0
    for units in (1, 3):
      for rank in (2, 3):
        for axis in ((None,) if rank == 2 else (1, units, 5)):
          st_ = {'units': units, 'rank': rank, 'axis': axis}
          try:
            rejected = any(ev(t, st_) for t in vtests)
          except AnalysisError:
            rejected = False
          if rejected:
            continue
          n_acc += 1
          # normalisation rank 2 -> (batch, 1, size)
          st2 = dict(st_)
          if rank == 2:
            st2.update(rank=3, axis=1)
          for t in tiles:
            if ev(t.test, st2):
              reach[id(t)].append(st_)
    for t in tiles:
      three = [s for s in reach[id(t)] if s['rank'] == 3]
      key = 'pwl_calibration_fn|%s|tile-reachable' % pname
      # rank-3 tensors with a unit axis of 1 are the documented broadcast form
      rank2 = [s for s in reach[id(t)] if s['rank'] == 2]
      res.check(bool(three) or (bool(rank2) and not
                                _units_gt1_rank2_rejected(vtests, ev, pname)),
                'V8', key, fn.loc(t),
                'the tile branch is reached by an accepted rank-3 tensor with '
                'unit axis 1 (%d accepted states)' % n_acc,
                'no rank-3 `%s` accepted by _verify_pwl_calibration reaches '
                'the tile branch `%s`: the validator rejects the documented '
                '(1 or batch_size, 1, size) form for units > 1 that the '
                'implementation tiles' % (pname, norm_text(t.test)[:50]))


def _units_gt1_rank2_rejected(vtests, ev, pname):
  """True when rank-2 tensors are rejected for units > 1 (then only a rank-3
  tensor can reach the tile branch)."""
  try:
    return any(ev(t, {'units': 3, 'rank': 2, 'axis': None}) for t in vtests)
  except AnalysisError:
    return False
