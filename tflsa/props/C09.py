"""C09 - units and examples never interact (X1, X2)."""
import ast

from ..model import (AnalysisError, FunctionInfo, conditional_def, dotted, norm_text,
                     names_read, const_value, is_none, call_args)
from ..rules import axes

TECHNIQUE = ('forward taint analysis of the batch axis through every '
             'evaluation path with an axis/reshape/matmul policy per op; '
             'kernel-layout tables and axis-idiom resolution for the units axis '
             'of every projection')
EXPLANATION = (
    'Static analysis of a necessary-and-nearly-sufficient condition of C09: an '
    'op that is elementwise or reduces / scans / sorts only non-unit, '
    'non-batch axes cannot make unit u (row i) depend on another one. (X2) in '
    'every evaluation path (all layer call methods, both lattice '
    'interpolations, KFL, CDF, the functional cdf_fn / pwl_calibration_fn, '
    'Aggregation, ParallelCombination, RTL) every reduce / cumsum / sort / '
    'softmax / norm on a tensor derived from the inputs names a literal axis '
    'other than 0, every reshape of such a tensor keeps a leading -1, every '
    'matmul has the batched operand on the left, concats are not along axis '
    '0. (X1) in the six projection libraries every reduction / scan over a '
    'tensor derived from the kernel avoids the units axis of the documented '
    'layout: axis 0 only for (rows, units) kernels, the "all axes but the '
    'last when units > 1" idiom for reshaped lattice kernels, axes 1 and 3 of '
    'the (1, lattice, units, dims, terms) KFL layout; the trailing units '
    'dimension is appended together with a 0 monotonicity / unimodality.'
    ' The two CDF siblings agree on the sparsity reshape target and guard (Y1): a wrong middle dimension would be absorbed by the leading -1 and re-cut the batch axis.')
ASSUMPTIONS = ['TF ops have their documented axis semantics and defaults',
               'kernel layouts are the documented ones: (K, U) for PWL / '
               'linear / categorical, lattice_sizes (+ [units]) after the '
               'reshape, (1, L, U*D, T) for KFL']

ENTRIES = [
    ('lattice_layer.Lattice.call', ['inputs']),
    ('lattice_lib.evaluate_with_hypercube_interpolation', ['inputs']),
    ('lattice_lib.evaluate_with_simplex_interpolation', ['inputs']),
    ('lattice_lib.compute_interpolation_weights', ['inputs']),
    ('lattice_lib.batch_outer_operation', ['list_of_tensors']),
    ('pwl_calibration_layer.PWLCalibration.call', ['inputs']),
    ('pwl_calibration_lib.compute_interpolation_weights', ['inputs']),
    ('categorical_calibration_layer.CategoricalCalibration.call', ['inputs']),
    ('linear_layer.Linear.call', ['inputs']),
    ('kronecker_factored_lattice_layer.KroneckerFactoredLattice.call',
     ['inputs']),
    ('kronecker_factored_lattice_lib.evaluate_with_hypercube_interpolation',
     ['inputs']),
    ('cdf_layer.CDF.call', ['inputs']),
    ('conditional_cdf.cdf_fn', ['inputs']),
    ('conditional_pwl_calibration.pwl_calibration_fn', ['inputs']),
    ('parallel_combination_layer.ParallelCombination.call', ['inputs']),
    ('aggregation_layer.Aggregation.call', ['x']),
    ('rtl_layer.RTL.call', ['x']),
]

X2_ALLOW = {
    ('aggregation_layer.Aggregation.call', 'reduce_mean'):
        'ragged (batch, elements, 1): axis 1 is the per-example element axis',
}

KU_LIBS = {
    'pwl_calibration_lib': ['_approximately_project_bounds_only',
                            '_project_bounds_considering_monotonicity',
                            '_project_convexity', '_project_monotonicity',
                            'project_all_constraints', '_squeeze_by_scaling',
                            '_approximately_project_convexity',
                            '_finalize_constraints'],
    'linear_lib': ['project'],
    'categorical_calibration_lib': ['project'],
    'internal_utils': ['approximately_project_categorical_partial_'
                       'monotonicities', '_min_projection', '_max_projection'],
}
KU_PARAMS = ('weights', 'heights', 'bias')

LATTICE_FUNCS = ['_approximately_project_monotonicity',
                 '_approximately_project_edgeworth',
                 '_approximately_project_trapezoid',
                 '_trapezoid_violation_update',
                 '_approximately_project_bounds',
                 '_project_partial_monotonicity', '_project_partial_edgeworth',
                 '_project_partial_trapezoid',
                 '_project_partial_monotonic_dominance',
                 '_project_partial_range_dominance',
                 '_project_partial_joint_monotonicity',
                 '_project_partial_joint_unimodality',
                 '_project_onto_hyperplane']
KFL_FUNCS = {
    '_approximately_project_monotonicity': {'unstack': (3, 1),
                                            'stack': (3, 1)},
    '_approximately_project_bounds': {'reduce_max': (1,), 'reduce_prod': (3,)},
    'finalize_weight_constraints': {},
}


def run(prog, res):
  n, bt = axes.check_batch_independence(prog, res, ENTRIES, allow=X2_ALLOW)
  res.floor('X2', 45)
  # a reshape that regroups (input, unit) pairs with a leading -1 silently
  # re-cuts the batch axis: the two CDF siblings must agree on its target
  from . import C14
  C14._cdf_pair(prog, res)
  res.floor('Y1', 7)
  _x1_ku(prog, res)
  _x1_lattice(prog, res)
  _x1_kfl(prog, res)
  res.floor('X1', 40)


# ---------------------------------------------------------------------------
def _sites(prog, fn, params):
  bt = axes.BatchTaint(prog)
  # no inter-procedural propagation here: every function is listed
  bt.prog = prog
  tp = {p for p in params if p in fn.all_params}
  if not tp:
    return []
  # analyse only this function: temporarily mark everything else done
  bt._done = set()
  orig = bt.analyse

  def only_this(f, t, chain=()):
    if f is fn:
      orig(f, t, chain)
  bt.analyse = only_this
  orig(fn, tp)
  return bt.sites


def _x1_ku(prog, res):
  """(rows, units) kernels: reductions / scans over axis 0 only."""
  for mod, names in sorted(KU_LIBS.items()):
    for name in names:
      fn = prog.function('%s.%s' % (mod, name))
      res.analysed(fn)
      inner = [f for f in prog.module(mod).all_functions()
               if f.parent is fn] if name == 'project_all_constraints' else []
      for f in [fn] + inner:
        for s in _sites(prog, f, KU_PARAMS):
          key = '%s|%s(%s)' % (f.qualname, s.op, norm_text(s.operand)[:30])
          loc = f.loc(s.node)
          if s.kind == 'reduce':
            ax = s.axis
            if ax == 'omitted' and s.op in ('cumsum', 'unstack'):
              ax = 0
            res.check(ax == 0, 'X1', key, loc,
                      '%s over axis 0 (rows), one result per unit' % s.op,
                      '%s over %s of a (rows, units) kernel mixes units: the '
                      'projection of one unit depends on the others' % (
                          s.op, 'all axes' if ax in ('omitted', 'none')
                          else 'axis %s' % (ax,)))
          elif s.kind == 'concat':
            ax = s.axis
            if ax == 'omitted' and s.op == 'stack':
              ax = 0     # tf.stack default: rows back along axis 0
            if ax == 0:
              res.ok('X1', key, loc, 'rows concatenated along axis 0')
            else:
              # row-interleave idiom: reshape(concat([a, b], axis=1),
              # [-1, <x>.shape[1]])
              ok = _interleave(prog, f, s.node)
              res.check(ok, 'X1', key, loc,
                        'row interleave: concat(axis=1) reshaped to (-1, '
                        'units)',
                        'concat of kernel pieces along axis %s (the units '
                        'axis) outside the row-interleave idiom' % (ax,))
          elif s.kind == 'reshape':
            shp = s.axis
            last = shp.elts[-1] if isinstance(shp, (ast.List, ast.Tuple)) \
                else None
            ok = last is not None and norm_text(last).endswith('.shape[1]')
            res.check(ok, 'X1', key, loc,
                      'reshape keeps the units axis (last dim = <kernel>'
                      '.shape[1])',
                      'reshape of a (rows, units) kernel to %s does not keep '
                      'the units axis as the last dimension' % (
                          norm_text(shp)[:40] if shp is not None else '?'))
          elif s.kind == 'matmul':
            res.violation('X1', key, loc, 'matmul on a kernel inside a '
                          'projection mixes its columns')
          elif s.kind == 'transpose':
            res.violation('X1', key, loc, 'transpose of the kernel inside a '
                          'projection')
          elif s.kind == 'index':
            raise AnalysisError('%s: %s on a kernel is not modelled' % (
                loc, s.op))


def _interleave(prog, fn, concat_call):
  from ..cfg import _path_to
  path = _path_to(fn.node, concat_call) or []
  for parent, field, idx, child in reversed(path):
    if isinstance(parent, ast.Call) and prog.ext_name(
        fn.module, parent.func) == 'tf.reshape':
      kw = {k.arg: k.value for k in parent.keywords}
      shp = kw.get('shape', parent.args[1] if len(parent.args) > 1 else None)
      if isinstance(shp, (ast.List, ast.Tuple)) and len(shp.elts) == 2 and \
          const_value(shp.elts[0]) == -1 and norm_text(
              shp.elts[1]).endswith('.shape[1]'):
        return True
  return False


# ---------------------------------------------------------------------------
def _axis_idiom(fn, name='axis'):
  """Resolves `axis = tf.constant(list(range(E))) if units > 1 else None`
  with E = len(T.shape) - 1 (possibly via a local dims): returns the number
  of trailing axes that are NOT reduced, or None when unrecognised."""
  cd = conditional_def(fn.node, name)
  if cd is None:
    return None
  t, body, orelse = cd
  if not (isinstance(t, ast.Compare) and dotted(t.left) == 'units'
          and isinstance(t.ops[0], ast.Gt) and const_value(
              t.comparators[0]) == 1 and is_none(orelse)):
    return None
  if not (isinstance(body, ast.Call) and (dotted(body.func) or '').endswith(
      'constant') and body.args):
    return None
  rng = body.args[0]
  if not (isinstance(rng, ast.Call) and dotted(rng.func) == 'list'
          and isinstance(rng.args[0], ast.Call) and dotted(
              rng.args[0].func) == 'range' and len(rng.args[0].args) == 1):
    return None
  e = rng.args[0].args[0]

  def rank_minus(expr, depth=0):
    """expr == len(<T>.shape) - c  -> c"""
    if isinstance(expr, ast.Call) and dotted(expr.func) == 'len' and \
        norm_text(expr.args[0]).endswith('.shape'):
      return 0
    if isinstance(expr, ast.BinOp) and isinstance(expr.op, ast.Sub):
      c = const_value(expr.right)
      inner = rank_minus(expr.left, depth)
      if isinstance(c, int) and inner is not None:
        return inner + c
    if isinstance(expr, ast.Name) and depth < 3:
      for st in ast.walk(fn.node):
        if isinstance(st, ast.Assign) and dotted(st.targets[0]) == expr.id:
          return rank_minus(st.value, depth + 1)
    return None
  return rank_minus(e)


def _x1_lattice(prog, res):
  mod = prog.module('lattice_lib')
  for name in LATTICE_FUNCS:
    fn = prog.function('lattice_lib.' + name)
    res.analysed(fn)
    stack_last = any(
        isinstance(c, ast.Call) and prog.ext_name(mod, c.func) == 'tf.stack'
        and const_value({k.arg: k.value for k in c.keywords}.get('axis')) == -1
        for c in ast.walk(fn.node))
    for s in _sites(prog, fn, ('weights', 'differences')):
      key = '%s|%s(%s)' % (fn.qualname, s.op, norm_text(s.operand)[:30])
      loc = fn.loc(s.node)
      if s.kind == 'reduce' and s.op in axes.REDUCERS:
        ax = s.axis
        if isinstance(ax, str) and ax.startswith('expr:'):
          keep = _axis_idiom(fn, ax[5:])
          res.check(keep == 1, 'X1', key, loc,
                    'reduces all axes but the last when units > 1, all axes '
                    'when units == 1',
                    '%s reduces over `%s`, which is not the "all axes but the '
                    'trailing units axis when units > 1" idiom (trailing '
                    'axes kept: %s): the largest violation of one unit moves '
                    'every unit' % (s.op, ax[5:], keep))
        elif ax == -1 and stack_last:
          res.ok('X1', key, loc, 'reduces the axis introduced by '
                 'tf.stack(..., axis=-1) in this function')
        else:
          res.violation('X1', key, loc,
                        '%s over %s of a reshaped lattice kernel: with units '
                        '> 1 the trailing units axis is reduced' % (
                            s.op, 'all axes' if ax in ('omitted', 'none')
                            else 'axis %s' % (ax,)))
      elif s.kind == 'reduce' and s.op == 'unstack':
        ax = s.axis
        good = isinstance(ax, str) and ax.startswith('expr:')
        # the unstack axis is a configured lattice dimension
        res.check(good or ax == -1 and stack_last, 'X1', key, loc,
                  'unstack along a configured lattice dimension (%s)' % (ax,),
                  'unstack along the literal axis %s of a reshaped lattice '
                  'kernel' % (ax,))
      elif s.kind in ('reshape', 'matmul', 'transpose', 'index'):
        raise AnalysisError('%s: %s of the kernel inside a lattice projection '
                            'is not modelled' % (loc, s.op))
  # the trailing units dimension is never treated as monotone / unimodal
  for q in ('lattice_lib.finalize_constraints',
            'lattice_lib.project_by_dykstra',
            'lattice_lib.assert_constraints'):
    fn = prog.function(q)
    res.analysed(fn)
    for st in ast.walk(fn.node):
      if isinstance(st, ast.If):
        adds = {}
        for a in ast.walk(st):
          if isinstance(a, ast.Assign) and isinstance(a.value, ast.BinOp) and \
              isinstance(a.value.op, ast.Add) and isinstance(
                  a.value.right, ast.List):
            left = a.value.left
            if isinstance(left, ast.Call) and dotted(left.func) in (
                'list', 'tuple') and len(left.args) == 1:
              left = left.args[0]      # list(x) + [..]
            if dotted(a.targets[0]) == dotted(left):
              adds[dotted(a.targets[0])] = a.value.right
          if isinstance(a, ast.AugAssign) and isinstance(a.op, ast.Add) and \
              isinstance(a.value, ast.List):
            adds[dotted(a.target)] = a.value
        if 'lattice_sizes' in adds:
          for nm in ('monotonicities', 'unimodalities'):
            if nm not in fn.all_params:
              continue
            v = adds.get(nm)
            used_later = any(
                isinstance(n, ast.Name) and n.id == nm and
                n.lineno > st.lineno for n in ast.walk(fn.node))
            if not used_later:
              continue
            res.check(v is not None and len(v.elts) == 1 and const_value(
                v.elts[0]) == 0, 'X1', '%s|units-dim:%s' % (q, nm),
                      fn.loc(st),
                      'the appended units dimension gets %s 0' % nm,
                      'lattice_sizes is extended by the units dimension but '
                      '%s is %s: the units axis would be projected like a '
                      'feature' % (nm, 'not extended' if v is None else
                                   'extended by ' + norm_text(v)))
  # loops over dimensions skip unconstrained ones (hence the units dim)
  for name in ('_approximately_project_monotonicity',):
    fn = prog.function('lattice_lib.' + name)
    for loop in ast.walk(fn.node):
      if isinstance(loop, ast.For) and dotted(loop.target) == 'dim':
        # every unstack / stack along `dim` runs only where
        # monotonicities[dim] != 0 (guard-continue or enclosing if)
        from ..cfg import structural_guards, canon_guard
        sites = [c for c in ast.walk(loop) if isinstance(c, ast.Call) and (
            prog.ext_name(fn.module, c.func) or '') in (
                'tf.unstack', 'tf.stack') and any(
                    k.arg == 'axis' and dotted(k.value) == 'dim'
                    for k in c.keywords)]
        if not sites:
          raise AnalysisError('%s: no unstack along dim in the loop' %
                              fn.loc(loop))
        ok = all(('monotonicities[dim] == 0', False) in {
            canon_guard(t, p)
            for t, p in (structural_guards(fn.node, c) or [])}
                 for c in sites)
        res.check(ok, 'X1', '%s|skip-unconstrained@%d' % (
            fn.qualname, loop.lineno - fn.node.lineno), fn.loc(loop),
                  'dimensions with monotonicity 0 (incl. the units dimension) '
                  'are skipped',
                  'the loop over dimensions no longer skips dimensions with '
                  'monotonicity 0 first: the trailing units dimension would '
                  'be made monotone')


# ---------------------------------------------------------------------------
def _x1_kfl(prog, res):
  modname = 'kronecker_factored_lattice_lib'
  for name, table in sorted(KFL_FUNCS.items()):
    fn = prog.function('%s.%s' % (modname, name))
    res.analysed(fn)
    for s in _sites(prog, fn, ('weights',)):
      key = '%s|%s(%s)' % (fn.qualname, s.op, norm_text(s.operand)[:30])
      loc = fn.loc(s.node)
      if s.kind == 'reduce':
        allowed = table.get(s.op)
        if allowed is None:
          res.violation('X1', key, loc,
                        '%s on the KFL kernel is not among the reviewed '
                        'operations of %s' % (s.op, name))
          continue
        res.check(s.axis in allowed, 'X1', key, loc,
                  '%s over axis %s of (1, lattice, units, dims, terms)' % (
                      s.op, s.axis),
                  '%s over axis %s of the (1, lattice, units, dims, terms) '
                  'kernel; allowed: %s (axis 2 is the units axis)' % (
                      s.op, s.axis, allowed))
      elif s.kind == 'concat':
        allowed = table.get(s.op, ())
        res.check(s.axis in allowed, 'X1', key, loc,
                  '%s along axis %s' % (s.op, s.axis),
                  '%s along axis %s of the KFL kernel; allowed %s' % (
                      s.op, s.axis, allowed))
      elif s.kind == 'reshape':
        shp = s.axis
        five = isinstance(shp, (ast.List, ast.Tuple)) and len(shp.elts) == 5
        if five:
          names = [norm_text(e) for e in shp.elts]
          ok = (names[0] == '-1' and names[2] == 'units' and names[3] ==
                'dims')
          res.check(ok, 'X1', key, loc,
                    'reshape to (-1, lattice, units, dims, terms)',
                    'reshape of the KFL kernel to %s: expected (-1, '
                    'lattice_sizes, units, dims, num_terms) - the kernel is '
                    'unit-major in its third axis' % names)
        else:
          ok = dotted(shp) in ('weights_shape', 'shape')
          res.check(ok, 'X1', key, loc, 'reshape back to the stored shape',
                    'reshape of the KFL kernel to %s' % (
                        norm_text(shp)[:40] if shp is not None else '?'))
