"""C02 - Lattice interpolation: structural clauses of both interpolation
schemes (H1-H6), decided by structured matching and a symbolic evaluation of
the stride formula."""
import ast

from ..model import (AnalysisError, FunctionInfo, expand_aug, fold_ifexp, conditional_def, dotted, norm_text,
                     names_read, const_value, is_none)
from ..cfg import structural_guards
from ..rules import wiring
from ..rules import validate
from ..rules.ratfun import Poly
from ..rules import match

TECHNIQUE = ('structured matching of every construction step of the hypercube '
             'and simplex evaluations (clip range, vertex order, hat function, '
             'outer-product layout, sort/argsort pairing, telescoping weights), '
             'symbolic evaluation of the stride formula over symbolic lattice '
             'sizes, forwarding lint')
EXPLANATION = (
    'Static analysis of necessary structural conditions of C02; that the '
    'output equals the multilinear / simplex interpolant at every real input '
    '(continuity, vertex exactness, agreement of the two schemes) is a numeric '
    'identity and is NOT decided. Decided: inputs are clipped to [0, size-1] '
    'per dimension, in both input forms (H1); hypercube weights are the hat '
    'function 1 - min(|x - k|, 1) over keypoints 0..size-1, for all-2 lattices '
    '[1-x, x] in vertex order (H2); the outer product appends each new '
    'dimension as the fastest index, so the flattened weights are row-major '
    'like the kernel (H3); simplex: sort and argsort use the same tensor and '
    'direction, weights are the telescoping differences of the descending '
    'coordinates padded with 1 and 0, the lower corner is at most size-2, '
    'strides are the row-major strides prod(sizes[d+1:]) (evaluated '
    'symbolically for ranks 2-4), vertex indices accumulate the sorted '
    'strides from the lower-corner offset, multi-unit indices address the '
    '(vertices, units) kernel row-major (H4); Lattice.call dispatches totally '
    'on the interpolation and forwards kernel, units, sizes and clip_inputs '
    '(H5); the contraction pairs weights with the kernel over the vertex axis '
    '(H6).'
    ' Also decided: list inputs keep one bucket per dimension and tensor inputs are bucketed by consecutive runs only (H7; any other grouping is unrecognised, exit 2); with clip_inputs on every return path passes a clip (X5); the simplex cell corner is capped from below as well as from above; no loop variable is read after its loop (X6); tuple lattice_sizes are converted before list concatenation (T3); tensors built in the evaluation code take their dtype from an operand (D1).'
    ' Nothing is computed from the inputs before they are clipped when a clip of the inputs follows (X5, before-use clause).')
ASSUMPTIONS = ['tf.sort/argsort/pad/cumsum/gather/reshape semantics; kernel '
               'layout (prod(lattice_sizes), units), vertices row-major']

LL = 'lattice_lib'


class _Unrecognised(Exception):
  pass


def run(prog, res):
  _bucketing(prog, res)
  res.floor('H7', 2)
  from ..rules import staleloop as _sl
  _sl.check(prog, res, [f for f in prog.module('lattice_lib').all_functions()
                        if f.parent is None])
  res.floor('X6', 30)
  from ..rules import guards as _g
  for q in ('lattice_lib.compute_interpolation_weights', 'lattice_lib.evaluate_with_simplex_interpolation'):
    _g.check_clip_paths(prog, res, prog.function(q))
  res.floor('X5', 2)
  from ..rules import dtypes, validate
  dtypes.selfcheck()
  _cl = validate.call_closure(prog, [prog.function(q) for q in ('lattice_layer.Lattice.call',)],
                              follow_init=False)
  dtypes.check_functions(prog, res, [f for _, f in sorted(_cl.items())])
  res.floor('D1', 5)
  from ..rules import seqkind
  seqkind.selfcheck()
  for q in ('lattice_lib.evaluate_with_simplex_interpolation', 'lattice_lib.batch_outer_operation'):
    seqkind.check_function(prog, res, prog.function(q))
  res.floor('T3', 2)
  steps = [
      ('H1', LL + '._clip_onto_lattice_range', _clip),
      ('H2', LL + '.compute_interpolation_weights', _hat),
      ('H3', LL + '.batch_outer_operation', _outer),
      ('H4', LL + '.evaluate_with_simplex_interpolation', _simplex),
      ('H6', LL + '.evaluate_with_hypercube_interpolation', _contraction),
  ]
  for rule, q, f in steps:
    fn = prog.function(q)
    res.analysed(fn)
    try:
      items = f(prog, fn)
    except _Unrecognised as e:
      raise AnalysisError('%s: step has an unrecognised shape (%s)' % (q, e))
    for key, ok_text, probs in items:
      res.check(not probs, rule, '%s|%s' % (q, key), fn.loc(), ok_text,
                '; '.join(probs))
  call = prog.function('lattice_layer.Lattice.call')
  res.analysed(call)
  validate.check_dispatch(prog, res, call, 'self.interpolation', rule='H5')
  for tq in (LL + '.evaluate_with_simplex_interpolation',
             LL + '.evaluate_with_hypercube_interpolation'):
    t = prog.function(tq)
    cs = wiring.calls_to(prog, call, t)
    if len(cs) != 1:
      raise AnalysisError('Lattice.call: expected one call of %s' % tq)
    wiring.check_forwarding(prog, res, call, cs[0], t, rule='H5')
    kw = {k.arg: k.value for k in cs[0].keywords}
    res.check(dotted(kw.get('inputs')) == 'inputs', 'H5',
              '%s->%s|inputs' % (call.qualname, t.name), call.loc(cs[0]),
              'the layer input is evaluated',
              'Lattice.call does not pass its inputs to %s' % t.name)
  res.floor('H1', 3)
  res.floor('H2', 4)
  res.floor('H3', 3)
  res.floor('H4', 8)
  res.floor('H5', 9)
  res.floor('H6', 2)


def _defs(fn):
  d = {}
  def visit(n):
    for st in ast.iter_child_nodes(n):
      if isinstance(st, ast.stmt):
        st2 = expand_aug(st)
        if isinstance(st2, ast.Assign):
          for t in st2.targets:
            nm = dotted(t)
            if nm:
              d.setdefault(nm, []).append(st2)
          if st2 is not st:
            continue
      visit(st)
  visit(fn.node)
  return d


def _ext(prog, fn, c):
  return prog.ext_name(fn.module, c.func) if isinstance(c, ast.Call) else None


def _kw(c):
  return {k.arg: k.value for k in c.keywords}


def _arg(c, i, name):
  kw = _kw(c)
  if name in kw:
    return kw[name]
  return c.args[i] if len(c.args) > i else None


def _txt(e):
  return norm_text(e).replace(' ', '') if e is not None else None


def _bad(node, what, *expected):
  """[] when node is one of the expected forms; [problem] when it has the
  same skeleton but another constant / name / operand order (a semantic
  difference); raises _Unrecognised when the shape itself differs."""
  r = match.form(node, *expected)
  if r == 'ok':
    return []
  if r == 'slot':
    return ['%s is `%s`, expected `%s`' % (what, norm_text(node)[:80],
                                           expected[0])]
  raise _Unrecognised('%s: `%s`' % (what, norm_text(node)[:70]
                                    if node is not None else '<missing>'))


def _closed(d, expr, stop):
  """expr with every single-definition local outside `stop` replaced by its
  definition (repeatedly): the closed form of a value over the names in
  `stop` and the function's inputs"""
  import copy

  class S(ast.NodeTransformer):
    def __init__(self):
      self.n = 0

    def visit_Name(self, n):
      if isinstance(n.ctx, ast.Load) and n.id not in stop and len(
          d.get(n.id, ())) == 1:
        self.n += 1
        return copy.deepcopy(d[n.id][0].value)
      return n
  e = copy.deepcopy(expr)
  for _ in range(6):
    sub = S()
    e = sub.visit(e)
    if not sub.n:
      break
  return ast.fix_missing_locations(e)


def _val(d, name, k=0):
  v = d.get(name)
  if not v or len(v) <= k:
    raise _Unrecognised('definition #%d of %s' % (k, name))
  return v[k].value


# ---------------------------------------------------------------------------
def _size_minus(e, var):
  """c for `var - c` / `var` / `var + (-c)`, else None"""
  if dotted(e) == var:
    return 0
  if isinstance(e, ast.BinOp) and dotted(e.left) == var:
    c = const_value(e.right, None)
    if isinstance(c, (int, float)) and not isinstance(c, bool):
      if isinstance(e.op, ast.Sub):
        return c
      if isinstance(e.op, ast.Add):
        return -c
  return None


def _clip(prog, fn):
  d = _defs(fn)
  clips = [c for c in ast.walk(fn.node) if _ext(prog, fn, c) ==
           'tf.clip_by_value']
  if len(clips) != 2:
    raise _Unrecognised('clip_by_value sites')
  t = clips[0]
  lo = _arg(t, 1, 'clip_value_min')
  hi = _arg(t, 2, 'clip_value_max')
  # by value: the upper clip is a constant built from ONE bound PER DIMENSION,
  # size - 1 each (whatever local the list passes through)
  probs = []
  hv = _closed(d, hi, set())
  per_dim = [c for c in ast.walk(hv) if isinstance(c, ast.ListComp) and len(
      c.generators) == 1 and dotted(c.generators[0].iter) == 'lattice_sizes']
  if per_dim:
    probs += _bad(per_dim[0], 'tensor form upper bounds',
                  '[dim_size - 1.0 for dim_size in lattice_sizes]',
                  '[dim_size - 1 for dim_size in lattice_sizes]')
  elif 'lattice_sizes' in names_read(hv):
    probs.append('the tensor form clips every dimension to the single bound '
                 '`%s`: a dimension smaller than the largest one is no longer '
                 'clipped to its own size - 1' % norm_text(hv)[:60])
  else:
    raise _Unrecognised('tensor form upper bound: `%s`' % norm_text(hv)[:50])
  if _ext(prog, fn, lo) != 'tf.zeros':
    probs.append('tensor form clips to (%s, %s), expected (zeros, '
                 'upper_bounds)' % (norm_text(lo)[:30], norm_text(hi)[:30]))
  items = [('tensor', 'inputs clipped to [0, size - 1] per dimension', probs)]
  dub = [s for s in ast.walk(fn.node) if isinstance(s, ast.Assign)
         and isinstance(s.targets[0], ast.Subscript) and dotted(
             s.targets[0].value) == 'dim_upper_bounds']
  if not dub:
    raise _Unrecognised('dim_upper_bounds')
  ub = _arg(dub[0].value, 0, 'value')
  off = _size_minus(ub, 'dim_size')
  if off is not None and off != 1:
    # recognised, and wrong: the last vertex of a dimension is size - 1
    p2 = ['list form upper bound is dim_size - %g, expected dim_size - 1: '
          'inputs between size - 1 and that bound get weights that no longer '
          'sum to 1' % off]
  else:
    p2 = _bad(ub, 'list form upper bound', 'dim_size - 1.0', 'dim_size - 1')
  p2 += _bad(dub[0].targets[0].slice, 'list form bound key', 'dim_size')
  lb = d.get('dim_lower_bound')
  if not lb or _ext(prog, fn, lb[0].value) != 'tf.zeros':
    p2.append('list form: lower bound is not zero')
  l = clips[1]
  p2 += _bad(l.args[0], 'clipped tensor', 'one_d_input')
  p2 += _bad(_arg(l, 1, 'clip_value_min'), 'list form lower clip',
             'dim_lower_bound')
  p2 += _bad(_arg(l, 2, 'clip_value_max'), 'list form upper clip',
             'dim_upper_bounds[dim_size]')
  loops = [n for n in ast.walk(fn.node) if isinstance(n, ast.For)
           and isinstance(n.iter, ast.Call) and dotted(n.iter.func) == 'zip']
  if not loops:
    raise _Unrecognised('zip loop')
  p2 += _bad(loops[0].iter, 'pairing of inputs and sizes',
             'zip(inputs, lattice_sizes)')
  items.append(('list', 'each input clipped to [0, its own size - 1]', p2))
  rets = [r for r in ast.walk(fn.node) if isinstance(r, ast.Return)]
  items.append(('returns', 'both forms return the clipped inputs',
                [] if len(rets) == 2 else ['expected two returns']))
  return items


def _hat(prog, fn):
  d = _defs(fn)
  items = []
  probs = _bad(_val(d, 'w'), 'all-2 weights',
               'tf.stack([1.0 - inputs, inputs], axis=-1)',
               'tf.stack([1 - inputs, inputs], axis=-1)')
  cl = [s for s in d['w'][1:] if _ext(prog, fn, s.value) ==
        'tf.clip_by_value']
  if not cl:
    probs.append('all-2 weights are not clipped to [0, 1] under clip_inputs')
  else:
    if const_value(_arg(cl[0].value, 1, 'clip_value_min')) != 0 or \
        const_value(_arg(cl[0].value, 2, 'clip_value_max')) != 1:
      probs.append('all-2 weights are clipped to (%s, %s), not [0, 1]' % (
          norm_text(_arg(cl[0].value, 1, 'clip_value_min')),
          norm_text(_arg(cl[0].value, 2, 'clip_value_max'))))
    gs = structural_guards(fn.node, cl[0]) or []
    if not any(dotted(t) == 'clip_inputs' and p for t, p in gs):
      probs.append('all-2 clip is not under `if clip_inputs`')
  un = [c for c in ast.walk(fn.node) if _ext(prog, fn, c) == 'tf.unstack'
        and dotted(c.args[0]) == 'w']
  if not un:
    raise _Unrecognised('unstack of the all-2 weights')
  if const_value(_arg(un[0], 2, 'axis')) != -2:
    probs.append('all-2 weights are unstacked along axis %s, not the '
                 'dimension axis -2' % norm_text(_arg(un[0], 2, 'axis')))
  items.append(('all-2', 'all-2 lattices: [1 - x, x] per dimension', probs))
  kp = [s for s in ast.walk(fn.node) if isinstance(s, ast.Assign)
        and isinstance(s.targets[0], ast.Subscript) and dotted(
            s.targets[0].value) == 'dim_keypoints']
  if not kp:
    raise _Unrecognised('dim_keypoints')
  items.append(('keypoints', 'keypoints 0..size-1', _bad(
      _arg(kp[0].value, 0, 'value'), 'keypoints of a dimension',
      '[i for i in range(dim_size)]', 'list(range(dim_size))',
      'range(dim_size)')))
  p3 = _bad(_val(d, 'distance'), 'distance',
            'tf.abs(tensor - dim_keypoints[dim_size])')
  p3 += _bad(_val(d, 'weights'), 'hat function',
             '1.0 - tf.minimum(distance, 1.0)', '1 - tf.minimum(distance, 1)')
  items.append(('hat', 'weight = 1 - min(|x - k|, 1)', p3))
  p4 = []
  ci = [c for c in ast.walk(fn.node) if isinstance(c, ast.Call)
        and getattr(prog.resolve_call(fn, c), 'name', '') ==
        '_clip_onto_lattice_range']
  if not ci:
    p4.append('general path never clips the inputs')
  else:
    gs = structural_guards(fn.node, ci[0]) or []
    if not any(dotted(t) == 'clip_inputs' and p for t, p in gs):
      p4.append('general path clips without `if clip_inputs`')
  bo = [c for c in ast.walk(fn.node) if isinstance(c, ast.Call)
        and getattr(prog.resolve_call(fn, c), 'name', '') ==
        'batch_outer_operation']
  if len(bo) != 2 or any(dotted(c.args[0]) != 'one_d_interpolation_weights'
                         for c in bo):
    p4.append('per-dimension weights are not combined by '
              'batch_outer_operation(one_d_interpolation_weights)')
  items.append(('combine', 'clipping under clip_inputs, outer product of the '
                'per-dimension weights', p4))
  return items


def _outer(prog, fn):
  d = _defs(fn)
  probs = _bad(_val(d, 'result'), 'first factor',
               'tf.expand_dims(list_of_tensors[0], axis=-1)')
  step = [s for s in d['result'] if isinstance(s.value, ast.Call) and dotted(
      s.value.func) == 'op']
  if not step:
    raise _Unrecognised('op(result, ...) step')
  probs += _bad(step[0].value, 'outer-product step',
                'op(result, tf.expand_dims(tensor, axis=-2))')
  items = [('outer-step', 'result[..., a, b] = result[..., a] * tensor[..., '
            'b]: the new dimension is the fastest index', probs)]
  items.append(('flatten', 'row-major merge of (old vertices, new dimension)',
                _bad(_val(d, 'new_shape'), 'merge of the two last axes',
                     'shape[:-2] + [shape[-2] * shape[-1]]')))
  loop = [n for n in ast.walk(fn.node) if isinstance(n, ast.For)]
  if not loop:
    raise _Unrecognised('loop over the remaining dimensions')
  p3 = _bad(loop[0].iter, 'iteration over the remaining dimensions',
            'enumerate(list_of_tensors[1:])')
  ok = False
  cd = conditional_def(fn.node, 'op')
  if cd is not None and {prog.ext_name(fn.module, cd[1]),
                         prog.ext_name(fn.module, cd[2])} == {
                             'tf.multiply', 'tf.matmul'}:
    ok = True
  if not ok:
    p3.append("'auto' operation is not tf.multiply / tf.matmul")
  items.append(('order', 'dimensions are multiplied in input order', p3))
  return items


# -- symbolic lists for the stride formula -----------------------------------
def _sym_list_eval(e, env):
  if isinstance(e, ast.Name):
    return list(env[e.id])
  if isinstance(e, ast.List):
    return [Poly.const(const_value(x)) for x in e.elts]
  if isinstance(e, ast.BinOp) and isinstance(e.op, ast.Add):
    return _sym_list_eval(e.left, env) + _sym_list_eval(e.right, env)
  if isinstance(e, ast.Subscript) and isinstance(e.slice, ast.Slice):
    base = _sym_list_eval(e.value, env)
    lo = const_value(e.slice.lower) if e.slice.lower is not None else None
    hi = const_value(e.slice.upper) if e.slice.upper is not None else None
    st = const_value(e.slice.step) if e.slice.step is not None else None
    return base[slice(lo, hi, st)]
  if isinstance(e, ast.Call) and (dotted(e.func) or '').endswith('cumprod'):
    base = _sym_list_eval(e.args[0], env)
    out = []
    acc = Poly.const(1)
    for x in base:
      acc = acc * x
      out.append(acc)
    return out
  if isinstance(e, ast.Call) and dotted(e.func) in ('list', 'np.array',
                                                    'tuple'):
    return _sym_list_eval(e.args[0], env)
  raise _Unrecognised('stride formula: %s' % norm_text(e)[:40])


def _simplex(prog, fn):
  d = _defs(fn)
  items = []
  probs = []
  expr = _arg(_val(d, 'strides'), 0, 'value')
  for rank in (2, 3, 4):
    sizes = [Poly.sym('s%d' % i) for i in range(rank)]
    got = _sym_list_eval(expr, {'lattice_sizes': sizes})
    want = []
    for i in range(rank):
      acc = Poly.const(1)
      for j in range(i + 1, rank):
        acc = acc * sizes[j]
      want.append(acc)
    if len(got) != rank or any(not (g == w) for g, w in zip(got, want)):
      probs.append('for rank %d the strides are %s, expected the row-major '
                   'strides %s' % (rank, got, want))
      break
  items.append(('strides', 'strides[d] = prod(lattice_sizes[d+1:]) '
                '(symbolically, ranks 2-4)', probs))
  p2 = _bad(_val(d, 'lower_corner_coordinates'), 'lower corner',
            'tf.cast(inputs, tf.int32)')
  p2 += _bad(_val(d, 'lower_corner_coordinates', 1), 'cap of the lower corner',
             'tf.minimum(lower_corner_coordinates, np.array(lattice_sizes) - '
             '2)')
  # the corner indexes the kernel: it needs a cap from below as well, inputs
  # are only clipped when clip_inputs is on
  floor_ok = False
  for st in d.get('lower_corner_coordinates', []):
    v = st.value
    ext = _ext(prog, fn, v) or ''
    if ext.endswith('maximum') and len(v.args) == 2 and 0 in (
        const_value(v.args[0], None), const_value(v.args[1], None)):
      floor_ok = True
    if ext.endswith('clip_by_value') and len(v.args) >= 2 and const_value(
        v.args[1], None) == 0:
      floor_ok = True
  if not floor_ok:
    p2.append('the lower corner is capped from above (size - 2) but not from '
              'below: with clip_inputs=False a coordinate <= -1 gives a '
              'negative vertex index (InvalidArgumentError in the gather, or '
              'an unrelated vertex)')
  p2 += _bad(_val(d, 'lower_corner_offset'), 'lower-corner offset',
             'tf.reduce_sum(lower_corner_coordinates * strides, axis=-1, '
             'keepdims=True)')
  frac = [s for s in d.get('inputs', []) if isinstance(s.value, ast.BinOp)
          and isinstance(s.value.op, ast.Sub)]
  if not frac:
    raise _Unrecognised('fractional part')
  p2 += _bad(frac[0].value, 'fractional coordinates',
             'inputs - tf.cast(lower_corner_coordinates, inputs.dtype)')
  items.append(('lower-corner', 'cell lower corner <= size-2, offset = '
                'corner . strides, fractional coordinates', p2))
  p3 = []
  a, b = _val(d, 'sorted_indices'), _val(d, 'sorted_inputs')
  if _ext(prog, fn, a) != 'tf.argsort' or _ext(prog, fn, b) != 'tf.sort':
    raise _Unrecognised('sort / argsort calls')
  da = const_value(_kw(a).get('direction'), 'ASCENDING')
  db = const_value(_kw(b).get('direction'), 'ASCENDING')
  if dotted(a.args[0]) != 'inputs' or dotted(b.args[0]) != 'inputs':
    p3.append('sort and argsort are applied to %s / %s' % (
        norm_text(a.args[0]), norm_text(b.args[0])))
  if da != db:
    p3.append('argsort is %s but sort is %s: strides and weights are paired '
              'with different coordinates' % (da, db))
  if db != 'DESCENDING':
    p3.append('coordinates are sorted %s; the telescoping weights 1 - x(1), '
              'x(1) - x(2), ... need DESCENDING order' % db)
  for c in (a, b):
    ax = const_value(_kw(c).get('axis'), -1)
    if ax != -1:
      p3.append('sorting over axis %s instead of the coordinate axis -1' % ax)
  items.append(('sort-pairing', 'argsort and sort: same tensor, DESCENDING',
                p3))
  # by value: the locals the two padded sequences pass through (if any) are
  # replaced by their definitions before the comparison
  p4 = _bad(_closed(d, _val(d, 'weights'), {'sorted_inputs',
                                            'no_padding_dims'}),
            'simplex weights',
            'tf.pad(sorted_inputs, no_padding_dims + [[1, 0]], '
            'constant_values=1.0) - tf.pad(sorted_inputs, no_padding_dims + '
            '[[0, 1]], constant_values=0.0)')
  items.append(('telescoping', 'weights = [1, x(1), ..] - [x(1), .., 0]: '
                'non-negative, summing to 1', p4))
  p5 = _bad(_val(d, 'sorted_strides'), 'sorted strides',
            'tf.gather(strides, sorted_indices)')
  co = d.get('corner_offset_and_sorted_strides', [])
  if len(co) != 2:
    raise _Unrecognised('corner_offset_and_sorted_strides')
  for s in co:
    if _ext(prog, fn, s.value) == 'tf.pad':
      p5 += _bad(s.value, 'all-2 walk start',
                 'tf.pad(sorted_strides, no_padding_dims + [[1, 0]])')
    else:
      p5 += _bad(s.value, 'walk start',
                 'tf.concat([lower_corner_offset, sorted_strides], axis=-1)')
  p5 += _bad(_val(d, 'indices'), 'vertex indices',
             'tf.cumsum(corner_offset_and_sorted_strides, axis=-1)')
  items.append(('walk', 'vertex k = corner + sum of the k largest-coordinate '
                'strides', p5))
  p6 = _bad(_val(d, 'flat_indices'), 'multi-unit flat index',
            'indices * units + unit_offset')
  p6 += _bad(_arg(_val(d, 'unit_offset'), 0, 'value'), 'unit offset',
             '[[i] * (lattice_rank + 1) for i in range(units)]')
  gp = d.get('gathered_params', [])
  if len(gp) != 2:
    raise _Unrecognised('gathered_params')
  forms = set()
  for s in gp:
    forms.add(_txt(s.value.args[1]) if isinstance(s.value, ast.Call) and len(
        s.value.args) > 1 else None)
    p6 += _bad(s.value, 'parameter gather',
               'tf.gather(tf.reshape(kernel, [-1]), indices)',
               'tf.gather(tf.reshape(kernel, [-1]), flat_indices)')
  if forms != {'indices', 'flat_indices'}:
    p6.append('gather indices are %s, expected indices (one unit) and '
              'flat_indices (several)' % sorted(map(str, forms)))
  items.append(('addressing', 'kernel flattened row-major, one column per '
                'unit', p6))
  rets = [r for r in ast.walk(fn.node) if isinstance(r, ast.Return)]
  items.append(('combination', 'output = sum of vertex weight * vertex value',
                _bad(rets[-1].value, 'output',
                     'tf.reduce_sum(tf.multiply(gathered_params, weights), '
                     'axis=-1, keepdims=units == 1)',
                     'tf.reduce_sum(gathered_params * weights, axis=-1, '
                     'keepdims=units == 1)')))
  p8 = []
  ci = [c for c in ast.walk(fn.node) if isinstance(c, ast.Call)
        and getattr(prog.resolve_call(fn, c), 'name', '') ==
        '_clip_onto_lattice_range']
  if not ci:
    p8.append('inputs are never clipped')
  else:
    gs = structural_guards(fn.node, ci[0]) or []
    if not any(dotted(t) == 'clip_inputs' and p for t, p in gs):
      p8.append('clipping is not under `if clip_inputs`')
  items.append(('clip', 'inputs clipped under clip_inputs', p8))
  return items


def _contraction(prog, fn):
  items = []
  mm = [c for c in ast.walk(fn.node) if _ext(prog, fn, c) == 'tf.matmul']
  rs = [c for c in ast.walk(fn.node) if _ext(prog, fn, c) == 'tf.reduce_sum']
  if not mm or not rs:
    raise _Unrecognised('contractions')
  probs = _bad(mm[0], 'single-unit output',
               'tf.matmul(interpolation_weights, kernel)')
  probs += _bad(rs[0], 'multi-unit output',
                'tf.reduce_sum(interpolation_weights * tf.transpose(kernel), '
                'axis=-1)')
  items.append(('contraction', 'output = weights . kernel over the vertex '
                'axis', probs))
  p2 = []
  cw = [c for c in ast.walk(fn.node) if isinstance(c, ast.Call)
        and getattr(prog.resolve_call(fn, c), 'name', '') ==
        'compute_interpolation_weights']
  if len(cw) != 1:
    raise _Unrecognised('compute_interpolation_weights call')
  kw = _kw(cw[0])
  for p in ('inputs', 'lattice_sizes', 'clip_inputs'):
    if dotted(kw.get(p)) != p:
      p2.append('compute_interpolation_weights receives %s=%s' % (
          p, norm_text(kw.get(p)) if kw.get(p) is not None else '<missing>'))
  items.append(('weights-args', 'weights computed from (inputs, '
                'lattice_sizes, clip_inputs)', p2))
  return items


def _pairwise_to_index(st, seq):
  """for p, c in zip(seq[:-1], seq[1:]): B   is read as
  for i in range(1, len(seq)): B[p := seq[i - 1], c := seq[i]]
  (consecutive pairs, in order); anything else is returned unchanged"""
  import copy
  if not (isinstance(st, ast.For) and isinstance(st.iter, ast.Call) and
          dotted(st.iter.func) == 'zip' and len(st.iter.args) == 2 and
          not st.iter.keywords and isinstance(st.target, ast.Tuple) and
          len(st.target.elts) == 2 and all(
              isinstance(e, ast.Name) for e in st.target.elts)):
    return st
  a, b = [norm_text(x).replace(' ', '') for x in st.iter.args]
  if (a, b) != ('%s[:-1]' % seq, '%s[1:]' % seq):
    return st
  p_, c_ = [e.id for e in st.target.elts]
  if any(isinstance(n, ast.Name) and n.id in (p_, c_, 'i') and isinstance(
      n.ctx, (ast.Store, ast.Del)) for x in st.body for n in ast.walk(x)):
    return st
  prev = ast.parse('%s[i - 1]' % seq, mode='eval').body
  cur = ast.parse('%s[i]' % seq, mode='eval').body

  class S(ast.NodeTransformer):
    def visit_Name(self, n):
      if isinstance(n.ctx, ast.Load) and n.id == p_:
        return ast.copy_location(copy.deepcopy(prev), n)
      if isinstance(n.ctx, ast.Load) and n.id == c_:
        return ast.copy_location(copy.deepcopy(cur), n)
      return n
  new = copy.deepcopy(st)
  new.target = ast.copy_location(ast.Name(id='i', ctx=ast.Store()), st.target)
  new.iter = ast.copy_location(ast.parse(
      'range(1, len(%s))' % seq, mode='eval').body, st.iter)
  new.body = [S().visit(x) for x in new.body]
  from ..model import canonicalise
  return ast.fix_missing_locations(canonicalise(ast.Module(
      body=[new], type_ignores=[])).body[0])


def _bucketing(prog, res):
  """H7: _bucketize_consequtive_equal_dims may merge only CONSECUTIVE
  dimensions of equal size (the kernel is row-major over the dimensions in
  order).  The tensor branch starts a new bucket whenever
  lattice_sizes[i] != lattice_sizes[i - 1]; list inputs keep one bucket per
  dimension.  Any other grouping is not recognised (exit 2): whether it
  preserves the dimension order cannot be decided here."""
  fn = prog.function('lattice_lib._bucketize_consequtive_equal_dims')
  res.analysed(fn)
  d = _defs(fn)
  top = [st for st in fn.node.body if isinstance(st, ast.If)]
  if not top:
    raise AnalysisError('_bucketize_consequtive_equal_dims: list / tensor '
                        'dispatch vanished')
  list_arm = top[0].body if 'isinstance' in norm_text(top[0].test) and \
      'list' in norm_text(top[0].test) else top[0].orelse
  tensor_arm = top[0].orelse if list_arm is top[0].body else top[0].body
  la = {dotted(st.targets[0]): st.value for st in list_arm
        if isinstance(st, ast.Assign)}
  if set(la) != {'bucket_sizes', 'bucket_dim_sizes'}:
    raise AnalysisError('_bucketize_consequtive_equal_dims: the list branch '
                        'regroups its inputs (%s); order preservation of the '
                        'grouping is not decidable here' % sorted(la))
  probs = _bad(la['bucket_sizes'], 'bucket sizes of list inputs',
               '[1] * len(lattice_sizes)')
  probs += _bad(la['bucket_dim_sizes'], 'bucket dimension sizes of list inputs',
                'lattice_sizes')
  res.check(not probs, 'H7', fn.qualname + '|list-buckets', fn.loc(),
            'list inputs keep one bucket per dimension, in order',
            '; '.join(probs))
  tensor_arm = [_pairwise_to_index(st, 'lattice_sizes') for st in tensor_arm]
  tests = [n for st in tensor_arm for n in ast.walk(st)
           if isinstance(n, ast.If)]
  if not tests:
    raise AnalysisError('_bucketize_consequtive_equal_dims: run detection '
                        'vanished')
  # normal form: a two-armed if tests with == (arms swapped if the source
  # says !=); the equal arm extends the run, the other arm closes it
  t = tests[0]
  probs = _bad(t.test, 'continuation of a bucket',
               'lattice_sizes[i] == lattice_sizes[i - 1]',
               'lattice_sizes[i - 1] == lattice_sizes[i]')
  grows = [norm_text(x) for x in t.body]
  closes = [norm_text(x) for x in t.orelse]
  if grows != ['current_size += 1']:
    probs.append('the run is not extended by one where consecutive sizes '
                 'are equal (%s)' % grows)
  if not (any(c.startswith('bucket_sizes.append(current_size)')
              for c in closes) and 'current_size = 1' in closes):
    probs.append('the run is not closed (size appended, counter reset) '
                 'where consecutive sizes differ (%s)' % closes)
  res.check(not probs, 'H7', fn.qualname + '|consecutive-runs', fn.loc(),
            'a new bucket starts where consecutive sizes differ',
            '; '.join(probs))
