"""V3 - synonymous spellings configure identical behaviour: every if/elif
chain (and conditional expression) that tests a raw, non-canonicalised
hyperparameter takes the same branch for both spellings of each synonym
class ('increasing'/1, 'peak'/-1, 'positive'/1, 'convex'/1, 'none'/0)."""
import ast

from ..model import (AnalysisError, dotted, norm_text, const_value, names_read,
                     orelse_view)
from ..rules import validate
from ..rules import spelling
from ..rules.wiring import FnCtx

BASENAMES = {
    'monotonicity': 'monotonicity', 'monotonicities': 'monotonicity',
    'middle_monotonicity': 'monotonicity',
    'unimodality': 'unimodality', 'unimodalities': 'unimodality',
    'convexity': 'convexity', 'pwl_calibration_convexity': 'convexity',
    'direction': 'direction', 'cond_direction': 'direction',
    'trust_direction': 'direction',
}


def _candidates(test):
  """raw-candidate expressions in a test: dotted names / subscripts whose
  base name belongs to a synonym family -> {text: (family, node)}."""
  out = {}
  for n in ast.walk(test):
    e = n
    d = None
    if isinstance(e, ast.Subscript):
      b = e.value
      d = dotted(b)
      text = norm_text(e)
    else:
      d = dotted(e) if isinstance(e, (ast.Name, ast.Attribute)) else None
      text = d
    if d is None:
      continue
    base = d.split('.')[-1]
    fam = BASENAMES.get(base)
    if fam is None:
      continue
    if isinstance(n, ast.Subscript) and not base.endswith('ies'):
      continue
    if not isinstance(n, ast.Subscript) and base.endswith('ies'):
      continue      # the list itself, not an element
    out[text] = (fam, n)
  return out


def _canonical_call(v):
  return isinstance(v, ast.Call) and (dotted(v.func) or '').split(
      '.')[-1].startswith('canonicalize_')


def _is_canonical(prog, fn, expr, depth=0):
  e = expr
  while isinstance(e, ast.Subscript):
    e = e.value
  d = dotted(e)
  if d is None:
    return True
  mod = fn.module.name
  if d.startswith('self.'):
    cls = fn.cls
    if cls is not None:
      init = cls.find_method('__init__')
      if init is not None:
        for n in ast.walk(init.node):
          if isinstance(n, ast.Assign) and dotted(n.targets[0]) == d:
            if _canonical_call(n.value):
              return True
    return False
  if '.' in d:
    return False      # attribute of a config object: raw
  ctx = FnCtx.of(fn)
  at = ctx.cfg.node_containing(expr)
  defs = ctx.rd.defs_reaching(at, d) if at is not None else set()
  if defs:
    kinds = []
    for nid in defs:
      node = ctx.cfg.nodes[nid]
      if node.kind == 'entry':
        kinds.append(_param_canonical(prog, fn, d))
      elif node.kind == 'stmt' and isinstance(node.stmt, ast.Assign):
        v = node.stmt.value
        if _canonical_call(v):
          kinds.append(True)
        elif depth < 3 and isinstance(v, (ast.Name, ast.Attribute,
                                           ast.Subscript)):
          kinds.append(_is_canonical(prog, fn, v, depth + 1))
        else:
          kinds.append(True)
      elif node.kind == 'iter':
        kinds.append(_is_canonical(prog, fn, node.stmt.iter, depth + 1)
                     if depth < 3 and isinstance(
                         node.stmt.iter, (ast.Name, ast.Attribute))
                     else True)
      else:
        kinds.append(True)
    return all(kinds)
  return True


def _param_canonical(prog, fn, name):
  mod = fn.module.name
  if validate.is_validator(fn):
    if fn.name.startswith('_verify'):
      # private helper: canonical iff every caller passes a canonical value
      callers = 0
      for g in prog.all_functions():
        if g.module is not fn.module:
          continue
        for c in ast.walk(g.node):
          if isinstance(c, ast.Call) and prog.resolve_call(g, c) is fn:
            from ..model import call_args
            bound, _, _ = call_args(c, fn.all_params)
            v = bound.get(name)
            if v is None:
              continue
            callers += 1
            if not _is_canonical(prog, g, v, 1):
              return False
      return callers > 0
    return False
  if mod.endswith('_lib') and mod != 'premade_lib':
    return True
  if mod in ('internal_utils', 'utils'):
    return True
  return False


def _validated_spellings(prog, fn, var_text):
  """spellings a validator of the same module accepts for this variable
  (string set), or None."""
  base = var_text.split('.')[-1]
  out = None
  for g in fn.module.all_functions():
    if g.parent is not None:
      continue
    for ch in validate.dispatch_chains(g.node):
      if ch.var.split('.')[-1] == base and ch.else_kind == 'none' and \
          ch.total:
        lits = {h for h in ch.handled if not str(h).startswith('<other')}
        out = (out or set()) | lits
  return out


def run(prog, res):
  n = 0
  for fn in prog.all_functions():
    if fn.parent is not None or fn.module.name in ('utils', 'configs',
                                                   'model_info'):
      continue
    elifs = set()
    view = orelse_view(fn.node)
    for node in ast.walk(fn.node):
      if isinstance(node, ast.If) and view.next_arm(node) is not None:
        elifs.add(id(view.next_arm(node)))
    heads = []
    for node in ast.walk(fn.node):
      if isinstance(node, ast.If) and id(node) not in elifs:
        heads.append(node)
      elif isinstance(node, ast.IfExp):
        fake = ast.If(test=node.test, body=[], orelse=[])
        fake.lineno = node.lineno
        heads.append(fake)
      elif isinstance(node, ast.comprehension):
        for c in node.ifs:
          fake = ast.If(test=c, body=[], orelse=[])
          fake.lineno = getattr(c, 'lineno', 0)
          heads.append(fake)
      elif isinstance(node, (ast.GeneratorExp, ast.ListComp)) and isinstance(
          node.elt, (ast.Compare, ast.BoolOp)):
        fake = ast.If(test=node.elt, body=[], orelse=[])
        fake.lineno = node.elt.lineno
        heads.append(fake)
    for h in heads:
      arms, else_body = view.chain(h)
      if not arms[-1].orelse and validate._always_raises(arms[-1].body):
        else_body = []      # a guard followed by the rest of the function
      tests = [a.test for a in arms]
      cands = {}
      for t in tests:
        cands.update(_candidates(t))
      for text, (fam, node) in sorted(cands.items()):
        if _is_canonical(prog, fn, node):
          continue
        # pure rejection chains define the accepted set; not a behaviour
        bodies = [a.body for a in arms if a.body] + (
            [else_body] if else_body else [])
        if bodies and all(validate._always_raises(b) for b in bodies):
          continue
        allowed = _validated_spellings(prog, fn, text)
        n += 1
        res.analysed(fn)
        bad = []
        compared = 0
        for cls, spellings in sorted(spelling.FAMILIES[fam].items()):
          sp = [s for s in spellings if allowed is None or s in allowed]
          if len(sp) < 2:
            continue
          compared += 1
          sigs = [spelling.chain_signature(h, text, s, fam, arms=arms)
                  for s in sp]
          # a spelling that lands in an arm that only raises is rejected
          # there: the arm defines the accepted set, it is not behaviour
          def rejected(sig):
            last = sig[-1] if sig else None
            return bool(last) and last[0] == 'T' and last[1] < len(
                arms) and validate._always_raises(arms[last[1]].body)
          sigs = [x for x in sigs if not rejected(x)]
          if len(sigs) < 2:
            continue
          if any(x != sigs[0] for x in sigs):
            bad.append((cls, sp, sigs))
        key = '%s|%s@%s' % (fn.qualname, text, norm_text(tests[0])[:40])
        res.check(not bad, 'V3', key, fn.loc(h),
                  'raw %s `%s`: %d synonym classes take the same branch' % (
                      fam, text, compared),
                  'raw (non-canonicalised) %s `%s`: spellings %s of class %r '
                  'take different branches of `%s` (%s)' % (
                      fam, text, bad[0][1] if bad else '', bad[0][0] if bad
                      else '', norm_text(tests[0])[:50],
                      bad[0][2] if bad else ''))
  res.extra['raw_synonym_tests'] = n
  res.floor('V3', 4)
