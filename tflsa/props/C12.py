"""C12 - assert_constraints accepts exactly the feasible weights (A1-A4, W1)."""
import ast

from ..model import AnalysisError, dotted, norm_text, names_read
from ..rules import asserts
from ..rules import wiring
from ..rules import stencil

TECHNIQUE = ('abstract interpretation of tf.Assert conditions (scalar-ness, '
             'aggregate polarity, eps direction), parameter-to-assert control '
             'dependence, forwarding lint')
EXPLANATION = (
    'Static analysis of necessary conditions of C12, not of the numeric '
    'accept/reject behaviour: every tf.Assert condition in the five '
    'assert_constraints libraries evaluates to a scalar (A1) that is a '
    'universal aggregate - min >= c, max <= c, count <= 0 or reduce_all of an '
    'elementwise test (A2) - whose eps enters on the relaxing side (A2e); every '
    'covered constraint-kind parameter gates or feeds at least one assert '
    '(A3); the asserted linear form agrees with the projection half-space '
    '(A4, when the affine engine is available); and each layer forwards every '
    'constraint kind it holds to the library (W1). The eps margins themselves '
    'and TF op semantics are trusted.')
ASSUMPTIONS = [
    'tf.reduce_* / tf.Assert / tf.squeeze have their documented semantics',
    'weights, outputs, scale are the only tensor-valued parameters of the '
    'assert functions; all other parameters are Python configuration',
]

LIBS = [
    # (function, covered kinds, exceptions)
    ('lattice_lib.assert_constraints',
     ['monotonicities', 'edgeworth_trusts', 'trapezoid_trusts',
      'monotonic_dominances', 'range_dominances', 'joint_monotonicities',
      'joint_unimodalities', 'output_min', 'output_max'],
     {'joint_unimodalities':
          'deleted with a TODO in the code; joint unimodality is not in the '
          'property\'s list of covered kinds'}),
    ('pwl_calibration_lib.assert_constraints',
     ['monotonicity', 'output_min', 'output_max', 'clamp_min', 'clamp_max'],
     {}),
    ('linear_lib.assert_constraints',
     ['monotonicities', 'monotonic_dominances', 'range_dominances',
      'normalization_order'], {}),
    ('categorical_calibration_lib.assert_constraints',
     ['output_min', 'output_max', 'monotonicities'], {}),
    ('kronecker_factored_lattice_lib.assert_constraints',
     ['monotonicities', 'output_min', 'output_max', 'scale'], {}),
]
HELPERS = ['kronecker_factored_lattice_lib._assert_monotonicity_constraints',
           'kronecker_factored_lattice_lib._assert_bound_constraints']

LAYERS = [
    ('lattice_layer.Lattice.assert_constraints',
     'lattice_lib.assert_constraints', {'weights': 'kernel'}),
    ('linear_layer.Linear.assert_constraints',
     'linear_lib.assert_constraints', {'weights': 'kernel'}),
    ('categorical_calibration_layer.CategoricalCalibration.assert_constraints',
     'categorical_calibration_lib.assert_constraints', {'weights': 'kernel'}),
    ('kronecker_factored_lattice_layer.KroneckerFactoredLattice.'
     'assert_constraints',
     'kronecker_factored_lattice_lib.assert_constraints',
     {'weights': 'kernel'}),
    ('pwl_calibration_layer.PWLCalibration.assert_constraints',
     'pwl_calibration_lib.assert_constraints', {}),
]


def run(prog, res):
  from ..rules import seqkind
  seqkind.selfcheck()
  for q in ('lattice_lib.assert_constraints',):
    seqkind.check_function(prog, res, prog.function(q))
  res.floor('T3', 1)
  total = 0
  for qual, kinds, exc in LIBS:
    fn = prog.function(qual)
    total += asserts.check_asserts(prog, res, fn)
    asserts.check_coverage(prog, res, fn, kinds, exc)
  for qual in HELPERS:
    total += asserts.check_asserts(prog, res, prog.function(qual))
  res.extra['assert_sites'] = total
  # A5: loops over vertex rows / columns cover the whole grid
  n5 = stencil.check_stencils(prog, res, prog.function(
      'lattice_lib.assert_constraints'))
  n5 += stencil.check_stencils(prog, res, prog.function(
      'kronecker_factored_lattice_lib._assert_monotonicity_constraints'))
  res.floor('A5', 22)
  # W1: layers forward every kind
  for lq, tq, aliases in LAYERS:
    fn = prog.function(lq)
    res.analysed(fn)
    target = prog.function(tq)
    calls = wiring.calls_to(prog, fn, target)
    if not calls:
      raise AnalysisError('%s no longer calls %s' % (lq, tq))
    # the first call is the one over the layer's own weights
    wiring.check_forwarding(prog, res, fn, calls[0], target, rule='W1',
                            aliases=aliases,
                            skip=('debug_tensors',))
    _eps_forwarded(res, fn, calls)
  _rtl(prog, res)
  # A4 (asserted form == projection half-space) runs when the affine engine
  # is built; it registers its own floor.
  try:
    from ..rules import affine_rules
  except ImportError:
    affine_rules = None
  if affine_rules is not None and hasattr(affine_rules, 'check_A4'):
    affine_rules.check_A4(prog, res)
  res.floor('A1', 29)
  res.floor('A2', 29)
  res.floor('A2e', 20)
  res.floor('A3', 23)
  res.floor('W1', 30)


def _eps_forwarded(res, fn, calls):
  for i, c in enumerate(calls):
    kw = {k.arg: k.value for k in c.keywords}
    v = kw.get('eps')
    res.check(v is not None and dotted(v) == 'eps', 'W1',
              '%s|eps#%d' % (fn.qualname, i), fn.loc(c),
              'caller\'s eps is forwarded',
              'the layer\'s eps argument is not forwarded to the library')


def _rtl(prog, res):
  fn = prog.function('rtl_layer.RTL.assert_constraints')
  res.analysed(fn)
  good = False
  for loop in ast.walk(fn.node):
    if isinstance(loop, ast.For) and 'self._lattice_layers' in names_read(
        loop.iter):
      var = loop.target.id if isinstance(loop.target, ast.Name) else None
      for c in ast.walk(loop):
        if (isinstance(c, ast.Call) and isinstance(c.func, ast.Attribute)
            and c.func.attr == 'assert_constraints'
            and dotted(c.func.value) == var):
          passes = [dotted(a) for a in c.args] + [
              dotted(k.value) for k in c.keywords if k.arg == 'eps']
          # result must be collected
          for coll in ast.walk(loop):
            if (isinstance(coll, ast.Call) and isinstance(
                coll.func, ast.Attribute) and coll.func.attr in (
                    'extend', 'append') and any(x is c for x in ast.walk(coll))
                and 'eps' in passes):
              good = True
  res.check(good, 'W1', 'rtl_layer.RTL.assert_constraints|all-lattices',
            fn.loc(),
            'every lattice layer is asserted with the caller\'s eps and the '
            'results are collected',
            'RTL.assert_constraints does not assert every lattice layer with '
            'the caller\'s eps')
